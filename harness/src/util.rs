//! Small shared helpers: deterministic PRNG, ndjson output, argument parsing.
use std::{
    collections::BTreeMap,
    fs::File,
    io::{BufWriter, Write},
};

/// splitmix64-seeded xoshiro256** — own implementation so that scenario
/// generation depends on VERIF_SEED only and on no crate version.
#[derive(Clone, Debug)]
pub struct Rng {
    s: [u64; 4],
}

impl Rng {
    pub fn new(seed: u64) -> Self {
        let mut x = seed.wrapping_add(0x9E37_79B9_7F4A_7C15);
        let mut next = || {
            x = x.wrapping_add(0x9E37_79B9_7F4A_7C15);
            let mut z = x;
            z = (z ^ (z >> 30)).wrapping_mul(0xBF58_476D_1CE4_E5B9);
            z = (z ^ (z >> 27)).wrapping_mul(0x94D0_49BB_1331_11EB);
            z ^ (z >> 31)
        };
        Self {
            s: [next(), next(), next(), next()],
        }
    }
    pub fn u64(&mut self) -> u64 {
        let r = self.s[1].wrapping_mul(5).rotate_left(7).wrapping_mul(9);
        let t = self.s[1] << 17;
        self.s[2] ^= self.s[0];
        self.s[3] ^= self.s[1];
        self.s[1] ^= self.s[2];
        self.s[0] ^= self.s[3];
        self.s[2] ^= t;
        self.s[3] = self.s[3].rotate_left(45);
        r
    }
    /// uniform in 0..n (n > 0)
    pub fn below(&mut self, n: u64) -> u64 {
        self.u64() % n
    }
    /// uniform in lo..=hi
    pub fn range(&mut self, lo: i64, hi: i64) -> i64 {
        lo + (self.below((hi - lo + 1) as u64) as i64)
    }
    pub fn chance(&mut self, num: u64, den: u64) -> bool {
        self.below(den) < num
    }
    pub fn pick<'a, T>(&mut self, xs: &'a [T]) -> &'a T {
        &xs[self.below(xs.len() as u64) as usize]
    }
    pub fn bytes(&mut self, n: usize) -> Vec<u8> {
        let mut v = Vec::with_capacity(n + 8);
        while v.len() < n {
            v.extend_from_slice(&self.u64().to_le_bytes());
        }
        v.truncate(n);
        v
    }
    /// random bytes of a random length in lo..=hi
    pub fn rbytes(&mut self, lo: i64, hi: i64) -> Vec<u8> {
        let n = self.range(lo, hi) as usize;
        self.bytes(n)
    }
    pub fn fork(&mut self) -> Self {
        Self::new(self.u64())
    }
}

/// ndjson writer
pub struct Out {
    w: BufWriter<File>,
    pub lines: usize,
}

impl Out {
    pub fn create(path: &str) -> Self {
        Self {
            w: BufWriter::new(File::create(path).unwrap_or_else(|e| panic!("create {path}: {e}"))),
            lines: 0,
        }
    }
    pub fn rec(&mut self, v: &serde_json::Value) {
        serde_json::to_writer(&mut self.w, v).unwrap();
        self.w.write_all(b"\n").unwrap();
        // (flushed record by record: a watchdog may end the process at any time and the trace so far must be on disk)
        self.w.flush().unwrap();
        // heartbeat: a driver that emits nothing for fifteen minutes is stuck in a call that does not return
        watch::beat(900);
        self.lines += 1;
    }
    pub fn finish(mut self) -> usize {
        self.w.flush().unwrap();
        self.lines
    }
}

/// `--key value` arguments
pub struct Args(BTreeMap<String, String>);

impl Args {
    pub fn parse(args: &[String]) -> Self {
        let mut m = BTreeMap::new();
        let mut i = 0;
        while i < args.len() {
            let k = args[i].trim_start_matches("--").to_string();
            let v = args.get(i + 1).cloned().unwrap_or_default();
            _ = m.insert(k, v);
            i += 2;
        }
        Self(m)
    }
    pub fn str(&self, k: &str, d: &str) -> String {
        self.0.get(k).cloned().unwrap_or_else(|| d.to_string())
    }
    pub fn num(&self, k: &str, d: u64) -> u64 {
        self.0.get(k).map_or(d, |v| v.parse().unwrap_or_else(|_| panic!("bad --{k}")))
    }
    pub fn has(&self, k: &str) -> bool {
        self.0.contains_key(k)
    }
}

/// Watchdog for drivers that run library commands on the main thread: a command that does not return within the
/// armed time is a hang (deadlock) - the process writes `<out>.hang` and exits with code 3 instead of blocking the check.
pub mod watch {
    use std::sync::{
        Mutex,
        atomic::{AtomicU64, Ordering},
    };

    static DEADLINE: AtomicU64 = AtomicU64::new(0);
    static WHAT: Mutex<String> = Mutex::new(String::new());

    fn now() -> u64 {
        std::time::SystemTime::now().duration_since(std::time::UNIX_EPOCH).map_or(0, |d| d.as_secs())
    }
    pub fn start(hangfile: String) {
        _ = std::thread::spawn(move || {
            loop {
                std::thread::sleep(std::time::Duration::from_millis(500));
                let d = DEADLINE.load(Ordering::Relaxed);
                if d != 0 && now() > d {
                    let what = WHAT.lock().map(|w| w.clone()).unwrap_or_default();
                    _ = std::fs::write(&hangfile, &what);
                    eprintln!("HANG: {what}");
                    std::process::exit(3);
                }
            }
        });
    }
    pub fn arm(secs: u64, what: &str) {
        if let Ok(mut w) = WHAT.lock() {
            *w = what.to_string();
        }
        DEADLINE.store(now() + secs, Ordering::Relaxed);
    }
    pub fn disarm() {
        DEADLINE.store(0, Ordering::Relaxed);
    }
    /// push the deadline out to at least `secs` from now (never shortens a deadline armed for a command)
    pub fn beat(secs: u64) {
        let want = now() + secs;
        if DEADLINE.load(Ordering::Relaxed) < want {
            if let Ok(mut w) = WHAT.lock() {
                if w.is_empty() || w.starts_with("no record") {
                    *w = format!("no record written for {secs} s");
                }
            }
            DEADLINE.store(want, Ordering::Relaxed);
        }
    }
}
