//! In-memory repository store with a linearised operation log, plus per-handle
//! fault injection, gating (park a command before its k-th operation), seeded
//! delays and cold-storage behaviour.  Everything goes through the public
//! `ReadBackend` / `WriteBackend` traits of rustic_core.
use std::{
    collections::{BTreeMap, BTreeSet},
    sync::{
        Arc, Condvar, Mutex, RwLock,
        atomic::{AtomicBool, AtomicU64, AtomicUsize, Ordering},
    },
    time::Duration,
};

use bytes::{Bytes, BytesMut};
use rustic_core::{
    BytesList, ErrorKind, FileType, Id, ReadBackend, RusticError, RusticResult, WriteBackend,
};

pub type Key = (u8, Id);
pub type Map = BTreeMap<Key, Bytes>;

pub fn tnum(t: FileType) -> u8 {
    match t {
        FileType::Config => 0,
        FileType::Index => 1,
        FileType::Key => 2,
        FileType::Snapshot => 3,
        FileType::Pack => 4,
    }
}
pub fn tname(t: u8) -> &'static str {
    ["config", "index", "key", "snapshot", "pack"][t as usize]
}
pub fn tfrom(t: u8) -> FileType {
    [
        FileType::Config,
        FileType::Index,
        FileType::Key,
        FileType::Snapshot,
        FileType::Pack,
    ][t as usize]
}

#[derive(Clone, Copy, Debug, PartialEq, Eq)]
pub enum OpKind {
    Write,
    Remove,
    List,
    ReadFull,
    ReadPartial,
    WarmUp,
    Create,
    CoolDown,
}

impl OpKind {
    pub fn name(self) -> &'static str {
        match self {
            Self::Write => "write",
            Self::Remove => "remove",
            Self::List => "list",
            Self::ReadFull => "read_full",
            Self::ReadPartial => "read_partial",
            Self::WarmUp => "warm_up",
            Self::Create => "create",
            Self::CoolDown => "cool_down",
        }
    }
    pub fn mutating(self) -> bool {
        matches!(self, Self::Write | Self::Remove)
    }
}

#[derive(Clone, Debug)]
pub struct Op {
    pub seq: u64,
    pub proc_: u32,
    pub kind: OpKind,
    pub tpe: u8,
    pub id: Id,
    pub len: u32,
    pub ok: bool,
    /// write: the bytes; overwrite of an existing key is flagged
    pub data: Option<Bytes>,
    pub overwrote: bool,
    pub store: u8,
}

/// global sequence shared by several stores (hot + cold) so that their logs merge into one order
#[derive(Debug, Default)]
pub struct Clock {
    seq: AtomicU64,
    pub log: Mutex<Vec<Op>>,
}

#[derive(Debug)]
pub struct Inner {
    pub map: RwLock<Map>,
    pub clock: Arc<Clock>,
    pub store_no: u8,
    pub cold: bool,
    pub strict_cold: bool,
    pub warm: Mutex<BTreeSet<Key>>,
    pub log_reads: AtomicBool,
}

#[derive(Clone, Debug)]
pub struct MemStore(pub Arc<Inner>);

impl MemStore {
    pub fn new() -> Self {
        Self::with_clock(Arc::new(Clock::default()), 0, false, false)
    }
    pub fn with_clock(clock: Arc<Clock>, store_no: u8, cold: bool, strict_cold: bool) -> Self {
        Self(Arc::new(Inner {
            map: RwLock::new(Map::new()),
            clock,
            store_no,
            cold,
            strict_cold,
            warm: Mutex::new(BTreeSet::new()),
            log_reads: AtomicBool::new(true),
        }))
    }
    pub fn from_map(map: Map) -> Self {
        let s = Self::new();
        *s.0.map.write().unwrap() = map;
        s
    }
    pub fn snapshot(&self) -> Map {
        self.0.map.read().unwrap().clone()
    }
    pub fn log(&self) -> Vec<Op> {
        self.0.clock.log.lock().unwrap().clone()
    }
    /// everything that was warmed up goes cold again (a later command cannot rely on an earlier one's warm-up)
    pub fn cool_down(&self) {
        self.0.warm.lock().unwrap().clear();
        let c = &self.0.clock;
        let mut log = c.log.lock().unwrap();
        let seq = c.seq.fetch_add(1, Ordering::SeqCst);
        log.push(Op { seq, proc_: 0, kind: OpKind::CoolDown, tpe: 0, id: Id::default(), len: 0, ok: true, data: None, overwrote: false, store: self.0.store_no });
    }
    pub fn log_len(&self) -> usize {
        self.0.clock.log.lock().unwrap().len()
    }
    pub fn clear_log(&self) {
        self.0.clock.log.lock().unwrap().clear();
    }
    pub fn handle(&self, proc_: u32) -> Handle {
        Handle {
            store: self.clone(),
            proc_,
            ctl: Arc::new(Ctl::default()),
        }
    }
    /// apply the successful mutating operations `ops` to `base`
    pub fn replay(base: &Map, ops: &[Op], store_no: u8) -> Map {
        let mut m = base.clone();
        for op in ops {
            if !op.ok || op.store != store_no {
                continue;
            }
            match op.kind {
                OpKind::Write => {
                    _ = m.insert((op.tpe, op.id), op.data.clone().unwrap());
                }
                OpKind::Remove => {
                    _ = m.remove(&(op.tpe, op.id));
                }
                _ => {}
            }
        }
        m
    }
    pub fn put_raw(&self, tpe: FileType, id: Id, data: Bytes) {
        _ = self.0.map.write().unwrap().insert((tnum(tpe), id), data);
    }
    pub fn del_raw(&self, tpe: FileType, id: &Id) -> Option<Bytes> {
        self.0.map.write().unwrap().remove(&(tnum(tpe), *id))
    }
    pub fn get_raw(&self, tpe: FileType, id: &Id) -> Option<Bytes> {
        self.0.map.read().unwrap().get(&(tnum(tpe), *id)).cloned()
    }
    pub fn ids(&self, tpe: FileType) -> Vec<Id> {
        let t = tnum(tpe);
        self.0
            .map
            .read()
            .unwrap()
            .keys()
            .filter(|k| k.0 == t)
            .map(|k| k.1)
            .collect()
    }
}

/// per-handle controls
#[derive(Debug, Default)]
pub struct Ctl {
    /// number of mutating operations issued through this handle
    pub nmut: AtomicUsize,
    /// number of all operations issued through this handle
    pub nops: AtomicUsize,
    /// fail the mutating operation with this index (usize::MAX = none)
    pub fail_at: Mutex<Option<usize>>,
    /// fail all mutating operations from the failing one on (a dead connection) instead of just one
    pub fail_sticky: AtomicBool,
    /// park before the operation (any kind) with this index
    pub gate_at: Mutex<Option<usize>>,
    pub gate: Gate,
    /// seeded delays: state of a small LCG, 0 = off
    pub delay: AtomicU64,
}

#[derive(Debug, Default)]
pub struct Gate {
    st: Mutex<(bool, bool)>, // (parked, released)
    cv: Condvar,
}

impl Gate {
    fn park(&self) {
        let mut g = self.st.lock().unwrap();
        g.0 = true;
        self.cv.notify_all();
        while !g.1 {
            g = self.cv.wait(g).unwrap();
        }
    }
    /// wait until the command is parked (true) or `done` becomes true (false)
    pub fn wait_parked(&self, done: &AtomicBool) -> bool {
        let mut g = self.st.lock().unwrap();
        loop {
            if g.0 {
                return true;
            }
            if done.load(Ordering::SeqCst) {
                return false;
            }
            let (g2, _) = self.cv.wait_timeout(g, Duration::from_millis(2)).unwrap();
            g = g2;
        }
    }
    pub fn release(&self) {
        let mut g = self.st.lock().unwrap();
        g.1 = true;
        self.cv.notify_all();
    }
}

#[derive(Clone, Debug)]
pub struct Handle {
    pub store: MemStore,
    pub proc_: u32,
    pub ctl: Arc<Ctl>,
}

fn fault_err(what: &str) -> Box<RusticError> {
    RusticError::new(ErrorKind::Backend, "injected fault: {what}").attach_context("what", what.to_string())
}

impl Handle {
    pub fn fail_at(self, k: usize) -> Self {
        *self.ctl.fail_at.lock().unwrap() = Some(k);
        self
    }
    pub fn gate_at(self, k: usize) -> Self {
        *self.ctl.gate_at.lock().unwrap() = Some(k);
        self
    }
    pub fn delayed(self, seed: u64) -> Self {
        self.ctl.delay.store(seed | 1, Ordering::SeqCst);
        self
    }
    pub fn arc(self) -> Arc<dyn WriteBackend> {
        Arc::new(self)
    }
    fn pre(&self) {
        let n = self.ctl.nops.fetch_add(1, Ordering::SeqCst);
        let g = *self.ctl.gate_at.lock().unwrap();
        if g == Some(n) {
            self.ctl.gate.park();
        }
        let d = self.ctl.delay.load(Ordering::SeqCst);
        if d != 0 {
            let nd = d.wrapping_mul(6_364_136_223_846_793_005).wrapping_add(1_442_695_040_888_963_407);
            self.ctl.delay.store(nd | 1, Ordering::SeqCst);
            let us = (nd >> 33) % 1500;
            if us > 300 {
                std::thread::sleep(Duration::from_micros(us));
            } else {
                std::thread::yield_now();
            }
        }
    }
    fn should_fail(&self) -> bool {
        let n = self.ctl.nmut.fetch_add(1, Ordering::SeqCst);
        match *self.ctl.fail_at.lock().unwrap() {
            Some(k) if n == k => true,
            Some(k) if n > k && self.ctl.fail_sticky.load(Ordering::SeqCst) => true,
            _ => false,
        }
    }
    fn record(&self, kind: OpKind, tpe: FileType, id: Id, len: u32, ok: bool, data: Option<Bytes>, overwrote: bool) {
        if !kind.mutating() && !self.store.0.log_reads.load(Ordering::Relaxed) {
            return;
        }
        let c = &self.store.0.clock;
        let mut log = c.log.lock().unwrap();
        let seq = c.seq.fetch_add(1, Ordering::SeqCst);
        log.push(Op {
            seq,
            proc_: self.proc_,
            kind,
            tpe: tnum(tpe),
            id,
            len,
            ok,
            data,
            overwrote,
            store: self.store.0.store_no,
        });
    }
    fn cold_check(&self, tpe: FileType, id: &Id) -> RusticResult<()> {
        let i = &self.store.0;
        if i.cold && i.strict_cold && !i.warm.lock().unwrap().contains(&(tnum(tpe), *id)) {
            return Err(fault_err("cold read without warm-up"));
        }
        Ok(())
    }
}

impl ReadBackend for Handle {
    fn location(&self) -> String {
        format!("mem{}", self.store.0.store_no)
    }

    fn list_with_size(&self, tpe: FileType) -> RusticResult<Vec<(Id, u32)>> {
        self.pre();
        let t = tnum(tpe);
        let map = self.store.0.map.read().unwrap();
        let res: Vec<(Id, u32)> = map
            .iter()
            .filter(|(k, _)| k.0 == t)
            .map(|(k, v)| (k.1, v.len() as u32))
            .collect();
        self.record(OpKind::List, tpe, Id::default(), res.len() as u32, true, None, false);
        drop(map);
        Ok(res)
    }

    fn read_full(&self, tpe: FileType, id: &Id) -> RusticResult<Bytes> {
        self.pre();
        let map = self.store.0.map.read().unwrap();
        let cold_ok = self.cold_check(tpe, id);
        let res = map.get(&(tnum(tpe), *id)).cloned();
        let ok = res.is_some() && cold_ok.is_ok();
        self.record(OpKind::ReadFull, tpe, *id, res.as_ref().map_or(0, |b| b.len() as u32), ok, None, false);
        drop(map);
        cold_ok?;
        res.ok_or_else(|| fault_err("file does not exist"))
    }

    fn read_partial(&self, tpe: FileType, id: &Id, _cacheable: bool, offset: u32, length: u32) -> RusticResult<Bytes> {
        self.pre();
        let map = self.store.0.map.read().unwrap();
        let cold_ok = self.cold_check(tpe, id);
        let res = map.get(&(tnum(tpe), *id)).and_then(|b| {
            let (o, l) = (offset as usize, length as usize);
            (o.checked_add(l)? <= b.len()).then(|| b.slice(o..o + l))
        });
        let ok = res.is_some() && cold_ok.is_ok();
        self.record(OpKind::ReadPartial, tpe, *id, length, ok, None, false);
        drop(map);
        cold_ok?;
        res.ok_or_else(|| fault_err("file does not exist or range out of bounds"))
    }

    fn warmup_path(&self, tpe: FileType, id: &Id) -> String {
        format!("{}/{}", tpe.dirname(), id.to_hex().as_str())
    }

    fn needs_warm_up(&self) -> bool {
        self.store.0.cold
    }

    fn warm_up(&self, tpe: FileType, id: &Id) -> RusticResult<()> {
        self.pre();
        _ = self.store.0.warm.lock().unwrap().insert((tnum(tpe), *id));
        self.record(OpKind::WarmUp, tpe, *id, 0, true, None, false);
        Ok(())
    }
}

impl WriteBackend for Handle {
    fn create(&self) -> RusticResult<()> {
        self.pre();
        self.record(OpKind::Create, FileType::Config, Id::default(), 0, true, None, false);
        Ok(())
    }

    fn write_bytes(&self, tpe: FileType, id: &Id, _cacheable: bool, content: BytesList) -> RusticResult<()> {
        self.pre();
        let mut buf = BytesMut::with_capacity(content.size());
        for b in content.slice() {
            buf.extend_from_slice(b);
        }
        let data = buf.freeze();
        // the config file lives under a single key, as on real back ends
        let key = (tnum(tpe), if tpe == FileType::Config { Id::default() } else { *id });
        let fail = self.should_fail();
        let mut map = self.store.0.map.write().unwrap();
        if fail {
            self.record(OpKind::Write, tpe, key.1, data.len() as u32, false, Some(data), false);
            return Err(fault_err("write failed"));
        }
        let old = map.insert(key, data.clone());
        // a freshly written file is not warm
        _ = self.store.0.warm.lock().unwrap().remove(&key);
        let overwrote = old.is_some_and(|o| o != data);
        self.record(OpKind::Write, tpe, key.1, data.len() as u32, true, Some(data), overwrote);
        Ok(())
    }

    fn remove(&self, tpe: FileType, id: &Id, _cacheable: bool) -> RusticResult<()> {
        self.pre();
        let key = (tnum(tpe), if tpe == FileType::Config { Id::default() } else { *id });
        let fail = self.should_fail();
        let mut map = self.store.0.map.write().unwrap();
        if fail {
            self.record(OpKind::Remove, tpe, key.1, 0, false, None, false);
            return Err(fault_err("remove failed"));
        }
        let old = map.remove(&key);
        self.record(OpKind::Remove, tpe, key.1, 0, old.is_some(), None, false);
        if old.is_none() {
            return Err(fault_err("remove of a file that does not exist"));
        }
        Ok(())
    }
}
