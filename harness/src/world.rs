//! A repository "world": one MemStore, its decoded shadow, the event emitter that turns
//! storage operations into the abstract events RepoTrace.tla consumes, logical time, and
//! probes that run the real read path (check, ls + dump) on any state of the store.
use std::collections::{BTreeMap, BTreeSet};

use bytes::Bytes;
use rustic_core::{
    FileType, Id,
    jiff::Timestamp,
    repofile::{MasterKey, SnapshotFile},
};
use serde_json::{Value, json};

use crate::{
    abs::{self, BlobRef, Namer, PackAbs, RepoKey, parse_index, parse_pack, parse_snapshot, parse_tree, sha256},
    scn::{self, Outcome},
    store::{Map, MemStore, Op, OpKind, tname},
    util::Out,
};

pub struct World {
    pub store: MemStore,
    pub key: MasterKey,
    pub rk: RepoKey,
    pub nm: Namer,
    pub sc: String,
    /// every pack ever seen in this scenario, decoded once
    pub pack_cache: BTreeMap<Id, PackAbs>,
    /// shadow of the store contents, advanced op by op while emitting
    pub shadow: Map,
    pub log_pos: usize,
    /// accumulated logical time shift (seconds) and the real start of the scenario
    pub shift: i64,
    pub t0: Timestamp,
    /// snapshots created by the scenario: name -> (file, expected content path -> (type, sha256 hex))
    pub expected: BTreeMap<String, BTreeMap<String, (String, String)>>,
    pub snaps: Vec<SnapshotFile>,
    pub events: usize,
}

pub fn content_digest(entries: &[(String, String, Vec<u8>)]) -> BTreeMap<String, (String, String)> {
    entries
        .iter()
        .map(|(p, t, d)| (p.clone(), (t.clone(), sha256(d).to_hex().as_str().to_string())))
        .collect()
}

impl World {
    pub fn new(sc: &str, key: MasterKey) -> Self {
        let rk = scn::repo_key(&key);
        Self {
            store: MemStore::new(),
            key,
            rk,
            nm: Namer::default(),
            sc: sc.to_string(),
            pack_cache: BTreeMap::new(),
            shadow: Map::new(),
            log_pos: 0,
            shift: 0,
            t0: Timestamp::now(),
            expected: BTreeMap::new(),
            snaps: Vec::new(),
            events: 0,
        }
    }

    /// deep copy with a fresh store (same contents) and an empty log
    pub fn fork(&self, sc: &str) -> Self {
        Self {
            store: MemStore::from_map(self.store.snapshot()),
            key: self.key.clone(),
            rk: self.rk.clone(),
            nm: self.nm.clone(),
            sc: sc.to_string(),
            pack_cache: self.pack_cache.clone(),
            shadow: self.shadow.clone(),
            log_pos: 0,
            shift: self.shift,
            t0: self.t0,
            expected: self.expected.clone(),
            snaps: self.snaps.clone(),
            events: 0,
        }
    }

    /// re-emit the current contents as events (used after a `reset` of a forked scenario)
    pub fn emit_state(&mut self, out: &mut Out) {
        let shadow = self.shadow.clone();
        for t in [4u8, 1, 3] {
            for ((tp, id), data) in shadow.iter().filter(|(k, _)| k.0 == t) {
                let op = Op { seq: 0, proc_: 0, kind: OpKind::Write, tpe: *tp, id: *id, len: data.len() as u32, ok: true,
                              data: Some(data.clone()), overwrote: false, store: 0 };
                if let Some(ev) = self.op_event(&op) {
                    self.emit(out, ev);
                }
            }
        }
    }

    /// logical now in seconds
    pub fn now(&self) -> i64 {
        (Timestamp::now().as_second() - self.t0.as_second()) + self.shift
    }

    fn logical(&self, ts: &str) -> i64 {
        ts.parse::<Timestamp>().map_or(-1, |t| t.as_second() - self.t0.as_second() + self.shift)
    }

    fn pack(&mut self, id: Id, bytes: &Bytes) -> &PackAbs {
        let rk = &self.rk;
        self.pack_cache.entry(id).or_insert_with(|| parse_pack(rk, id, bytes))
    }

    fn blobs_json(&mut self, bs: &[abs::HdrBlob]) -> Value {
        Value::Array(
            bs.iter()
                .map(|b| self.nm.blob(&BlobRef { tree: b.tree, id: b.id }))
                .collect(),
        )
    }

    /// typed closure of `root` over the tree blobs held by packs present in `map`
    pub fn needs_in(&mut self, map: &Map, root: &Id) -> BTreeSet<BlobRef> {
        // tree blob -> plaintext from any present pack
        let mut trees: BTreeMap<Id, Bytes> = BTreeMap::new();
        for ((t, id), bytes) in map {
            if *t != 4 {
                continue;
            }
            let p = self.pack(*id, bytes).clone();
            if let Some(h) = &p.hdr {
                for (i, b) in h.iter().enumerate() {
                    if b.tree {
                        if let Some(pl) = &p.plain[i] {
                            _ = trees.insert(b.id, pl.clone());
                        }
                    }
                }
            }
        }
        let mut out = BTreeSet::new();
        let mut stack = vec![*root];
        while let Some(t) = stack.pop() {
            if !out.insert(BlobRef { tree: true, id: t }) {
                continue;
            }
            let Some(plain) = trees.get(&t) else { continue };
            let Some(nodes) = parse_tree(plain) else { continue };
            for n in nodes {
                for c in n.content {
                    _ = out.insert(BlobRef { tree: false, id: c });
                }
                if let Some(st) = n.subtree {
                    stack.push(st);
                }
            }
        }
        out
    }

    /// convert one storage operation into its abstract event (mutating operations only)
    pub fn op_event(&mut self, op: &Op) -> Option<Value> {
        if !op.kind.mutating() {
            return None;
        }
        let tp = tname(op.tpe);
        let mut ev = json!({"sc": self.sc, "proc": op.proc_, "seq": op.seq, "store": op.store});
        if !op.ok {
            ev["e"] = json!("fail");
            ev["op"] = json!(op.kind.name());
            ev["tpe"] = json!(tp);
            return Some(ev);
        }
        match (op.kind, op.tpe) {
            (OpKind::Write, 4) => {
                let data = op.data.clone().unwrap();
                let p = self.pack(op.id, &data).clone();
                let sd = p.name_ok && p.layout_ok && p.hdr.is_some() && p.plain.iter().all(Option::is_some);
                ev["e"] = json!("wpack");
                ev["p"] = json!(self.nm.name('p', &op.id));
                ev["blobs"] = self.blobs_json(p.hdr.as_deref().unwrap_or(&[]));
                ev["sd"] = json!(sd);
                ev["size"] = json!(p.size);
                ev["ow"] = json!(op.overwrote);
                _ = self.shadow.insert((op.tpe, op.id), data);
            }
            (OpKind::Write, 1) => {
                let data = op.data.clone().unwrap();
                ev["e"] = json!("widx");
                ev["i"] = json!(self.nm.name('i', &op.id));
                ev["ow"] = json!(op.overwrote);
                match parse_index(&self.rk, op.id, &data) {
                    None => {
                        ev["ents"] = json!([]);
                        ev["decoded"] = json!(false);
                    }
                    Some(ix) => {
                        let mut ents = Vec::new();
                        for ip in &ix.packs {
                            // agreement of the entry with the pack's own trailer and real size
                            let agree = match self.shadow.get(&(4, ip.id)).cloned() {
                                None => "absent",
                                Some(bytes) => {
                                    let p = self.pack(ip.id, &bytes).clone();
                                    let same = p.hdr.as_ref().is_some_and(|h| h == &ip.blobs || ip.blobs.is_empty());
                                    let size_ok = ip.size.is_none_or(|s| s == p.size);
                                    if same && size_ok { "yes" } else { "no" }
                                }
                            };
                            let t = ip.time.as_deref().map_or(-1, |t| self.logical(t));
                            ents.push(json!({"p": self.nm.name('p', &ip.id), "blobs": self.blobs_json(&ip.blobs),
                                "mark": ip.marked, "t": t, "agree": agree}));
                        }
                        ev["ents"] = json!(ents);
                        ev["decoded"] = json!(true);
                    }
                }
                _ = self.shadow.insert((op.tpe, op.id), data);
            }
            (OpKind::Write, 3) => {
                let data = op.data.clone().unwrap();
                ev["e"] = json!("wsnap");
                ev["s"] = json!(self.nm.name('s', &op.id));
                ev["ow"] = json!(op.overwrote);
                _ = self.shadow.insert((op.tpe, op.id), data.clone());
                match parse_snapshot(&self.rk, op.id, &data) {
                    None => {
                        ev["needs"] = json!([]);
                        ev["decoded"] = json!(false);
                    }
                    Some(s) => {
                        let map = self.shadow.clone();
                        let needs = self.needs_in(&map, &s.tree);
                        ev["needs"] = self.nm.blobs(needs.iter());
                        ev["decoded"] = json!(true);
                    }
                }
            }
            (OpKind::Write, _) => {
                ev["e"] = json!("wother");
                ev["tpe"] = json!(tp);
                ev["ow"] = json!(op.overwrote);
                _ = self.shadow.insert((op.tpe, op.id), op.data.clone().unwrap());
            }
            (OpKind::Remove, _) => {
                ev["e"] = json!("rm");
                ev["tpe"] = json!(tp);
                let kind = match op.tpe {
                    4 => 'p',
                    1 => 'i',
                    3 => 's',
                    _ => 'k',
                };
                ev["id"] = json!(self.nm.name(kind, &op.id));
                _ = self.shadow.remove(&(op.tpe, op.id));
            }
            _ => return None,
        }
        Some(ev)
    }

    /// the not yet emitted part of the store log
    pub fn pending_ops(&mut self) -> Vec<Op> {
        let log = self.store.log();
        let ops = log[self.log_pos..].to_vec();
        self.log_pos = log.len();
        ops
    }

    pub fn emit(&mut self, out: &mut Out, mut v: Value) {
        if v.get("sc").is_none() {
            v["sc"] = json!(self.sc);
        }
        out.rec(&v);
        self.events += 1;
    }

    /// emit the events of all pending operations; with `probe_each`, run the real read path on
    /// the state after every successful mutating operation (= every crash point)
    pub fn flush_ops(&mut self, out: &mut Out, probe_each: bool) {
        for op in self.pending_ops() {
            if let Some(ev) = self.op_event(&op) {
                let changed = op.ok;
                self.emit(out, ev);
                if probe_each && changed {
                    let map = self.shadow.clone();
                    let pv = self.probe(&map);
                    self.emit(out, pv);
                }
            }
        }
    }

    /// "time passes": shift every stored index time back by dt seconds (own codec)
    pub fn tick(&mut self, out: &mut Out, dt: i64) {
        let ids = self.store.ids(FileType::Index);
        let mut rng = crate::util::Rng::new(dt as u64 ^ self.events as u64);
        for id in ids {
            let Some(bytes) = self.store.get_raw(FileType::Index, &id) else { continue };
            let Some(mut ix) = parse_index(&self.rk, id, &bytes) else { continue };
            for p in &mut ix.packs {
                if let Some(t) = &p.time {
                    if let Ok(ts) = t.parse::<Timestamp>() {
                        let nt = Timestamp::new(ts.as_second() - dt, ts.subsec_nanosecond()).unwrap();
                        p.time = Some(nt.to_string());
                    }
                }
            }
            let json = abs::Enc::index_json(&ix.packs);
            let (nid, nbytes) = abs::Enc { key: &self.rk, rng: &mut rng }.file(&json);
            _ = self.store.del_raw(FileType::Index, &id);
            self.store.put_raw(FileType::Index, nid, nbytes.clone());
            // keep the shadow and the names in step: the shifted file *is* the old file, later
            let name = self.nm.name('i', &id);
            self.nm.force('i', &nid, &name);
            _ = self.shadow.remove(&(1, id));
            _ = self.shadow.insert((1, nid), nbytes);
        }
        self.shift += dt;
        let now = self.now();
        self.emit(out, json!({"e":"tick","dt":dt,"now":now}));
    }

    /// run the real read path on `map`: check(read_data) and ls+dump of every snapshot this
    /// scenario created and that is visible in `map`
    pub fn probe(&mut self, map: &Map) -> Value {
        let st = MemStore::from_map(map.clone());
        st.0.log_reads.store(false, std::sync::atomic::Ordering::Relaxed);
        let h = st.handle(99);
        let key = self.key.clone();
        let mut rest = serde_json::Map::new();
        let visible: Vec<Id> = map.keys().filter(|k| k.0 == 3).map(|k| k.1).collect();
        let mut check_msgs = Vec::new();
        let check = match scn::guard(|| scn::open(&h, &key).and_then(|r| scn::check_errors(&r))) {
            Outcome::Ok(v) if v.is_empty() => "clean".to_string(),
            Outcome::Ok(v) => {
                check_msgs = v;
                "error".to_string()
            }
            o => format!("{}:{}", o.class(), o.msg()),
        };
        let repo = scn::guard(|| scn::open(&h, &key).and_then(rustic_core::Repository::to_indexed));
        for id in visible {
            let name = self.nm.name('s', &id);
            let res = match &repo {
                Outcome::Ok(repo) => {
                    let sn = scn::guard(|| repo.get_snapshots(&[id.to_hex().as_str()]));
                    match sn {
                        Outcome::Ok(sn) if sn.len() == 1 => match scn::guard(|| scn::read_back(repo, &sn[0])) {
                            Outcome::Ok(entries) => match self.expected.get(&name) {
                                Some(exp) if *exp == content_digest(&entries) => "ok".to_string(),
                                Some(_) => "bad".to_string(),
                                None => "ok?".to_string(),
                            },
                            o => o.class().to_string(),
                        },
                        Outcome::Ok(_) => "err".to_string(),
                        o => o.class().to_string(),
                    }
                }
                o => format!("open-{}", o.class()),
            };
            _ = rest.insert(name, json!(res));
        }
        check_msgs.truncate(3);
        json!({"e":"probe","check":check,"rest":rest,"check_msgs":check_msgs})
    }
}

