//! C13 driver: the same backup / prune / copy repeated under seeded back-end delay patterns and pack-size
//! limits (thread-pool size is varied by the caller through RAYON_NUM_THREADS); a watchdog turns a hang into
//! outcome "timeout".  Results go to SchedTrace.tla.
use std::{
    collections::BTreeMap,
    sync::mpsc,
    time::Duration,
};

use rustic_core::{BackupOptions, repofile::MasterKey};
use serde_json::{Value, json};

use crate::{
    abs::{BlobRef, Namer, RepoAbs},
    drivers::repo::prune_opts,
    scn::{self, Entry, MemSource, Outcome},
    store::MemStore,
    util::{Args, Out, Rng},
};

fn source(rng: &mut Rng, nfiles: usize, collide: Option<&[u8]>) -> MemSource {
    let mut e = Vec::new();
    let dirs = ["", "a/", "a/b/", "c/"];
    for i in 0..nfiles {
        let d = dirs[i % dirs.len()];
        let len = match rng.below(5) {
            0 => 0,
            1 => rng.range(1, 63) as usize,
            2 => 64,
            _ => rng.range(65, 900) as usize,
        };
        let data = if rng.chance(1, 5) { vec![7u8; len] } else { rng.bytes(len) };
        e.push(Entry::file(&format!("{d}f{i}"), data));
    }
    // duplicates of whole files: dedup inside one run
    let n = e.len();
    for k in 0..2.min(n) {
        if let scn::Kind::File(d) = &e[k].kind {
            e.push(Entry::file(&format!("dup{k}"), d.clone()));
        }
    }
    for d in ["a", "a/b", "c"] {
        e.push(Entry::dir(d));
    }
    if let Some(c) = collide {
        e.push(Entry::file("zz_collide", c.to_vec()));
    }
    MemSource::new(e)
}

/// run `f` on a thread with a watchdog
fn watchdog<T: Send + 'static>(secs: u64, f: impl FnOnce() -> Outcome<T> + Send + 'static) -> Result<Outcome<T>, ()> {
    let (tx, rx) = mpsc::channel();
    _ = std::thread::spawn(move || {
        _ = tx.send(f());
    });
    rx.recv_timeout(Duration::from_secs(secs)).map_err(|_| ())
}

struct RunResult {
    outcome: String,
    tree: String,
    needs: Vec<Value>,
    orphans: usize,
    readable: bool,
    clean: bool,
    packs: usize,
}

fn summarize(store: &MemStore, key: &MasterKey, nm: &mut Namer, snap_tree: Option<rustic_core::Id>, outcome: &str) -> RunResult {
    let rk = scn::repo_key(key);
    let a = RepoAbs::from_map(&store.snapshot(), &rk);
    let listed: std::collections::BTreeSet<_> = a.indexes.values().flatten().flat_map(|ix| ix.packs.iter().map(|p| p.id)).collect();
    let orphans = a.packs.keys().filter(|p| !listed.contains(p)).count();
    let (tree, needs, readable) = match snap_tree {
        Some(t) => {
            let n = a.needs(&t);
            let ix = a.indexed(false);
            let readable = n.iter().all(|b| ix.contains(b));
            (nm.name('b', &t), n.iter().map(|b: &BlobRef| nm.blob(b)).collect(), readable)
        }
        None => (String::new(), vec![], false),
    };
    let h = store.handle(99);
    // the real check runs under the watchdog as well: a check that does not return is a "timeout" outcome of this run
    let key2 = key.clone();
    let checked = watchdog(60, move || scn::guard(|| scn::open(&h, &key2).and_then(|r| scn::check_clean(&r))));
    let (clean, outcome) = match checked {
        Ok(Outcome::Ok(c)) => (c, outcome),
        Ok(_) => (false, outcome),
        Err(()) => (false, "timeout"),
    };
    RunResult { outcome: outcome.into(), tree, needs, orphans, readable, clean, packs: a.packs.len() }
}

fn rr_json(r: &RunResult, label: &Value) -> Value {
    json!({"label":label,"outcome":r.outcome,"tree":r.tree,"needs":r.needs,"orphans":r.orphans,"readable":r.readable,"clean":r.clean,"packs":r.packs})
}

pub fn run(a: &Args) {
    scn::silence_panics();
    let mut out = Out::create(&a.str("out", "sched.ndjson"));
    let seed = a.num("seed", 1);
    let mut rng = Rng::new(seed ^ 0xC13);
    let threads = std::env::var("RAYON_NUM_THREADS").unwrap_or_default();
    let nscen = a.num("scenarios", 3);
    let nsched = a.num("schedules", 6);
    let mut timeouts = 0;
    for s in 0..nscen {
        // the serialisation of directory "c" of this very source, to include a colliding file
        let mut srng = rng.fork();
        let probe_src = source(&mut srng.clone(), 9, None);
        let collide: Option<Vec<u8>> = {
            let st = MemStore::new();
            let key = MasterKey::new();
            let h = st.handle(0);
            _ = scn::init(&h, &key, &scn::small_config(64, 100_000));
            let repo = scn::open(&h, &key).unwrap().to_indexed_ids().unwrap();
            scn::backup_mem(&repo, &probe_src, &BackupOptions::default(), scn::snap_at(1000)).ok().and_then(|sn| {
                let abs = RepoAbs::from_map(&st.snapshot(), &scn::repo_key(&key));
                abs.needs(&sn.tree).iter().filter(|b| b.tree).find_map(|b| {
                    let pl = abs.blob_plain(b)?;
                    let nodes = crate::abs::parse_tree(&pl)?;
                    (nodes.iter().all(|n| n.tpe == "file") && !nodes.is_empty() && pl.len() > 64).then(|| pl.to_vec())
                })
            })
        };
        let src = source(&mut srng, 9, if s % 2 == 0 { collide.as_deref() } else { None });
        let mut nm = Namer::default();
        let mut runs = Vec::new();
        let mut prunes = Vec::new();
        for k in 0..nsched {
            let pack = [64u64, 150, 400, 5000, 1_000_000][(k as usize) % 5];
            let delay = if k % 3 == 0 { 0 } else { rng.u64() | 1 };
            let label = json!({"pack":pack,"delay":delay != 0,"threads":threads});
            let store = MemStore::new();
            let key = MasterKey::new();
            let h0 = store.handle(0);
            _ = scn::init(&h0, &key, &scn::small_config(64, pack)).unwrap();
            let h = if delay != 0 { store.handle(1).delayed(delay) } else { store.handle(1) };
            let (src2, key2) = (src.clone(), key.clone());
            let h2 = h.clone();
            let res = watchdog(60, move || {
                scn::guard(|| {
                    let repo = scn::open(&h2, &key2)?.to_indexed_ids()?;
                    scn::backup_mem(&repo, &src2, &BackupOptions::default(), scn::snap_at(1000))
                })
            });
            let r = match res {
                Err(()) => {
                    timeouts += 1;
                    RunResult { outcome: "timeout".into(), tree: String::new(), needs: vec![], orphans: 0, readable: false, clean: false, packs: 0 }
                }
                Ok(Outcome::Ok(sn)) => summarize(&store, &key, &mut nm, Some(*sn.tree), "ok"),
                Ok(o) => summarize(&store, &key, &mut nm, None, o.class()),
            };
            let ok = r.outcome == "ok";
            let hung = r.outcome == "timeout";
            runs.push(rr_json(&r, &label));
            if hung {
                // worker threads of the hung run keep the global thread pool busy: nothing more can be run in this process
                out.rec(&json!({"kind":"sched","id":format!("sc{s}-t{threads}"),"what":"backup","collision":false,"runs":runs}));
                let ev = out.finish();
                println!("{}", json!({"records": ev, "timeouts": timeouts}));
                std::process::exit(0);
            }
            // a second, smaller backup, forget the first, prune with repacking under the same perturbation
            if ok && k % 2 == 0 {
                let mut e2 = src.entries.clone();
                e2.truncate(e2.len() / 2);
                e2.retain(|e| !matches!(e.kind, scn::Kind::Dir));
                for d in ["a", "a/b", "c"] {
                    e2.push(Entry::dir(d));
                }
                let src3 = MemSource::new(e2);
                let (key3, h3) = (key.clone(), h.clone());
                // the repacking variants rotate: plain / everything repacked / fast repack (raw copies of whole blobs)
                let popts = match (k / 2) % 3 {
                    0 => json!({"keep_delete":0,"max_unused":"0%","max_repack":"unlimited","instant":true,"repack_all":true,"fast":true}),
                    1 => json!({"keep_delete":0,"max_unused":"0%","max_repack":"unlimited","instant":true}),
                    _ => json!({"keep_delete":0,"max_unused":"0%","max_repack":"unlimited","instant":true,"repack_all":true}),
                };
                let res = watchdog(60, move || {
                    scn::guard(|| {
                        let repo = scn::open(&h3, &key3)?.to_indexed_ids()?;
                        let s2 = scn::backup_mem(&repo, &src3, &BackupOptions::default(), scn::snap_at(2000))?;
                        let r = scn::open(&h3, &key3)?;
                        let first: Vec<_> = r.get_all_snapshots()?.into_iter().filter(|s| s.id != s2.id).map(|s| s.id).collect();
                        r.delete_snapshots(&first)?;
                        let po = prune_opts(&popts);
                        let plan = r.prune_plan(&po)?;
                        r.prune(&po, plan)?;
                        Ok(s2)
                    })
                });
                let pr = match res {
                    Err(()) => {
                        timeouts += 1;
                        RunResult { outcome: "timeout".into(), tree: String::new(), needs: vec![], orphans: 0, readable: false, clean: false, packs: 0 }
                    }
                    Ok(Outcome::Ok(sn)) => summarize(&store, &key, &mut nm, Some(*sn.tree), "ok"),
                    Ok(o) => summarize(&store, &key, &mut nm, None, o.class()),
                };
                let hung = pr.outcome == "timeout";
                prunes.push(rr_json(&pr, &label));
                if hung {
                    out.rec(&json!({"kind":"sched","id":format!("sc{s}-t{threads}"),"what":"backup","collision":false,"runs":runs}));
                    out.rec(&json!({"kind":"sched","id":format!("sc{s}-t{threads}-prune"),"what":"backup+forget+prune","collision":false,"runs":prunes}));
                    let ev = out.finish();
                    println!("{}", json!({"records": ev, "timeouts": timeouts}));
                    std::process::exit(0);
                }
            }
        }
        out.rec(&json!({"kind":"sched","id":format!("sc{s}-t{threads}"),"what":"backup","collision":s % 2 == 0 && collide.is_some(),"runs":runs}));
        out.rec(&json!({"kind":"sched","id":format!("sc{s}-t{threads}-prune"),"what":"backup+forget+prune","collision":false,"runs":prunes}));
    }
    // a wide directory: more than a thousand differing sub-directories on one level (tree walks of check / prune / copy
    // queue one request per sub-tree), once per process
    if a.num("wide", 1) > 0 {
        let mut e = Vec::new();
        for i in 0..1300u32 {
            e.push(Entry::dir(&format!("w/d{i:04}")));
            e.push(Entry::file(&format!("w/d{i:04}/f"), i.to_le_bytes().to_vec()));
        }
        e.push(Entry::dir("w"));
        let src = MemSource::new(e);
        let store = MemStore::new();
        let key = MasterKey::new();
        let h0 = store.handle(0);
        _ = scn::init(&h0, &key, &scn::small_config(64, 100_000)).unwrap();
        let mut nm = Namer::default();
        let mut runs = Vec::new();
        let h = store.handle(1);
        for (what, k) in [("backup", 0u8), ("check", 1), ("prune", 2), ("copy", 3)] {
            let (h2, key2, src2) = (h.clone(), key.clone(), src.clone());
            let res = watchdog(90, move || {
                scn::guard(|| {
                    match k {
                        0 => {
                            let repo = scn::open(&h2, &key2)?.to_indexed_ids()?;
                            scn::backup_mem(&repo, &src2, &BackupOptions::default(), scn::snap_at(1000)).map(|s| Some(*s.tree))
                        }
                        1 => scn::open(&h2, &key2)?.check(rustic_core::CheckOptions::default()).map(|_| None),
                        2 => {
                            let r = scn::open(&h2, &key2)?;
                            let po = prune_opts(&json!({"keep_delete":0,"max_unused":"0%","max_repack":"unlimited","instant":true}));
                            let plan = r.prune_plan(&po)?;
                            r.prune(&po, plan).map(|()| None)
                        }
                        _ => {
                            let dst_store = MemStore::new();
                            let dh = dst_store.handle(0);
                            let dkey = MasterKey::new();
                            _ = scn::init(&dh, &dkey, &scn::small_config(64, 100_000))?;
                            let srcr = scn::open(&h2, &key2)?.to_indexed()?;
                            let snaps = srcr.get_all_snapshots()?;
                            let dst = scn::open(&dh, &dkey)?.to_indexed_ids()?;
                            srcr.copy(&dst, snaps.iter()).map(|()| None)
                        }
                    }
                })
            });
            let label = json!({"pack":100_000,"delay":false,"threads":threads,"wide":what});
            let r = match res {
                Err(()) => {
                    timeouts += 1;
                    RunResult { outcome: "timeout".into(), tree: String::new(), needs: vec![], orphans: 0, readable: false, clean: false, packs: 0 }
                }
                Ok(Outcome::Ok(t)) => {
                    let mut rr = summarize(&store, &key, &mut nm, t, "ok");
                    // (only termination and the outcome are judged for the wide scenario)
                    rr.tree = String::new();
                    rr.needs = vec![];
                    rr
                }
                Ok(o) => summarize(&store, &key, &mut nm, None, o.class()),
            };
            let hung = r.outcome == "timeout";
            runs.push(rr_json(&r, &label));
            if hung {
                break;
            }
        }
        out.rec(&json!({"kind":"sched","id":format!("wide-t{threads}"),"what":"wide directory: backup, check, prune, copy","collision":false,"wide":true,"runs":runs}));
    }
    let ev = out.finish();
    println!("{}", json!({"records": ev, "timeouts": timeouts}));
    let _unused: BTreeMap<u8, u8> = BTreeMap::new();
    // worker threads of a hung run may still be alive
    std::process::exit(0);
}
