//! C12 driver: copy / merge / rewrite / repair-snapshots on real repositories; inputs and outputs are recorded as
//! flattened trees (path -> kind, metadata signature, digest of the really dumped content) for TreesTrace.tla.
use std::collections::{BTreeMap, BTreeSet};

use rustic_core::{
    BackupOptions, Excludes, FileType, Id, IndexedFullStatus, LsOptions, ParentOptions, RepairIndexOptions,
    RepairSnapshotsOptions, Repository, RewriteOptions, RewriteTreesOptions,
    repofile::{MasterKey, Node, NodeType, SnapshotFile},
};
use serde_json::{Value, json};

use crate::{
    abs::{RepoKey, parse_index, parse_pack, sha256},
    drivers::parent::source,
    scn::{self, Outcome},
    store::{Handle, MemStore},
    util::{Args, Out},
};

fn short(id: &Id) -> String {
    id.to_hex().as_str()[..10].to_string()
}

/// path -> node facts incl. the digest of the content really dumped ("ERR" if that fails)
pub fn flat(repo: &Repository<IndexedFullStatus>, snap: &SnapshotFile) -> Outcome<BTreeMap<String, Value>> {
    scn::guard(|| {
        let node = repo.node_from_snapshot_and_path(snap, "")?;
        let mut m = BTreeMap::new();
        for item in repo.ls(&node, &LsOptions::default())? {
            let (path, n) = item?;
            let p: String = path.to_string_lossy().to_string();
            let up = path.parent().map_or(String::new(), |x| x.to_string_lossy().to_string());
            let (kind, c) = match &n.node_type {
                NodeType::File => {
                    let mut data = Vec::new();
                    let c = match scn::guard(|| repo.dump(&n, &mut data)) {
                        Outcome::Ok(()) => short(&sha256(&data)),
                        _ => "ERR".to_string(),
                    };
                    ("file", c)
                }
                NodeType::Dir => ("dir", String::new()),
                NodeType::Symlink { .. } => ("link", n.node_type.to_link().to_string_lossy().to_string()),
                _ => ("other", String::new()),
            };
            let ts = |t: Option<rustic_core::jiff::Timestamp>| t.map_or(-1, |t| t.as_second());
            let sig = format!("{kind}|{}|{}|{}|{}|{:?}|{c}", if kind == "file" { n.meta.size } else { 0 }, ts(n.meta.mtime), ts(n.meta.ctime), n.meta.inode, n.meta.mode);
            if m.contains_key(&p) {
                // the same name twice in one directory: an invalid tree
                _ = m.insert(format!("?dup:{p}"), json!({"k":"dup","mt":0,"c":"ERR","sig":"dup","up":up,"size":0,"base":"","content":[],"subtree":""}));
                continue;
            }
            _ = m.insert(
                p.clone(),
                json!({"k":kind,"mt":ts(n.meta.mtime),"c":c,"sig":sig,"up":up,"size":n.meta.size,
                       "base":p.strip_suffix(".repaired").unwrap_or(""),
                       "content":n.content.as_ref().map_or(vec![], |c| c.iter().map(|i| short(i)).collect::<Vec<_>>()),
                       "subtree":n.subtree.map_or(String::new(), |t| short(&t))}),
            );
        }
        Ok(m)
    })
}

fn indexed(store: &MemStore, rk: &RepoKey) -> BTreeSet<String> {
    let mut s = BTreeSet::new();
    for (k, v) in store.snapshot().iter().filter(|(k, _)| k.0 == 1) {
        if let Some(ix) = parse_index(rk, k.1, v) {
            for p in &ix.packs {
                for b in &p.blobs {
                    _ = s.insert(format!("{}{}", if b.tree { "t" } else { "d" }, short(&b.id)));
                }
            }
        }
    }
    s
}

struct R {
    store: MemStore,
    h: Handle,
    key: MasterKey,
}

fn new_repo(cfg: &Value) -> Outcome<R> {
    let store = MemStore::new();
    let h = store.handle(0);
    let key = MasterKey::new();
    let mut c = scn::small_config(cfg.get("chunk").and_then(Value::as_u64).unwrap_or(64), cfg.get("pack").and_then(Value::as_u64).unwrap_or(400));
    if let Some(v) = cfg.get("compression").and_then(Value::as_i64) {
        c = c.set_compression(v as i32);
    }
    match scn::guard(|| scn::init(&h, &key, &c).map(|_| ())) {
        Outcome::Ok(()) => Outcome::Ok(R { store, h, key }),
        Outcome::Err(e) => Outcome::Err(e),
        Outcome::Panic(e) => Outcome::Panic(e),
    }
}

fn backup(r: &R, entries: &Value, t: i64) -> Outcome<SnapshotFile> {
    scn::guard(|| {
        let repo = scn::open(&r.h, &r.key)?.to_indexed_ids()?;
        scn::backup_mem(&repo, &source(entries), &BackupOptions::default().parent_opts(ParentOptions::default().force(true)), scn::snap_at(t))
    })
}

fn full(r: &R) -> Outcome<Repository<IndexedFullStatus>> {
    scn::guard(|| scn::open(&r.h, &r.key)?.to_indexed())
}

fn check(r: &R) -> String {
    match scn::guard(|| scn::check_errors(&scn::open(&r.h, &r.key)?)) {
        Outcome::Ok(e) if e.is_empty() => "clean".into(),
        Outcome::Ok(e) => format!("errors: {}", e[0]),
        x => format!("{}: {}", x.class(), x.msg()),
    }
}

macro_rules! tri {
    ($rec:expr, $out:expr, $what:expr, $e:expr) => {
        match $e {
            Outcome::Ok(v) => v,
            x => {
                $rec["e"] = json!("toolerr");
                $rec["what"] = json!($what);
                $rec["msg"] = json!(x.msg());
                $out.rec(&$rec);
                return;
            }
        }
    };
}

fn run_one(prog: &Value, out: &mut Out) {
    let op = prog["op"].as_str().unwrap();
    let mut rec = json!({"e":op,"id":prog["id"],"opts":prog.get("opts").cloned().unwrap_or(json!({}))});
    let r = tri!(rec, out, "init", new_repo(&prog["cfg"]));
    let rk = RepoKey::from_master(&r.key);
    let mut snaps = Vec::new();
    for (i, s) in prog["sources"].as_array().unwrap().iter().enumerate() {
        snaps.push(tri!(rec, out, "backup", backup(&r, s, 10_000 + i as i64 * 100)));
    }
    // tree / data id collision: a file whose content is exactly the serialized tree of a directory of the first snapshot
    let mut collide_entries: Option<Value> = None;
    if let Some(dir) = prog.get("collide").and_then(Value::as_str) {
        let repo = tri!(rec, out, "open", full(&r));
        let dnode = tri!(rec, out, "dir node", scn::guard(|| repo.node_from_snapshot_and_path(&snaps[0], dir)));
        let tid = dnode.subtree.map_or(String::new(), |t| t.to_hex().to_string());
        let bytes = tri!(rec, out, "cat tree", scn::guard(|| repo.cat_blob(rustic_core::repofile::BlobType::Tree, &tid)));
        drop(repo);
        let mut e = prog["sources"][0].as_array().unwrap().clone();
        e.push(json!({"path":"zz_collide","kind":"file","raw":hex::encode(&bytes),"mtime":1_600_000_999,"ctime":1_600_000_999,"inode":999}));
        let e = json!(e);
        snaps.push(tri!(rec, out, "backup collide", backup(&r, &e, 20_000)));
        rec["collide_id"] = json!(tid);
        collide_entries = Some(e);
    }
    let repo = tri!(rec, out, "open", full(&r));
    let mut inputs = Vec::new();
    for s in &snaps {
        inputs.push(tri!(rec, out, "ls input", flat(&repo, s)));
    }
    rec["inputs"] = json!(inputs);
    match op {
        "merge" => {
            let cmp = |a: &Node, b: &Node| a.meta.mtime.cmp(&b.meta.mtime);
            let res = scn::guard(|| repo.merge_snapshots(&snaps, &cmp, scn::snap_at(99_000)));
            drop(repo);
            match res {
                Outcome::Ok(m) => {
                    let repo = tri!(rec, out, "open", full(&r));
                    match flat(&repo, &m) {
                        Outcome::Ok(f) => {
                            rec["output"] = json!(f);
                            rec["result"] = json!("ok");
                        }
                        x => {
                            rec["output"] = json!({});
                            rec["result"] = json!(format!("unreadable: {}", x.msg()));
                        }
                    }
                }
                x => {
                    rec["output"] = json!({});
                    rec["result"] = json!(format!("{}: {}", x.class(), x.msg()));
                }
            }
            rec["check"] = json!(check(&r));
        }
        "rewrite" => {
            let mut ex = Excludes::default();
            ex.globs = prog["opts"]["globs"].as_array().unwrap().iter().map(|g| g.as_str().unwrap().to_string()).collect();
            let topts = RewriteTreesOptions::default().excludes(ex);
            let ropts = RewriteOptions::default().forget(prog["opts"]["forget"].as_bool().unwrap_or(false));
            let ids_before: BTreeSet<Id> = r.store.ids(FileType::Snapshot).into_iter().collect();
            let res = scn::guard(|| repo.rewrite_snapshots_and_trees(snaps.clone(), &ropts, &topts));
            drop(repo);
            // hit flags are the generator's (its own glob matcher), by path
            rec["hits"] = prog["hits"].clone();
            match res {
                Outcome::Ok(_) => {
                    let repo = tri!(rec, out, "open", full(&r));
                    let all = tri!(rec, out, "snapshots", scn::guard(|| repo.get_all_snapshots()));
                    // the rewritten snapshot of input i: `original` points to it; unchanged snapshots stay as they are
                    let mut outs = Vec::new();
                    for s in &snaps {
                        // (rewrite keeps the snapshot time; every input has its own)
                        let new = all.iter().find(|x| x.time == s.time && !ids_before.contains(&x.id));
                        let still = all.iter().any(|x| x.id == s.id);
                        let (o, which) = match new {
                            Some(n) => (flat(&repo, n), "rewritten"),
                            None if still => (flat(&repo, s), "unchanged"),
                            None => (Outcome::Err("gone".into()), "gone"),
                        };
                        outs.push(match o {
                            Outcome::Ok(f) => json!({"which":which,"still":still,"nodes":f}),
                            x => json!({"which":format!("unreadable: {}", x.msg()),"still":still,"nodes":{}}),
                        });
                    }
                    rec["outputs"] = json!(outs);
                    rec["result"] = json!("ok");
                }
                x => {
                    rec["outputs"] = json!([]);
                    rec["result"] = json!(format!("{}: {}", x.class(), x.msg()));
                }
            }
            rec["check"] = json!(check(&r));
        }
        "repair" => {
            drop(repo);
            // damage: remove the which-th pack of the kind, then repair the index
            let kind = prog["opts"]["damage"].as_str().unwrap_or("none");
            let which = prog["opts"]["which"].as_u64().unwrap_or(0) as usize;
            let mut cands: Vec<Id> = Vec::new();
            for ((t, id), bytes) in r.store.snapshot().iter().filter(|(k, _)| k.0 == 4) {
                let _ = t;
                let p = parse_pack(&rk, *id, bytes);
                if p.hdr.as_ref().is_some_and(|h| !h.is_empty() && h[0].tree == (kind == "tree")) {
                    cands.push(*id);
                }
            }
            let mut removed = 0;
            if kind != "none" && !cands.is_empty() {
                _ = r.store.del_raw(FileType::Pack, &cands[which % cands.len()]);
                removed = 1;
                tri!(rec, out, "repair_index", scn::guard(|| scn::open(&r.h, &r.key)?.repair_index(&RepairIndexOptions::default(), false)));
            }
            let idx = indexed(&r.store, &rk);
            // which input nodes are affected
            let mut flags = Vec::new();
            for (s, f) in snaps.iter().zip(&inputs) {
                let lost: Vec<&String> = f.iter().filter(|(_, n)| n["k"] == "file" && n["content"].as_array().unwrap().iter().any(|c| !idx.contains(&format!("d{}", c.as_str().unwrap())))).map(|(p, _)| p).collect();
                let gone: Vec<&String> = f.iter().filter(|(_, n)| n["k"] == "dir" && !idx.contains(&format!("t{}", n["subtree"].as_str().unwrap()))).map(|(p, _)| p).collect();
                flags.push(json!({"lost":lost,"gone":gone,"root_gone":!idx.contains(&format!("t{}", short(&s.tree)))}));
            }
            rec["flags"] = json!(flags);
            rec["removed_packs"] = json!(removed);
            let writes_before = r.store.log().iter().filter(|o| o.kind.mutating()).count();
            let ids_before: BTreeSet<Id> = r.store.ids(FileType::Snapshot).into_iter().collect();
            let res = scn::guard(|| {
                let repo = scn::open(&r.h, &r.key)?.to_indexed()?;
                let all = repo.get_all_snapshots()?;
                repo.repair_snapshots(&RepairSnapshotsOptions::default(), all, false)
            });
            rec["mutations"] = json!(r.store.log().iter().filter(|o| o.kind.mutating()).count() - writes_before);
            match res {
                Outcome::Ok(()) => {
                    let repo = tri!(rec, out, "open", full(&r));
                    let all = tri!(rec, out, "snapshots", scn::guard(|| repo.get_all_snapshots()));
                    let mut outs = Vec::new();
                    for s in &snaps {
                        let new = all.iter().find(|x| x.original == Some(s.id) && !ids_before.contains(&x.id));
                        let still = all.iter().any(|x| x.id == s.id);
                        let (o, which) = match new {
                            Some(n) => (flat(&repo, n), "repaired"),
                            None if still => (flat(&repo, s), "unchanged"),
                            None => (Outcome::Ok(BTreeMap::new()), "deleted"),
                        };
                        outs.push(match o {
                            Outcome::Ok(f) => json!({"which":which,"still":still,"nodes":f}),
                            x => json!({"which":format!("unreadable: {}", x.msg()),"still":still,"nodes":{}}),
                        });
                    }
                    rec["outputs"] = json!(outs);
                    rec["result"] = json!("ok");
                }
                x => {
                    rec["outputs"] = json!([]);
                    rec["result"] = json!(format!("{}: {}", x.class(), x.msg()));
                }
            }
            // the repaired repository must be consistent as far as the kept snapshots go (unreferenced leftovers are no error)
            rec["check"] = json!(check(&r));
        }
        "copy" => {
            drop(repo);
            let d = tri!(rec, out, "init dest", new_repo(&prog["dest_cfg"]));
            if let Some(pre) = prog.get("dest_pre").filter(|p| p.is_array()) {
                let mut made = Vec::new();
                for (i, s) in pre.as_array().unwrap().iter().enumerate() {
                    made.push(tri!(rec, out, "dest backup", backup(&d, s, 50_000 + i as i64)));
                }
                // a destination with a history of its own: some of its snapshots forgotten and pruned without
                // repacking, so its index may still list trees whose children are gone
                if let Some(fg) = prog.get("dest_forget").and_then(Value::as_array) {
                    let ids: Vec<_> = fg.iter().filter_map(|i| made.get(i.as_u64()? as usize)).map(|s| s.id).collect();
                    let po = crate::drivers::repo::prune_opts(&prog["dest_prune"]);
                    tri!(rec, out, "dest forget/prune", scn::guard(|| {
                        let r = scn::open(&d.h, &d.key)?;
                        r.delete_snapshots(&ids)?;
                        let plan = r.prune_plan(&po)?;
                        r.prune(&po, plan)
                    }));
                    rec["dest_check_pre"] = json!(check(&d));
                }
            }
            // destination already holding the tree (but not the data blob of the same id) or the other way round
            match (prog.get("collide_pre").and_then(Value::as_str), &collide_entries) {
                (Some("tree"), _) => _ = tri!(rec, out, "dest backup", backup(&d, &prog["sources"][0], 60_000)),
                (Some("data"), Some(e)) => {
                    let only: Vec<Value> = e.as_array().unwrap().iter().filter(|x| x["path"] == "zz_collide").cloned().collect();
                    _ = tri!(rec, out, "dest backup", backup(&d, &json!(only), 60_001));
                }
                _ => {}
            }
            let twice = prog["opts"]["twice"].as_bool().unwrap_or(false);
            let res = scn::guard(|| {
                let src = scn::open(&r.h, &r.key)?.to_indexed()?;
                let rounds: Vec<Vec<SnapshotFile>> = if twice && snaps.len() > 1 { vec![snaps[..1].to_vec(), snaps[1..].to_vec()] } else { vec![snaps.clone()] };
                for round in rounds {
                    let dst = scn::open(&d.h, &d.key)?.to_indexed_ids()?;
                    let rel = dst.relevant_copy_snapshots(|_| true, &round)?;
                    let todo: Vec<&SnapshotFile> = rel.iter().filter(|c| c.relevant).map(|c| &c.sn).collect();
                    src.copy(&dst, todo)?;
                }
                Ok(())
            });
            match res {
                Outcome::Ok(()) => {
                    let drepo = tri!(rec, out, "open dest", full(&d));
                    let all = tri!(rec, out, "dest snapshots", scn::guard(|| drepo.get_all_snapshots()));
                    let mut outs = Vec::new();
                    for s in &snaps {
                        // the copy keeps time / tree / hostname; ids differ (they are cleared before saving)
                        let c = all.iter().find(|x| x.tree == s.tree && x.time == s.time);
                        outs.push(match c.map(|c| flat(&drepo, c)) {
                            Some(Outcome::Ok(f)) => json!({"which":"copied","nodes":f}),
                            Some(x) => json!({"which":format!("unreadable: {}", x.msg()),"nodes":{}}),
                            None => json!({"which":"missing","nodes":{}}),
                        });
                    }
                    rec["outputs"] = json!(outs);
                    rec["result"] = json!("ok");
                }
                x => {
                    rec["outputs"] = json!([]);
                    rec["result"] = json!(format!("{}: {}", x.class(), x.msg()));
                }
            }
            rec["check"] = json!(check(&d));
            rec["src_check"] = json!(check(&r));
        }
        _ => {}
    }
    out.rec(&rec);
}

pub fn run(a: &Args) {
    scn::silence_panics();
    let mut out = Out::create(&a.str("out", "trees.ndjson"));
    for line in std::fs::read_to_string(a.str("programs", "")).unwrap().lines() {
        if line.trim().is_empty() {
            continue;
        }
        let prog: Value = serde_json::from_str(line).unwrap();
        run_one(&prog, &mut out);
    }
    let n = out.finish();
    println!("{}", json!({"records": n}));
}
