//! Program driver: executes histories of repository commands (from TLC behaviours or from the
//! seeded generator) on a MemStore world and emits the abstract event trace for RepoTrace.tla.
use std::collections::BTreeMap;

use rustic_core::{
    BackupOptions, CheckOptions, ConfigOptions, IndexedIdsStatus, LimitOption, PruneOptions, Repository,
    jiff::Span,
    repofile::MasterKey,
};
use serde_json::{Value, json};

use crate::{
    scn::{self, Entry, MemSource, Outcome},
    util::{Args, Out, Rng},
    world::{World, content_digest},
};

/// abstract data blob d<i> of scenario seed -> exactly one fixed-size chunk of bytes
pub fn blob_bytes(seed: u64, name: &str, chunk: usize) -> Vec<u8> {
    // "d3" full chunk, "d3:10" the first 10 bytes of it
    let (base, len) = match name.split_once(':') {
        Some((b, l)) => (b, l.parse::<usize>().unwrap()),
        None => (name, chunk),
    };
    let n: u64 = base[1..].parse().unwrap();
    let mut r = Rng::new(seed.wrapping_mul(1_000_003).wrapping_add(n));
    let mut v = r.bytes(chunk);
    v.truncate(len);
    v
}

pub fn source_from(files: &Value, seed: u64, chunk: usize) -> MemSource {
    let mut entries = Vec::new();
    let mut dirs = std::collections::BTreeSet::new();
    for (path, blobs) in files.as_object().unwrap() {
        let mut data = Vec::new();
        for b in blobs.as_array().unwrap() {
            data.extend(blob_bytes(seed, b.as_str().unwrap(), chunk));
        }
        let comps: Vec<&str> = path.split('/').collect();
        for i in 1..comps.len() {
            _ = dirs.insert(comps[..i].join("/"));
        }
        // a changed file always has a changed mtime (precondition of parent-based backup, C11)
        let d = crate::abs::id_bytes(&crate::abs::sha256(&data));
        let mut e = Entry::file(path, data);
        e.mtime = 1_600_000_000 + i64::from(u32::from_le_bytes([d[0], d[1], d[2], 0]));
        e.ctime = e.mtime;
        entries.push(e);
    }
    for d in dirs {
        entries.push(Entry::dir(&d));
    }
    MemSource::new(entries)
}

fn expected_of(src: &MemSource) -> BTreeMap<String, (String, String)> {
    let mut v: Vec<(String, String, Vec<u8>)> = vec![("src".into(), "dir".into(), vec![])];
    for e in &src.entries {
        match &e.kind {
            scn::Kind::Dir => v.push((format!("src/{}", e.path), "dir".into(), vec![])),
            scn::Kind::File(d) => v.push((format!("src/{}", e.path), "file".into(), d.clone())),
            scn::Kind::Symlink(_) => v.push((format!("src/{}", e.path), "symlink".into(), vec![])),
        }
    }
    content_digest(&v)
}

pub fn prune_opts(o: &Value) -> PruneOptions {
    let b = |k: &str| o.get(k).and_then(Value::as_bool).unwrap_or(false);
    let secs = |k: &str, d: i64| o.get(k).and_then(Value::as_i64).unwrap_or(d);
    let lim = |k: &str, d: &str| -> LimitOption { o.get(k).and_then(Value::as_str).unwrap_or(d).parse().unwrap() };
    let mut p = PruneOptions::default()
        .instant_delete(b("instant"))
        .early_delete_index(b("early_delete_index"))
        .fast_repack(b("fast"))
        .repack_all(b("repack_all"))
        .repack_uncompressed(b("repack_uncompressed"))
        .no_resize(b("no_resize"))
        .keep_pack(Span::new().seconds(secs("keep_pack", 0)))
        .keep_delete(Span::new().seconds(secs("keep_delete", 0)))
        .max_unused(lim("max_unused", "5%"))
        .max_repack(lim("max_repack", "10%"));
    if let Some(c) = o.get("cacheable_only").and_then(Value::as_bool) {
        p = p.repack_cacheable_only(Some(c));
    }
    p
}

pub fn config_opts(c: &Value) -> ConfigOptions {
    let chunk = c.get("chunk").and_then(Value::as_u64).unwrap_or(64);
    let pack = c.get("pack").and_then(Value::as_u64).unwrap_or(300);
    let mut o = scn::small_config(chunk, pack);
    if let Some(v) = c.get("version").and_then(Value::as_u64) {
        o = o.set_version(v as u32);
    }
    if let Some(v) = c.get("compression").and_then(Value::as_i64) {
        o = o.set_compression(v as i32);
    }
    if let Some(v) = c.get("append_only").and_then(Value::as_bool) {
        o = o.set_append_only(v);
    }
    o
}

pub struct Runner<'a> {
    pub w: World,
    pub out: &'a mut Out,
    pub seed: u64,
    pub chunk: usize,
    pub cur_dry: bool,
    pub probe_ops: bool,
    pub probe_steps: bool,
    /// pre-loaded (possibly stale) indexed handles
    pub handles: BTreeMap<u64, Repository<IndexedIdsStatus>>,
    pub nproc: u32,
}

impl Runner<'_> {
    fn handle(&self, p: u32, fail_at: Option<u64>) -> crate::store::Handle {
        let h = self.w.store.handle(p);
        match fail_at {
            Some(k) => h.fail_at(k as usize),
            None => h,
        }
    }

    fn note_backup(&mut self, r: &JobResult) {
        if let Some((sn, src)) = &r.1 {
            if !sn.id.is_null() {
                let name = self.w.nm.name('s', &sn.id);
                _ = self.w.expected.insert(name, expected_of(src));
                self.w.snaps.push(sn.clone());
            }
        }
    }

    fn begin(&mut self, cmd: &str, extra: Value) -> u32 {
        self.nproc += 1;
        // a command issued through a pre-loaded handle logs its operations under that handle's number
        let proc_ = extra.get("handle").and_then(Value::as_u64).map_or(self.nproc, |h| 1000 + h as u32);
        let now = self.w.now();
        let mut ev = json!({"e":"begin","cmd":cmd,"proc":proc_,"now":now});
        if let Some(m) = extra.as_object() {
            for (k, v) in m {
                ev[k] = v.clone();
            }
        }
        self.cur_dry = ev.get("dry").and_then(Value::as_bool).unwrap_or(false);
        self.w.emit(self.out, ev.clone());
        crate::util::watch::arm(std::env::var("VH_CMD_TIMEOUT").ok().and_then(|v| v.parse().ok()).unwrap_or(120), &ev.to_string());
        proc_
    }

    fn end<T>(&mut self, proc_: u32, res: &Outcome<T>) {
        crate::util::watch::disarm();
        if self.cur_dry {
            // worker threads a dry-run command leaves behind (e.g. a packer dropped without finalize) get their chance:
            // whatever they write still carries the command's handle number
            std::thread::sleep(std::time::Duration::from_millis(250));
        }
        self.w.flush_ops(self.out, self.probe_ops);
        let refused = res.msg().to_lowercase().contains("append-only");
        self.w.emit(self.out, json!({"e":"end","proc":proc_,"res":res.class(),"msg":res.msg(),"ao_refused":refused}));
        if self.probe_steps && !self.probe_ops {
            let map = self.w.shadow.clone();
            let pv = self.w.probe(&map);
            self.w.emit(self.out, pv);
        }
    }

    pub fn step(&mut self, st: &Value) {
        let cmd = st["cmd"].as_str().unwrap();
        let key: MasterKey = self.w.key.clone();
        match cmd {
            "load" => {
                let hno = st["h"].as_u64().unwrap();
                let h = self.w.store.handle(1000 + hno as u32);
                if let Outcome::Ok(r) = scn::guard(|| scn::open(&h, &key)?.to_indexed_ids()) {
                    _ = self.handles.insert(hno, r);
                }
                self.w.flush_ops(self.out, false);
            }
            "backup" => {
                let src = source_from(&st["files"], self.seed, self.chunk);
                let dry = st.get("dry").and_then(Value::as_bool).unwrap_or(false);
                let fail_at = st.get("fail_at").and_then(Value::as_u64);
                let mut bx = json!({"dry":dry,"faulted":fail_at.is_some(),"stale":st.get("h").is_some()});
                if let Some(hno) = st.get("h") {
                    bx["handle"] = hno.clone();
                }
                let p = self.begin("backup", bx);
                let opts = BackupOptions::default().dry_run(dry);
                let t = 1_000_000 + i64::from(p) * 60;
                let res = if let Some(hno) = st.get("h").and_then(Value::as_u64) {
                    match self.handles.remove(&hno) {
                        Some(r) => scn::guard(|| scn::backup_mem(&r, &src, &opts, scn::snap_at(t))),
                        None => Outcome::Err("no such handle".into()),
                    }
                } else {
                    let mut h = self.w.store.handle(p);
                    if let Some(k) = fail_at {
                        h = h.fail_at(k as usize);
                    }
                    scn::guard(|| {
                        let r = scn::open(&h, &key)?.to_indexed_ids()?;
                        scn::backup_mem(&r, &src, &opts, scn::snap_at(t))
                    })
                };
                if let Outcome::Ok(sn) = &res {
                    if !sn.id.is_null() && !dry {
                        let name = self.w.nm.name('s', &sn.id);
                        _ = self.w.expected.insert(name, expected_of(&src));
                        self.w.snaps.push(sn.clone());
                    }
                }
                self.end(p, &res);
            }
            "forget" => {
                let p = self.begin("forget", json!({}));
                let ids: Vec<_> = st["snaps"]
                    .as_array()
                    .unwrap()
                    .iter()
                    .filter_map(|i| self.w.snaps.get(i.as_u64().unwrap() as usize).map(|s| s.id))
                    .collect();
                let mut h = self.w.store.handle(p);
                if let Some(k) = st.get("fail_at").and_then(Value::as_u64) {
                    h = h.fail_at(k as usize);
                }
                let res = scn::guard(|| scn::open(&h, &key)?.delete_snapshots(&ids));
                self.end(p, &res);
            }
            "prune" => {
                let o = st.get("opts").cloned().unwrap_or(json!({}));
                let po = prune_opts(&o);
                let fail_at = st.get("fail_at").and_then(Value::as_u64);
                let p = self.begin("prune", json!({"instant": po.instant_delete, "early": po.early_delete_index,
                    "kd": o.get("keep_delete").and_then(Value::as_i64).unwrap_or(0), "opts": o, "faulted": fail_at.is_some()}));
                let mut h = self.w.store.handle(p);
                if let Some(k) = fail_at {
                    h = h.fail_at(k as usize);
                }
                let res = scn::guard(|| {
                    let r = scn::open(&h, &key)?;
                    let plan = r.prune_plan(&po)?;
                    r.prune(&po, plan)
                });
                self.end(p, &res);
            }
            "remember" => {
                self.w.emit(self.out, json!({"e":"remember"}));
            }
            "damage" => {
                // remove stored files behind the library's back: kind = pack_data | pack_tree | index | snapshot
                let kind = st["kind"].as_str().unwrap();
                let which = st.get("which").and_then(Value::as_u64).unwrap_or(0) as usize;
                let map = self.w.store.snapshot();
                let mut cands: Vec<(u8, rustic_core::Id)> = Vec::new();
                for ((t, id), bytes) in &map {
                    let hit = match kind {
                        "index" => *t == 1,
                        "snapshot" => *t == 3,
                        "pack_data" | "pack_tree" if *t == 4 => {
                            let p = crate::abs::parse_pack(&self.w.rk, *id, bytes);
                            p.hdr.as_ref().is_some_and(|h| !h.is_empty() && h[0].tree == (kind == "pack_tree"))
                        }
                        _ => false,
                    };
                    if hit {
                        cands.push((*t, *id));
                    }
                }
                if kind == "index_packs" {
                    // every pack the which-th index file lists disappears: that index file becomes completely stale
                    let idxs: Vec<_> = map.iter().filter(|(k, _)| k.0 == 1).collect();
                    if !idxs.is_empty() {
                        let ((_, iid), bytes) = idxs[which % idxs.len()];
                        if let Some(ix) = crate::abs::parse_index(&self.w.rk, *iid, bytes) {
                            for p in &ix.packs {
                                if map.contains_key(&(4, p.id)) {
                                    cands.push((4, p.id));
                                }
                            }
                        }
                    }
                } else if !cands.is_empty() {
                    let c = cands[which % cands.len()];
                    cands = vec![c];
                }
                for (t, id) in cands {
                    _ = self.w.store.del_raw(crate::store::tfrom(t), &id);
                    _ = self.w.shadow.remove(&(t, id));
                    let kindc = match t { 4 => 'p', 1 => 'i', _ => 's' };
                    let name = self.w.nm.name(kindc, &id);
                    self.w.emit(self.out, json!({"e":"damage","tpe":crate::store::tname(t),"id":name}));
                }
            }
            "repair_index" => {
                let dry = st.get("dry").and_then(Value::as_bool).unwrap_or(false);
                let read_all = st.get("read_all").and_then(Value::as_bool).unwrap_or(false);
                let fail_at = st.get("fail_at").and_then(Value::as_u64);
                let p = self.begin("repair_index", json!({"dry":dry,"faulted":fail_at.is_some()}));
                let h = self.handle(p, fail_at);
                let res = scn::guard(|| {
                    scn::open(&h, &key)?.repair_index(&rustic_core::RepairIndexOptions::default().read_all(read_all), dry)
                });
                self.end(p, &res);
            }
            "repair_snapshots" => {
                let dry = st.get("dry").and_then(Value::as_bool).unwrap_or(false);
                let delete = st.get("delete").and_then(Value::as_bool).unwrap_or(false);
                let fail_at = st.get("fail_at").and_then(Value::as_u64);
                let p = self.begin("repair_snapshots", json!({"dry":dry,"faulted":fail_at.is_some()}));
                let h = self.handle(p, fail_at);
                let res = scn::guard(|| {
                    let r = scn::open(&h, &key)?.to_indexed()?;
                    let snaps = r.get_all_snapshots()?;
                    r.repair_snapshots(&rustic_core::RepairSnapshotsOptions::default().delete(delete), snaps, dry)
                });
                self.end(p, &res);
            }
            "config" => {
                let fail_at = st.get("fail_at").and_then(Value::as_u64);
                let p = self.begin("config", json!({"faulted":fail_at.is_some()}));
                let h = self.handle(p, fail_at);
                let mut co = ConfigOptions::default();
                if let Some(v) = st.get("append_only").and_then(Value::as_bool) {
                    co = co.set_append_only(v);
                }
                if let Some(v) = st.get("compression").and_then(Value::as_i64) {
                    co = co.set_compression(v as i32);
                }
                if let Some(v) = st.get("pack").and_then(Value::as_u64) {
                    co = co.set_datapack_size(bytesize::ByteSize(v)).set_treepack_size(bytesize::ByteSize(v));
                }
                let res = scn::guard(|| {
                    let mut r = scn::open(&h, &key)?;
                    let changed = r.apply_config(&co)?;
                    Ok((changed, r.config().append_only == Some(true)))
                });
                if let Outcome::Ok((_, ao)) = &res {
                    self.w.flush_ops(self.out, self.probe_ops);
                    self.w.emit(self.out, json!({"e":"cfg","append_only":ao}));
                }
                self.end(p, &res);
            }
            "add_key" => {
                let fail_at = st.get("fail_at").and_then(Value::as_u64);
                let p = self.begin("add_key", json!({"faulted":fail_at.is_some()}));
                let h = self.handle(p, fail_at);
                let res = scn::guard(|| {
                    scn::open(&h, &key)?.add_key("pw", &rustic_core::KeyOptions::default())
                });
                self.end(p, &res);
            }
            "merge" => {
                let fail_at = st.get("fail_at").and_then(Value::as_u64);
                let p = self.begin("merge", json!({"faulted":fail_at.is_some()}));
                let h = self.handle(p, fail_at);
                let res = scn::guard(|| {
                    let r = scn::open(&h, &key)?.to_indexed()?;
                    let snaps = r.get_all_snapshots()?;
                    let cmp = |a: &rustic_core::repofile::Node, b: &rustic_core::repofile::Node| a.meta.mtime.cmp(&b.meta.mtime);
                    r.merge_snapshots(&snaps, &cmp, scn::snap_at(2_000_000 + i64::from(p)))
                });
                self.end(p, &res);
            }
            "copy_into" => {
                // snapshots of another repository (own key, own store) are copied into this one
                let fail_at = st.get("fail_at").and_then(Value::as_u64);
                let p = self.begin("copy_into", json!({"faulted":fail_at.is_some()}));
                let h = self.handle(p, fail_at);
                let files = st.get("files").cloned().unwrap_or(json!({"q": ["d1", "d9:7"], "x/r": ["d2"]}));
                let (seed, chunk) = (self.seed, self.chunk);
                let res = scn::guard(|| {
                    let src_store = crate::store::MemStore::new();
                    let sh = src_store.handle(0);
                    let skey = MasterKey::new();
                    _ = scn::init(&sh, &skey, &scn::small_config(chunk as u64, 250))?;
                    let sr = scn::open(&sh, &skey)?.to_indexed_ids()?;
                    _ = scn::backup_mem(&sr, &source_from(&files, seed, chunk), &BackupOptions::default(), scn::snap_at(3_000_000 + i64::from(p)))?;
                    let src = scn::open(&sh, &skey)?.to_indexed()?;
                    let snaps = src.get_all_snapshots()?;
                    let dst = scn::open(&h, &key)?.to_indexed_ids()?;
                    src.copy(&dst, snaps.iter())
                });
                self.end(p, &res);
            }
            "rewrite" => {
                // drop every path matching the glob from all snapshots
                let fail_at = st.get("fail_at").and_then(Value::as_u64);
                let forget = st.get("forget").and_then(Value::as_bool).unwrap_or(false);
                let dry = st.get("dry").and_then(Value::as_bool).unwrap_or(false);
                let glob = st.get("glob").and_then(Value::as_str).unwrap_or("a").to_string();
                let p = self.begin("rewrite", json!({"dry":dry,"faulted":fail_at.is_some()}));
                let h = self.handle(p, fail_at);
                let res = scn::guard(|| {
                    let r = scn::open(&h, &key)?.to_indexed()?;
                    let snaps = r.get_all_snapshots()?;
                    let mut ex = rustic_core::Excludes::default();
                    ex.globs = vec![format!("!{glob}")];
                    let topts = rustic_core::RewriteTreesOptions::default().excludes(ex);
                    let ropts = rustic_core::RewriteOptions::default().forget(forget).dry_run(dry);
                    r.rewrite_snapshots_and_trees(snaps, &ropts, &topts).map(|v| v.len())
                });
                self.end(p, &res);
            }
            "prune_plan" => {
                // planning only: the library's "dry run" of prune
                let o = st.get("opts").cloned().unwrap_or(json!({}));
                let po = prune_opts(&o);
                let p = self.begin("prune_plan", json!({"dry":true}));
                let h = self.w.store.handle(p);
                let res = scn::guard(|| scn::open(&h, &key)?.prune_plan(&po).map(|_| ()));
                self.end(p, &res);
            }
            "conc" => {
                // two commands on the same store: A runs up to its gate-th back-end operation, then B runs
                // (completely, or up to its own gate while A finishes), then the parked one resumes
                let (sa, sb) = (st["a"].clone(), st["b"].clone());
                let gate = st["gate"].as_u64().unwrap() as usize;
                let bgate = st.get("bgate").and_then(Value::as_u64).map(|x| x as usize);
                let b_is_prune = sb["cmd"] == "prune";
                let a_is_prune = sa["cmd"] == "prune";
                let info = |s: &Value, overlaps_prune: bool| -> Value {
                    if s["cmd"] == "prune" {
                        let o = s.get("opts").cloned().unwrap_or(json!({}));
                        json!({"instant": o.get("instant").and_then(Value::as_bool).unwrap_or(false), "early": false,
                               "kd": o.get("keep_delete").and_then(Value::as_i64).unwrap_or(0), "opts": o})
                    } else {
                        json!({"stale": overlaps_prune})
                    }
                };
                let pa = self.begin(sa["cmd"].as_str().unwrap(), info(&sa, b_is_prune));
                let ha = self.w.store.handle(pa).gate_at(gate);
                let ctl_a = ha.ctl.clone();
                let done_a = std::sync::Arc::new(std::sync::atomic::AtomicBool::new(false));
                let (seed, chunk) = (self.seed, self.chunk);
                let ta = 1_000_000 + i64::from(pa) * 60;
                let key_a = key.clone();
                let da = done_a.clone();
                let sa2 = sa.clone();
                let th_a = std::thread::spawn(move || {
                    let r = run_job(&sa2, &key_a, &ha, seed, chunk, ta);
                    da.store(true, std::sync::atomic::Ordering::SeqCst);
                    r
                });
                let parked_a = ctl_a.gate.wait_parked(&done_a);
                self.w.flush_ops(self.out, false);
                self.w.emit(self.out, json!({"e":"note","what":"A parked","parked":parked_a,"gate":gate}));
                let pb = self.begin(sb["cmd"].as_str().unwrap(), info(&sb, a_is_prune));
                let mut hb = self.w.store.handle(pb);
                if let Some(j) = bgate {
                    hb = hb.gate_at(j);
                }
                let ctl_b = hb.ctl.clone();
                let tb = 1_000_000 + i64::from(pb) * 60;
                let (rb, ra);
                if bgate.is_some() {
                    let done_b = std::sync::Arc::new(std::sync::atomic::AtomicBool::new(false));
                    let db = done_b.clone();
                    let key_b = key.clone();
                    let sb2 = sb.clone();
                    let th_b = std::thread::spawn(move || {
                        let r = run_job(&sb2, &key_b, &hb, seed, chunk, tb);
                        db.store(true, std::sync::atomic::Ordering::SeqCst);
                        r
                    });
                    _ = ctl_b.gate.wait_parked(&done_b);
                    self.w.flush_ops(self.out, false);
                    ctl_a.gate.release();
                    ra = th_a.join().unwrap();
                    self.note_backup(&ra);
                    self.end(pa, &ra.0);
                    ctl_b.gate.release();
                    rb = th_b.join().unwrap();
                    self.note_backup(&rb);
                    self.end(pb, &rb.0);
                } else {
                    rb = run_job(&sb, &key, &hb, seed, chunk, tb);
                    self.note_backup(&rb);
                    self.end(pb, &rb.0);
                    ctl_a.gate.release();
                    ra = th_a.join().unwrap();
                    self.note_backup(&ra);
                    self.end(pa, &ra.0);
                }
            }
            "check" => {
                let p = self.begin("check", json!({}));
                let h = self.w.store.handle(p);
                let res = scn::guard(|| {
                    let r = scn::open(&h, &key)?;
                    r.check(CheckOptions::default().read_data(true))?.is_ok()
                });
                self.end(p, &res);
            }
            "tick" => {
                let dt = st["dt"].as_i64().unwrap();
                self.w.tick(self.out, dt);
            }
            other => panic!("unknown command {other}"),
        }
    }
}

type JobResult = (Outcome<()>, Option<(rustic_core::repofile::SnapshotFile, MemSource)>);

/// one command (backup or prune) through the given handle; usable from a worker thread
pub fn run_job(st: &Value, key: &MasterKey, h: &crate::store::Handle, seed: u64, chunk: usize, t: i64) -> JobResult {
    match st["cmd"].as_str().unwrap() {
        "backup" => {
            let src = source_from(&st["files"], seed, chunk);
            let res = scn::guard(|| {
                let r = scn::open(h, key)?.to_indexed_ids()?;
                scn::backup_mem(&r, &src, &BackupOptions::default(), scn::snap_at(t))
            });
            match res {
                Outcome::Ok(sn) => (Outcome::Ok(()), Some((sn, src))),
                Outcome::Err(e) => (Outcome::Err(e), None),
                Outcome::Panic(e) => (Outcome::Panic(e), None),
            }
        }
        "prune" => {
            let po = prune_opts(&st.get("opts").cloned().unwrap_or(json!({})));
            let res = scn::guard(|| {
                let r = scn::open(h, key)?;
                let plan = r.prune_plan(&po)?;
                r.prune(&po, plan)
            });
            (res, None)
        }
        other => panic!("conc: unsupported command {other}"),
    }
}

pub fn run_program(prog: &Value, out: &mut Out) {
    _ = run_program_world(prog, out);
}

/// run a program and hand back the world (store, key, expected contents) it produced
pub fn run_program_world(prog: &Value, out: &mut Out) -> Option<World> {
    let id = prog["id"].as_str().unwrap_or("p").to_string();
    let seed = prog.get("seed").and_then(Value::as_u64).unwrap_or(1);
    let cfg = prog.get("cfg").cloned().unwrap_or(json!({}));
    let chunk = cfg.get("chunk").and_then(Value::as_u64).unwrap_or(64) as usize;
    let key = MasterKey::new();
    let mut w = World::new(&id, key.clone());
    let h = w.store.handle(0);
    // "index_flush": n - every command writes an index file after n indexed blobs (hook; 0 / absent = the library's 50 000)
    rustic_core::verif_hooks::set_index_flush_count(cfg.get("index_flush").and_then(Value::as_u64).unwrap_or(0) as usize);
    let copts = config_opts(&cfg);
    w.emit(out, json!({"e":"reset","id":id,"cfg":cfg,"prog":prog}));
    let init = scn::guard(|| {
        if cfg.get("version").and_then(Value::as_u64) == Some(1) {
            // version-1 repositories cannot be created through ConfigOptions (no downgrade): build the config file
            let mut c = rustic_core::repofile::ConfigFile::new(1, rustic_core::Id::random().into(), 0x3DA3_358B_4DC1_73);
            let mut o = copts;
            o.set_version = None;
            o.apply(&mut c)?;
            rustic_core::Repository::new(&scn::repo_opts(), &scn::backends(h.clone().arc(), None))?.init_with_config(
                &rustic_core::Credentials::Masterkey(key.clone()),
                &rustic_core::KeyOptions::default(),
                c,
            )
        } else {
            scn::init(&h, &key, &copts)
        }
    });
    w.flush_ops(out, false);
    if !init.is_ok() {
        w.emit(out, json!({"e":"end","proc":0,"res":init.class(),"msg":init.msg()}));
        return None;
    }
    let mode = prog.get("probe").and_then(Value::as_str).unwrap_or("step");
    let mut r = Runner {
        w,
        out,
        seed,
        chunk,
        probe_ops: mode == "op",
        probe_steps: mode != "none",
        handles: BTreeMap::new(),
        nproc: 0,
        cur_dry: false,
    };
    let steps = prog["steps"].as_array().unwrap();
    let sweep = prog.get("sweep").and_then(Value::as_u64).map(|x| x as usize);
    for (i, st) in steps.iter().enumerate() {
        if Some(i) == sweep {
            // the command under test: (a) unfaulted with a probe of the real read path after every
            // storage operation (= every crash point), (b) once per position with that operation failing
            let base = r.w.fork(&id);
            let n0 = r.w.store.log().iter().filter(|o| o.kind.mutating()).count();
            r.probe_ops = true;
            r.step(st);
            r.probe_ops = mode == "op";
            let n = r.w.store.log().iter().filter(|o| o.kind.mutating()).count() - n0;
            for k in 0..=n {
                let scid = format!("{id}#f{k}");
                let mut w2 = base.fork(&scid);
                w2.emit(r.out, json!({"e":"reset","id":scid,"cfg":cfg,"fork_of":id,"fail_at":k}));
                w2.emit_state(r.out);
                w2.emit(r.out, json!({"e":"baseline"}));
                let mut st2 = st.clone();
                st2["fail_at"] = json!(k);
                let mut r2 = Runner { w: w2, out: &mut *r.out, seed, chunk, cur_dry: false, probe_ops: false, probe_steps: true,
                                      handles: BTreeMap::new(), nproc: 500 };
                r2.step(&st2);
                // life goes on after the failed / interrupted command: follow-up commands run on what it left behind
                if let Some(after) = prog.get("after").and_then(Value::as_array) {
                    for a in after {
                        r2.step(a);
                    }
                }
            }
        } else {
            r.step(st);
        }
    }
    Some(r.w)
}

pub fn run(a: &Args) {
    scn::silence_panics();
    let progs = std::fs::read_to_string(a.str("programs", "programs.ndjson")).unwrap();
    let mut out = Out::create(&a.str("out", "trace.ndjson"));
    let mut n = 0;
    for line in progs.lines().filter(|l| !l.trim().is_empty()) {
        let prog: Value = serde_json::from_str(line).unwrap();
        run_program(&prog, &mut out);
        n += 1;
    }
    let ev = out.finish();
    println!("{}", json!({"programs": n, "events": ev}));
}
