//! development probe: one backup on a MemStore, print the decoded operation log
use rustic_core::{BackupOptions, repofile::MasterKey};

use crate::{
    abs::{self, Namer, RepoAbs},
    scn::{self, Entry, MemSource},
    store::{MemStore, OpKind},
    util::{Args, Rng},
};

pub fn run(_a: &Args) {
    let mut rng = Rng::new(7);
    let store = MemStore::new();
    let key = MasterKey::new();
    let rk = scn::repo_key(&key);
    let h = store.handle(0);
    let repo = scn::init(&h, &key, &scn::small_config(64, 200)).unwrap();
    let src = MemSource::new(vec![
        Entry::file("a", rng.bytes(64)),
        Entry::file("b", rng.bytes(200)),
        Entry::dir("d"),
        Entry::file("d/c", rng.bytes(10)),
    ]);
    let repo = repo.to_indexed_ids().unwrap();
    let snap = scn::backup_mem(&repo, &src, &BackupOptions::default(), scn::snap_at(1000)).unwrap();
    println!("snapshot {} tree {}", snap.id, snap.tree);
    let mut nm = Namer::default();
    for op in store.log() {
        if !op.kind.mutating() {
            continue;
        }
        let what = match (op.kind, op.tpe) {
            (OpKind::Write, 4) => {
                let p = abs::parse_pack(&rk, op.id, op.data.as_ref().unwrap());
                format!("{:?} name_ok={} layout_ok={}", p.hdr.map(|h| h.iter().map(|b| (b.tree, nm.name('b', &b.id), b.off, b.len)).collect::<Vec<_>>()), p.name_ok, p.layout_ok)
            }
            (OpKind::Write, 1) => {
                let ix = abs::parse_index(&rk, op.id, op.data.as_ref().unwrap());
                format!("{:?}", ix.map(|i| i.packs.iter().map(|p| (nm.name('p', &p.id), p.blobs.len(), p.marked)).collect::<Vec<_>>()))
            }
            _ => String::new(),
        };
        println!("{} {} {} {} {}", op.seq, op.kind.name(), crate::store::tname(op.tpe), op.ok, what);
    }
    let ra = RepoAbs::from_map(&store.snapshot(), &rk);
    for s in ra.snaps.values().flatten() {
        println!("snap needs {} readable {}", ra.needs(&s.tree).len(), ra.readable(s));
    }
    let repo = scn::open(&h, &key).unwrap();
    println!("check clean: {:?}", scn::check_clean(&repo).unwrap());
    let repo = repo.to_indexed().unwrap();
    for (p, t, d) in scn::read_back(&repo, &snap).unwrap() {
        println!("{p} {t} {}", d.len());
    }
}
