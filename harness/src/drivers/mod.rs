pub mod forget;
pub mod probe;
pub mod repo;
pub mod index;
pub mod backend;
pub mod config;
pub mod chunker;
pub mod hotcold;
