pub mod forget;
