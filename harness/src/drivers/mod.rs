pub mod forget;
pub mod probe;
pub mod repo;
