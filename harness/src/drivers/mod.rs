pub mod forget;
pub mod probe;
