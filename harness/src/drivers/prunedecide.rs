//! Replay of PruneDecide.tla configurations on the real planner (hook PrunePlan::verif_decide): one record per
//! configuration with the real decisions; PruneDecideTrace.tla compares them with Todo(c) and re-checks the lemmas.
use std::collections::BTreeMap;

use rustic_core::{
    BlobId, Id, LimitOption, PruneOptions, PrunePlan,
    jiff::{Span, Timestamp},
    repofile::{ConfigFile, IndexFile, IndexId, PackId},
};
use serde_json::{Value, json};

use crate::{
    scn,
    util::{Args, Out},
};

fn pid(p: u64) -> Id {
    let mut a = [0x71u8; 32];
    a[0..8].copy_from_slice(&p.to_le_bytes());
    Id::new(a)
}
fn bid(name: &str) -> Id {
    let mut a = [0xb2u8; 32];
    let n: u64 = name[1..].parse::<u64>().unwrap() + if name.starts_with('t') { 100 } else { 0 };
    a[0..8].copy_from_slice(&n.to_le_bytes());
    Id::new(a)
}

pub fn run(a: &Args) {
    scn::silence_panics();
    let mut out = Out::create(&a.str("out", "prunedecide.ndjson"));
    let now = Timestamp::now().as_second();
    let mut n = 0usize;
    for line in std::fs::read_to_string(a.str("configs", "")).unwrap().lines() {
        if line.trim().is_empty() {
            continue;
        }
        let c: Value = serde_json::from_str(line).unwrap();
        let packs = c["packs"].as_array().unwrap();
        let o = &c["opt"];
        let b = |k: &str| o[k].as_bool().unwrap();
        // index files: `files` gives the index file number of each pack (default: all in one)
        let files: Vec<u64> = c.get("files").and_then(Value::as_array).map_or_else(|| vec![1; packs.len()], |f| f.iter().map(|x| x.as_u64().unwrap()).collect());
        let nfiles = files.iter().copied().max().unwrap_or(1);
        let mut existing = BTreeMap::new();
        let mut index_files: Vec<(IndexId, IndexFile)> = Vec::new();
        for f in 1..=nfiles {
            let mut unmarked = Vec::new();
            let mut marked = Vec::new();
            for (i, p) in packs.iter().enumerate().filter(|(i, _)| files[*i] == f) {
                let tpe = p["tpe"].as_str().unwrap();
                let blobs: Vec<Value> = p["blobs"]
                    .as_array()
                    .unwrap()
                    .iter()
                    .enumerate()
                    .map(|(k, name)| json!({"id": bid(name.as_str().unwrap()).to_hex().as_str(), "type": tpe, "offset": 100 * k, "length": 100}))
                    .collect();
                let size = 100 * blobs.len() as u64 + 50;
                let mut ip = json!({"id": pid(i as u64 + 1).to_hex().as_str(), "blobs": blobs, "size": size});
                match p["age"].as_str().unwrap() {
                    "old" => ip["time"] = json!(Timestamp::from_second(now - 1000).unwrap().to_string()),
                    "young" => ip["time"] = json!(Timestamp::from_second(now - 10).unwrap().to_string()),
                    _ => {}
                }
                _ = existing.insert(PackId::from(pid(i as u64 + 1)), size as u32);
                if p["mark"].as_bool().unwrap() { marked.push(ip) } else { unmarked.push(ip) }
            }
            let ixf: IndexFile = match serde_json::from_value(json!({"packs": unmarked, "packs_to_delete": marked})) {
                Ok(x) => x,
                Err(e) => {
                    out.rec(&json!({"e":"toolerr","msg":format!("index file: {e}")}));
                    return;
                }
            };
            let mut a = [0x1fu8; 32];
            a[0] = f as u8;
            index_files.push((IndexId::from(Id::new(a)), ixf));
        }
        let (max_repack, max_unused): (LimitOption, LimitOption) = match o["lim"].as_str().unwrap() {
            "all" => ("unlimited".parse().unwrap(), "0B".parse().unwrap()),
            "none" => ("0B".parse().unwrap(), "0B".parse().unwrap()),
            _ => ("unlimited".parse().unwrap(), "unlimited".parse().unwrap()),
        };
        let opts = PruneOptions::default()
            .keep_pack(Span::new().seconds(if b("keepPack") { 100 } else { 0 }))
            .keep_delete(Span::new().seconds(if b("keepDelete") { 100 } else { 0 }))
            .repack_cacheable_only(Some(b("cacheableOnly")))
            .repack_uncompressed(b("uncompressed"))
            .repack_all(b("all"))
            .no_resize(b("noResize"))
            .max_repack(max_repack)
            .max_unused(max_unused);
        let needed: Vec<BlobId> = c["used"].as_array().unwrap().iter().map(|x| BlobId::from(bid(x.as_str().unwrap()))).collect();
        let config = ConfigFile::new(2, Id::random().into(), 0x3DA3_358B_4DC1_73);
        let res = scn::guard(|| PrunePlan::verif_decide(needed, existing, index_files, &opts, &config));
        let todo: Vec<String> = match &res {
            scn::Outcome::Ok(d) => {
                // decisions by pack number, in the order of the configuration
                let mut m: BTreeMap<u64, String> = BTreeMap::new();
                for (id, _marked, t) in d {
                    let bytes = crate::abs::id_bytes(&id.into_inner());
                    _ = m.insert(u64::from_le_bytes(bytes[0..8].try_into().unwrap()), format!("{t:?}"));
                }
                (1..=packs.len() as u64).map(|i| m.get(&i).cloned().unwrap_or_else(|| "absent".into())).collect()
            }
            scn::Outcome::Err(_) => vec!["error".into()],
            scn::Outcome::Panic(_) => vec!["panic".into()],
        };
        out.rec(&json!({"e":"decide","c":{"packs":c["packs"],"used":c["used"],"opt":c["opt"]},"files":files,"real":todo,"msg":res.msg().chars().take(120).collect::<String>()}));
        n += 1;
    }
    _ = out.finish();
    println!("{}", json!({"records": n}));
}
