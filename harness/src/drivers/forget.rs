//! C09 driver: calls the real `KeepOptions::apply` / grouped variant on
//! generated timelines and logs complete input + output for ForgetTrace.tla.
use std::str::FromStr;

use rustic_core::{
    ForgetGroups, Grouped, Id, KeepOptions, SnapshotGroupCriterion, StringList,
    jiff::{
        Span, Zoned,
        civil::date,
        tz::{Offset, TimeZone},
    },
    repofile::{DeleteOption, SnapshotFile},
};
use serde_json::{Value, json};

use crate::util::{Args, Out, Rng};

// ---- own civil arithmetic (inputs are chosen by the harness, not by jiff) ----
fn days_from_civil(y: i64, m: i64, d: i64) -> i64 {
    let y = if m <= 2 { y - 1 } else { y };
    let era = y.div_euclid(400);
    let yoe = y - era * 400;
    let mp = (m + 9) % 12;
    let doy = (153 * mp + 2) / 5 + d - 1;
    let doe = yoe * 365 + yoe / 4 - yoe / 100 + doy;
    era * 146_097 + doe - 719_468
}
fn civil_from_days(z: i64) -> (i64, i64, i64) {
    let z = z + 719_468;
    let era = z.div_euclid(146_097);
    let doe = z - era * 146_097;
    let yoe = (doe - doe / 1460 + doe / 36524 - doe / 146_096) / 365;
    let doy = doe - (365 * yoe + yoe / 4 - yoe / 100);
    let mp = (5 * doy + 2) / 153;
    let d = doy - (153 * mp + 2) / 5 + 1;
    let m = if mp < 10 { mp + 3 } else { mp - 9 };
    (yoe + era * 400 + i64::from(m <= 2), m, d)
}

/// civil time with offset, local seconds since 1970-01-01T00:00 local
#[derive(Clone, Copy, Debug)]
struct T {
    local: i64,
    off: i64,
}
impl T {
    fn fields(self) -> (i64, i64, i64, i64, i64, i64) {
        let day = self.local.div_euclid(86400);
        let s = self.local.rem_euclid(86400);
        let (y, m, d) = civil_from_days(day);
        (y, m, d, s / 3600, (s / 60) % 60, s % 60)
    }
    fn json(self) -> Value {
        let (y, mo, d, h, mi, s) = self.fields();
        json!({"y":y,"mo":mo,"d":d,"h":h,"mi":mi,"s":s,"off":self.off})
    }
    fn zoned(self) -> Zoned {
        let (y, mo, d, h, mi, s) = self.fields();
        date(y as i16, mo as i8, d as i8)
            .at(h as i8, mi as i8, s as i8, 0)
            .to_zoned(TimeZone::fixed(Offset::from_seconds(self.off as i32).unwrap()))
            .unwrap()
    }
}

const RULES: [&str; 9] = [
    "last", "minutely", "hourly", "daily", "weekly", "monthly", "quarter", "half", "yearly",
];

fn anchor(rng: &mut Rng) -> i64 {
    // an instant (local seconds) near a boundary of some period
    let y = rng.range(2000, 2036);
    let kind = rng.below(8);
    let (yy, mm, dd) = match kind {
        0 => (y + 1, 1, 1),                                  // year / ISO week-year edge
        1 => (y, *rng.pick(&[4, 7, 10]), 1),                 // quarter / half-year edge
        2 => (y, rng.range(1, 12), 1),                       // month edge
        3 => (y, 3, 1),                                      // leap-day neighbourhood
        _ => (y, rng.range(1, 12), rng.range(1, 28)),        // anywhere
    };
    let mut day = days_from_civil(yy, mm, dd);
    if kind == 5 {
        // snap to a Monday (ISO week edge)
        day -= (day + 3).rem_euclid(7);
    }
    let sec = match rng.below(4) {
        0 => 0,                                  // midnight: day edge
        1 => rng.range(0, 23) * 3600,            // hour edge
        2 => rng.range(0, 1439) * 60,            // minute edge
        _ => rng.range(0, 86399),
    };
    day * 86400 + sec
}

fn jitter(rng: &mut Rng) -> i64 {
    let scale = *rng.pick(&[1i64, 60, 3600, 86400, 7 * 86400, 30 * 86400, 182 * 86400, 365 * 86400]);
    let k = rng.range(-3, 3);
    k * scale + if rng.chance(1, 2) { rng.range(-90, 90) } else { 0 }
}

fn rand_span(rng: &mut Rng) -> (Value, Span) {
    let mut v = [0i64; 7]; // y mo w d h mi s
    let n = rng.range(1, 2);
    for _ in 0..n {
        match rng.below(7) {
            0 => v[0] = rng.range(1, 3),
            1 => v[1] = rng.range(1, 14),
            2 => v[2] = rng.range(1, 5),
            3 => v[3] = rng.range(1, 40),
            4 => v[4] = rng.range(1, 50),
            5 => v[5] = rng.range(1, 90),
            _ => v[6] = rng.range(1, 100),
        }
    }
    let sp = Span::new()
        .years(v[0])
        .months(v[1])
        .weeks(v[2])
        .days(v[3])
        .hours(v[4])
        .minutes(v[5])
        .seconds(v[6]);
    (
        json!({"set":true,"y":v[0],"mo":v[1],"w":v[2],"d":v[3],"h":v[4],"mi":v[5],"s":v[6]}),
        sp,
    )
}

fn unset_span() -> Value {
    json!({"set":false,"y":0,"mo":0,"w":0,"d":0,"h":0,"mi":0,"s":0})
}

struct Opts {
    count: [i64; 9],
    within: Vec<(Value, Option<Span>)>,
    keep_ids: Vec<String>,
    keep_tags: Vec<Vec<String>>,
    delete_unchanged: bool,
}

impl Opts {
    fn json(&self) -> Value {
        let mut count = serde_json::Map::new();
        let mut within = serde_json::Map::new();
        for (i, r) in RULES.iter().enumerate() {
            _ = count.insert((*r).to_string(), json!(self.count[i]));
            _ = within.insert((*r).to_string(), self.within[i].0.clone());
        }
        let ids: Vec<Vec<u32>> = self
            .keep_ids
            .iter()
            .map(|s| s.chars().map(|c| c.to_digit(16).unwrap()).collect())
            .collect();
        json!({"count":count,"within":within,"keep_ids":ids,"keep_tags":self.keep_tags,
               "delete_unchanged":self.delete_unchanged})
    }
    fn real(&self) -> KeepOptions {
        let c = |i: usize| (self.count[i] != -2).then_some(self.count[i] as i32);
        let mut k = KeepOptions::default();
        k.keep_last = c(0);
        k.keep_minutely = c(1);
        k.keep_hourly = c(2);
        k.keep_daily = c(3);
        k.keep_weekly = c(4);
        k.keep_monthly = c(5);
        k.keep_quarter_yearly = c(6);
        k.keep_half_yearly = c(7);
        k.keep_yearly = c(8);
        k.keep_within = self.within[0].1;
        k.keep_within_minutely = self.within[1].1;
        k.keep_within_hourly = self.within[2].1;
        k.keep_within_daily = self.within[3].1;
        k.keep_within_weekly = self.within[4].1;
        k.keep_within_monthly = self.within[5].1;
        k.keep_within_quarter_yearly = self.within[6].1;
        k.keep_within_half_yearly = self.within[7].1;
        k.keep_within_yearly = self.within[8].1;
        k.keep_ids = self.keep_ids.clone();
        k.keep_tags = self
            .keep_tags
            .iter()
            .map(|t| StringList::from_str(&t.join(",")).unwrap())
            .collect();
        k.delete_unchanged = self.delete_unchanged;
        // keep_none only makes an otherwise empty option set valid
        k.keep_none = true;
        k
    }
}

struct Snap {
    t: T,
    id: [u8; 32],
    tags: Vec<String>,
    tree: u8,
    del: &'static str,
    dt: T,
    host: String,
    label: String,
    paths: Vec<String>,
}

impl Snap {
    fn real(&self) -> SnapshotFile {
        let mut sn = SnapshotFile::default();
        sn.time = self.t.zoned();
        sn.id = Id::new(self.id).into();
        let mut tree = [0u8; 32];
        tree[0] = self.tree;
        sn.tree = Id::new(tree).into();
        if !self.tags.is_empty() {
            sn.tags = StringList::from_str(&self.tags.join(",")).unwrap();
        }
        if !self.paths.is_empty() {
            sn.paths = StringList::from_str(&self.paths.join(",")).unwrap();
        }
        sn.hostname = self.host.clone();
        sn.label = self.label.clone();
        sn.delete = match self.del {
            "never" => DeleteOption::Never,
            "after" => DeleteOption::After(self.dt.zoned()),
            _ => DeleteOption::NotSet,
        };
        sn
    }
    fn json(&self, crit: Option<[bool; 4]>) -> Value {
        let idp: Vec<u32> = hex::encode(self.id)[..8]
            .chars()
            .map(|c| c.to_digit(16).unwrap())
            .collect();
        let mut v = json!({"time":self.t.json(),"idp":idp,"tags":self.tags,"tree":self.tree,
                           "del":self.del,"dt":self.dt.json()});
        if let Some(c) = crit {
            let mut tags = self.tags.clone();
            tags.sort();
            tags.dedup();
            let mut paths = self.paths.clone();
            paths.sort();
            paths.dedup();
            let key = format!(
                "{}|{}|{}|{}",
                if c[0] { &self.host } else { "*" },
                if c[1] { &self.label } else { "*" },
                if c[2] { paths.join(",") } else { "*".into() },
                if c[3] { tags.join(",") } else { "*".into() }
            );
            v["gkey"] = json!(key);
        }
        v
    }
}

fn gen_snaps(rng: &mut Rng, focus: Option<usize>) -> (Vec<Snap>, T) {
    let n = match rng.below(10) {
        0 => 1,
        1..=5 => rng.range(2, 8),
        _ => rng.range(9, 40),
    } as usize;
    let n_anchor = rng.range(1, 3);
    let anchors: Vec<i64> = (0..n_anchor).map(|_| anchor(rng)).collect();
    let multi_off = rng.chance(1, 5);
    let base_off = if rng.chance(1, 3) { rng.range(-24, 28) * 1800 } else { 0 };
    // a focused case jitters on the scale of the rule under focus
    let focus_scale = focus.map(|k| [1i64, 60, 3600, 86400, 7 * 86400, 30 * 86400, 91 * 86400, 182 * 86400, 365 * 86400][k]);
    let mut snaps: Vec<Snap> = Vec::new();
    for i in 0..n {
        let t = if i > 0 && rng.chance(1, 12) {
            snaps[rng.below(i as u64) as usize].t
        } else {
            let off = if multi_off { rng.range(-24, 28) * 1800 } else { base_off };
            let j = match focus_scale {
                Some(sc) if rng.chance(3, 4) => rng.range(-4, 4) * sc + rng.range(-sc / 2, sc / 2),
                _ => jitter(rng),
            };
            let utc = *rng.pick(&anchors) + j;
            T { local: utc + off, off }
        };
        let mut id = [0u8; 32];
        id.copy_from_slice(&rng.bytes(32));
        let tags: Vec<String> = ["a", "b", "c"]
            .iter()
            .filter(|_| rng.chance(1, 4))
            .map(|s| (*s).to_string())
            .collect();
        let del = match rng.below(12) {
            0 => "never",
            1 | 2 => "after",
            _ => "none",
        };
        let dt = T { local: *rng.pick(&anchors) + jitter(rng), off: t.off };
        snaps.push(Snap {
            t,
            id,
            tags,
            tree: rng.below(3) as u8,
            del,
            dt,
            host: (*rng.pick(&["h1", "h2"])).to_string(),
            label: (*rng.pick(&["", "l"])).to_string(),
            paths: vec![(*rng.pick(&["/p", "/q"])).to_string()],
        });
    }
    let latest = snaps.iter().map(|s| s.t.local - s.t.off).max().unwrap();
    let now = match rng.below(3) {
        0 => T { local: latest + rng.range(0, 100), off: 0 },
        1 => T { local: *rng.pick(&anchors) + jitter(rng), off: 0 },
        // exactly a delete-after time (>= / < edge)
        _ => {
            let s = rng.pick(&snaps);
            T { local: s.dt.local - s.dt.off, off: 0 }
        }
    };
    (snaps, now)
}

fn gen_opts(rng: &mut Rng, snaps: &[Snap], focus: Option<usize>) -> Opts {
    let mut count = [-2i64; 9];
    let mut within: Vec<(Value, Option<Span>)> = (0..9).map(|_| (unset_span(), None)).collect();
    let nrules = if focus.is_some() { 0 } else { rng.range(0, 3) };
    for _ in 0..nrules {
        let k = rng.below(9) as usize;
        count[k] = *rng.pick(&[-1, 0, 1, 1, 2, 2, 3, 5]);
    }
    if let Some(k) = focus {
        count[k] = *rng.pick(&[-1, 1, 2, 3, 4]);
    }
    if rng.chance(1, 3) {
        let k = rng.below(9) as usize;
        let (j, s) = rand_span(rng);
        within[k] = (j, Some(s));
    } else if rng.chance(1, 3) && snaps.len() > 1 {
        // a span that ends exactly at (or one second off) a snapshot: the edge of "within" (time + span > newest)
        let k = rng.below(9) as usize;
        let latest = snaps.iter().map(|s| s.t.local - s.t.off).max().unwrap();
        let s0 = rng.pick(snaps);
        let d = latest - (s0.t.local - s0.t.off) + rng.range(-1, 1);
        if d > 0 {
            let (h, mi, sec) = (d / 3600, (d % 3600) / 60, d % 60);
            let sp = Span::new().hours(h).minutes(mi).seconds(sec);
            within[k] = (json!({"set":true,"y":0,"mo":0,"w":0,"d":0,"h":h,"mi":mi,"s":sec}), Some(sp));
        }
    }
    let mut keep_ids = Vec::new();
    if rng.chance(1, 8) {
        let s = rng.pick(snaps);
        let len = rng.range(1, 8) as usize;
        keep_ids.push(hex::encode(s.id)[..len].to_string());
    }
    let mut keep_tags = Vec::new();
    if rng.chance(1, 8) {
        for _ in 0..rng.range(1, 2) {
            let mut t: Vec<String> = ["a", "b", "c"]
                .iter()
                .filter(|_| rng.chance(1, 2))
                .map(|s| (*s).to_string())
                .collect();
            if t.is_empty() {
                t.push("a".into());
            }
            keep_tags.push(t);
        }
    }
    Opts {
        count,
        within,
        keep_ids,
        keep_tags,
        // deciding runs leave delete-unchanged off (the statement does not list it)
        delete_unchanged: false,
    }
}

fn out_json(real_in: &[SnapshotFile], res: &[rustic_core::ForgetSnapshot]) -> Value {
    Value::Array(
        res.iter()
            .map(|fs| {
                let ix = real_in.iter().position(|s| s.id == fs.snapshot.id).unwrap() + 1;
                json!({"ix": ix, "keep": fs.keep})
            })
            .collect(),
    )
}

/// exhaustive small scope: all timelines of <= n snapshots over the instants of the times file
/// x every counted rule x counter values, through the real `apply`
fn grid(a: &Args) {
    let n = a.num("grid", 3) as usize;
    let times: Vec<T> = std::fs::read_to_string(a.str("times", "spec/forget_times.ndjson"))
        .unwrap()
        .lines()
        .filter(|l| !l.trim().is_empty())
        .map(|l| {
            let v: Value = serde_json::from_str(l).unwrap();
            let g = |k: &str| v[k].as_i64().unwrap();
            T {
                local: days_from_civil(g("y"), g("mo"), g("d")) * 86400 + g("h") * 3600 + g("mi") * 60 + g("s"),
                off: g("off"),
            }
        })
        .collect();
    let mut out = Out::create(&a.str("out", "grid.ndjson"));
    let k = times.len();
    let mut seqs: Vec<Vec<usize>> = vec![vec![]];
    let mut frontier: Vec<Vec<usize>> = vec![vec![]];
    for _ in 0..n {
        let mut next = Vec::new();
        for s in &frontier {
            let lo = s.last().copied().unwrap_or(0);
            for i in lo..k {
                let mut t = s.clone();
                t.push(i);
                next.push(t);
            }
        }
        seqs.extend(next.iter().cloned());
        frontier = next;
    }
    let now = times[0];
    let mut c = 0usize;
    for seq in seqs.iter().filter(|s| !s.is_empty()) {
        let snaps: Vec<Snap> = seq
            .iter()
            .enumerate()
            .map(|(i, &ti)| {
                let mut id = [0u8; 32];
                id[0] = i as u8 + 1;
                Snap { t: times[ti], id, tags: vec![], tree: 0, del: "none", dt: times[0],
                       host: String::new(), label: String::new(), paths: vec![] }
            })
            .collect();
        let real_in: Vec<SnapshotFile> = snaps.iter().map(Snap::real).collect();
        let sj: Vec<Value> = snaps.iter().map(|s| s.json(None)).collect();
        for rule in 0..9 {
            for cnt in [-1i64, 1, 2, 3] {
                let mut count = [-2i64; 9];
                count[rule] = cnt;
                let opts = Opts { count, within: (0..9).map(|_| (unset_span(), None)).collect(),
                    keep_ids: vec![], keep_tags: vec![], delete_unchanged: false };
                let res = opts.real().apply(real_in.clone(), &now.zoned());
                let mut rec = json!({"kind":"case","id":format!("grid{c}"),"now":now.json(),"opts":opts.json(),"snaps":sj});
                match res {
                    Ok(fs) => { rec["err"] = json!(false); rec["out"] = out_json(&real_in, &fs); }
                    Err(_) => { rec["err"] = json!(true); rec["out"] = json!([]); }
                }
                out.rec(&rec);
                c += 1;
            }
        }
    }
    let n = out.finish();
    println!("{}", json!({"records": n}));
}

pub fn run(a: &Args) {
    if a.has("grid") {
        return grid(a);
    }
    let seed = a.num("seed", 1);
    let cases = a.num("cases", 100);
    let mut out = Out::create(&a.str("out", "forget.ndjson"));
    let mut rng = Rng::new(seed ^ 0xC09);

    // calendar cross-check records: jiff vs Calendar.tla
    for i in 0..(cases / 2).max(50) {
        let day = if i % 2 == 0 {
            days_from_civil(rng.range(1990, 2040), *rng.pick(&[1, 12]), *rng.pick(&[1, 2, 3, 4, 28, 29, 30, 31]))
        } else {
            rng.range(-20000, 40000)
        };
        let (y, m, d) = civil_from_days(day);
        let jd = date(y as i16, m as i8, d as i8);
        let epoch = date(1970, 1, 1);
        let days = (jd - epoch).get_days();
        let iso = jd.iso_week_date();
        out.rec(&json!({"kind":"cal","id":format!("cal{i}"),"y":y,"mo":m,"d":d,"days":days,
            "wd": jd.weekday().to_monday_zero_offset(),
            "iy": iso.year(), "iw": iso.week(), "doy": jd.day_of_year(), "dim": jd.days_in_month()}));
    }

    let only = a.str("only", "");
    for c in 0..cases {
        let mut r = rng.fork();
        if !only.is_empty() && only != format!("c{c}") && only != format!("g{c}") {
            continue;
        }
        let focus = if r.chance(1, 2) { Some(r.below(9) as usize) } else { None };
        let (snaps, now) = gen_snaps(&mut r, focus);
        let opts = gen_opts(&mut r, &snaps, focus);
        let real_in: Vec<SnapshotFile> = snaps.iter().map(Snap::real).collect();
        let nowz = now.zoned();
        if c % 5 == 4 {
            // grouped call
            let crit = [r.chance(1, 2), r.chance(1, 2), r.chance(1, 2), r.chance(1, 3)];
            let criterion = SnapshotGroupCriterion::new()
                .hostname(crit[0])
                .label(crit[1])
                .paths(crit[2])
                .tags(crit[3]);
            let grouped = Grouped::from_items(real_in.clone(), criterion);
            let res = ForgetGroups::from_grouped_snapshots_with_retention(grouped, &opts.real(), &nowz);
            let sj: Vec<Value> = snaps.iter().map(|s| s.json(Some(crit))).collect();
            match res {
                Ok(fg) => {
                    let groups: Vec<Value> = fg
                        .0
                        .iter()
                        .map(|g| json!({"out": out_json(&real_in, &g.items)}))
                        .collect();
                    out.rec(&json!({"kind":"group","id":format!("g{c}"),"seed":seed,"cases":cases,"now":now.json(),
                        "opts":opts.json(),"snaps":sj,"groups":groups,"crit":crit}));
                }
                Err(_) => out.rec(&json!({"kind":"case","id":format!("g{c}"),"seed":seed,"cases":cases,"now":now.json(),
                        "opts":opts.json(),"snaps":sj,"out":[],"err":true})),
            }
            continue;
        }
        let sj: Vec<Value> = snaps.iter().map(|s| s.json(None)).collect();
        let res = opts.real().apply(real_in.clone(), &nowz);
        let mut rec = json!({"kind":"case","id":format!("c{c}"),"seed":seed,"cases":cases,"now":now.json(),
            "opts":opts.json(),"snaps":sj});
        match res {
            Ok(fs) => {
                rec["err"] = json!(false);
                rec["out"] = out_json(&real_in, &fs);
            }
            Err(_) => {
                rec["err"] = json!(true);
                rec["out"] = json!([]);
            }
        }
        // twin with one counter raised
        let set: Vec<usize> = (0..9).filter(|&k| opts.count[k] >= 0).collect();
        if !set.is_empty() && r.chance(1, 2) {
            let k = *r.pick(&set);
            let mut o2 = Opts { count: opts.count, within: opts.within.clone(), keep_ids: opts.keep_ids.clone(),
                keep_tags: opts.keep_tags.clone(), delete_unchanged: opts.delete_unchanged };
            o2.count[k] = if r.chance(1, 4) { -1 } else { opts.count[k] + r.range(1, 3) };
            if let Ok(fs2) = o2.real().apply(real_in.clone(), &nowz) {
                rec["opts2"] = o2.json();
                rec["out2"] = out_json(&real_in, &fs2);
            }
        }
        out.rec(&rec);
    }
    let n = out.finish();
    println!("{}", json!({"records": n, "cases": cases}));
}

