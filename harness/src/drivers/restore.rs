//! C14 driver: restore into destinations that already contain arbitrary entries (derived by mutating a restored copy
//! or unrelated), under the option grid; pre/post directory projections for RestoreTrace.tla.  Hostile trees
//! (names like "..", "/abs", "a/b") are planted with the harness's own pack writer and restored into a jail.
use std::{
    collections::BTreeMap,
    os::unix::{
        ffi::OsStrExt,
        fs::{MetadataExt, PermissionsExt, symlink},
    },
    path::{Path, PathBuf},
};

use rustic_core::{
    BackupOptions, FileType, Id, PathList, RestoreOptions,
    repofile::{MasterKey, SnapshotFile},
};
use serde_json::{Value, json};

use crate::{
    abs::{Enc, IdxPack, sha256},
    scn::{self, Outcome},
    store::MemStore,
    util::{Args, Out, Rng},
};

fn hexs(b: &[u8]) -> String {
    hex::encode(b)
}

/// projection: relative path (hex) -> [t, size, sha, target, mode, mtime]
fn project(root: &Path) -> BTreeMap<String, Value> {
    fn walk(base: &Path, dir: &Path, out: &mut BTreeMap<String, Value>, inodes: &mut BTreeMap<(u64, u64), String>) {
        let Ok(rd) = std::fs::read_dir(dir) else { return };
        let mut ents: Vec<_> = rd.flatten().map(|e| e.path()).collect();
        ents.sort();
        for p in ents {
            let rel = p.strip_prefix(base).unwrap().as_os_str().as_bytes().to_vec();
            let Ok(md) = std::fs::symlink_metadata(&p) else { continue };
            let ft = md.file_type();
            let mut v = json!({"t": "file", "size": "0", "sha": "", "target": "", "mode": "", "hl": "", "mtime": format!("{}.{:09}", md.mtime(), md.mtime_nsec())});
            if ft.is_file() && md.nlink() > 1 {
                // hard link group: the first path (in walk order) that has this inode
                v["hl"] = json!(inodes.entry((md.dev(), md.ino())).or_insert_with(|| hexs(&rel)).clone());
            }
            if ft.is_symlink() {
                v["t"] = json!("symlink");
                v["target"] = json!(hexs(std::fs::read_link(&p).unwrap().as_os_str().as_bytes()));
            } else if ft.is_dir() {
                v["t"] = json!("dir");
                v["mode"] = json!(format!("{:o}", md.permissions().mode() & 0o7777));
            } else {
                let data = std::fs::read(&p).unwrap_or_default();
                v["size"] = json!(data.len().to_string());
                v["sha"] = json!(sha256(&data).to_hex().as_str()[..16]);
                v["mode"] = json!(format!("{:o}", md.permissions().mode() & 0o7777));
            }
            _ = out.insert(hexs(&rel), v);
            if ft.is_dir() {
                walk(base, &p, out, inodes);
            }
        }
    }
    let mut out = BTreeMap::new();
    walk(root, root, &mut out, &mut BTreeMap::new());
    out
}

fn tojson(m: &BTreeMap<String, Value>) -> Value {
    Value::Array(m.iter().map(|(k, v)| json!({"p": k, "a": v})).collect())
}

fn build_source(root: &Path, rng: &mut Rng) {
    std::fs::create_dir_all(root.join("d/e")).unwrap();
    std::fs::create_dir_all(root.join("emptydir")).unwrap();
    // siblings of directories whose names continue with a byte below '/': listing order and byte order of the paths differ
    std::fs::create_dir_all(root.join("d-x")).unwrap();
    let files = [("a", 300), ("b", 0), ("d/c", 64), ("d/e/f", 1000), ("d/zeros", 512), ("g", 129),
                 ("d.bak", 70), ("d-x/k", 33), ("d e", 20), ("d+", 10), ("d/e.x", 40), ("emptydir,v", 5)];
    for (n, len) in files {
        let data = if n == "d/zeros" {
            // zero blocks in the middle (sparse candidates)
            let mut v = rng.bytes(len);
            for b in v.iter_mut().skip(128).take(256) {
                *b = 0;
            }
            v
        } else {
            rng.bytes(len)
        };
        std::fs::write(root.join(n), data).unwrap();
    }
    // hard links: g = d/g-link = emptydir/g-link2
    std::fs::hard_link(root.join("g"), root.join("d/g-link")).unwrap();
    std::fs::hard_link(root.join("g"), root.join("d/e/g-link2")).unwrap();
    _ = symlink("a", root.join("link"));
    _ = symlink("d/e", root.join("d/dirlink"));
    for (i, n) in ["a", "b", "d/c", "d/e/f", "d/zeros", "g", "d", "d/e", "emptydir"].iter().enumerate() {
        let ft = filetime::FileTime::from_unix_time(1_500_000_000 + i as i64 * 1000, 5000 * i as u32);
        _ = filetime::set_file_times(root.join(n), ft, ft);
    }
}

/// things outside the destination which pre-existing symlinks point to
fn victims(dest: &Path) -> PathBuf {
    let v = PathBuf::from(format!("{}.victims", dest.display()));
    if !v.exists() {
        std::fs::create_dir_all(v.join("vdir/keep")).unwrap();
        std::fs::write(v.join("vfile"), b"victim file outside the destination").unwrap();
        std::fs::write(v.join("vdir/keep/inner"), b"victim inside an outside directory").unwrap();
        std::fs::set_permissions(v.join("vfile"), std::fs::Permissions::from_mode(0o600)).unwrap();
    }
    v
}

/// mutate a restored copy into a "pre-existing destination"
fn mutate(dest: &Path, rng: &mut Rng, kind: u64) -> String {
    let keep_mtime = |p: &Path, f: &dyn Fn()| {
        let md = std::fs::symlink_metadata(p).unwrap();
        let ft = filetime::FileTime::from_last_modification_time(&md);
        f();
        _ = filetime::set_file_times(p, ft, ft);
    };
    let pick = |rng: &mut Rng| -> &'static str { *rng.pick(&["a", "d/c", "d/e/f", "d/zeros", "g"]) };
    match kind % 19 {
        0 => "identical".into(),
        1 => {
            // same size, other content, same mtime: only verification can notice
            let f = pick(rng);
            let p = dest.join(f);
            let len = std::fs::metadata(&p).unwrap().len() as usize;
            let data = rng.bytes(len);
            keep_mtime(&p, &|| std::fs::write(&p, &data).unwrap());
            format!("modify-same-size-same-mtime {f}")
        }
        2 => {
            let f = pick(rng);
            let p = dest.join(f);
            let len = std::fs::metadata(&p).unwrap().len() as usize;
            std::fs::write(&p, rng.bytes(len)).unwrap();
            format!("modify-same-size-new-mtime {f}")
        }
        3 => {
            let f = pick(rng);
            let p = dest.join(f);
            let d = std::fs::read(&p).unwrap();
            std::fs::write(&p, &d[..d.len() / 2]).unwrap();
            format!("truncate {f}")
        }
        4 => {
            let f = pick(rng);
            let p = dest.join(f);
            let mut d = std::fs::read(&p).unwrap();
            d.extend(rng.bytes(77));
            std::fs::write(&p, d).unwrap();
            format!("extend {f}")
        }
        5 => {
            let f = pick(rng);
            std::fs::remove_file(dest.join(f)).unwrap();
            std::fs::create_dir_all(dest.join(f).join("inner")).unwrap();
            std::fs::write(dest.join(f).join("inner/x"), b"x").unwrap();
            format!("file-replaced-by-dir {f}")
        }
        6 => {
            std::fs::remove_dir_all(dest.join("d/e")).unwrap();
            std::fs::write(dest.join("d/e"), b"now a file").unwrap();
            "dir-replaced-by-file d/e".into()
        }
        7 => {
            let f = pick(rng);
            std::fs::remove_file(dest.join(f)).unwrap();
            _ = symlink("/nonexistent/target", dest.join(f));
            format!("file-replaced-by-symlink {f}")
        }
        8 => {
            std::fs::remove_file(dest.join("link")).unwrap();
            std::fs::write(dest.join("link"), b"was a symlink").unwrap();
            "symlink-replaced-by-file link".into()
        }
        9 => {
            std::fs::remove_file(dest.join("link")).unwrap();
            _ = symlink("other-target", dest.join("link"));
            "symlink-other-target link".into()
        }
        10 => {
            let f = pick(rng);
            std::fs::remove_file(dest.join(f)).unwrap();
            format!("deleted {f}")
        }
        11 => {
            std::fs::write(dest.join("extra-file"), b"extra").unwrap();
            std::fs::create_dir_all(dest.join("extra-dir/sub")).unwrap();
            std::fs::write(dest.join("extra-dir/sub/y"), b"y").unwrap();
            std::fs::write(dest.join("d/extra-in-d"), b"z").unwrap();
            std::fs::write(dest.join("d/zzz-last-in-d"), b"z").unwrap();
            std::fs::write(dest.join("d/e/zzz-last-in-e"), b"z").unwrap();
            _ = std::fs::create_dir_all(dest.join("emptydir/now-filled"));
            _ = symlink("a", dest.join("extra-link"));
            "extras".into()
        }
        18 => {
            // non-zero bytes where the snapshot has zero blocks in a file that is longer / shorter than the snapshot's
            let p = dest.join("d/zeros");
            let len = std::fs::metadata(&p).unwrap().len() as usize;
            let newlen = if rng.below(2) == 0 { len + 1 + rng.below(200) as usize } else { len - 1 - rng.below(100) as usize };
            std::fs::write(&p, vec![0xABu8; newlen]).unwrap();
            format!("nonzero-over-zero-blocks-other-size d/zeros {newlen}")
        }
        12 => {
            // non-zero bytes where the snapshot has zero blocks, same size, new mtime
            let p = dest.join("d/zeros");
            let len = std::fs::metadata(&p).unwrap().len() as usize;
            std::fs::write(&p, vec![0xAAu8; len]).unwrap();
            "nonzero-over-zero-blocks d/zeros".into()
        }
        14 => {
            // a symlink to an EXISTING file outside the destination where the snapshot has a regular file
            let f = pick(rng);
            let victim = victims(dest).join("vfile");
            std::fs::remove_file(dest.join(f)).unwrap();
            _ = symlink(&victim, dest.join(f));
            format!("file-replaced-by-symlink-to-outside-file {f}")
        }
        15 => {
            // a symlink to an EXISTING directory outside the destination where the snapshot has a directory
            let victim = victims(dest).join("vdir");
            std::fs::remove_dir_all(dest.join("d/e")).unwrap();
            _ = symlink(&victim, dest.join("d/e"));
            "dir-replaced-by-symlink-to-outside-dir d/e".into()
        }
        16 => {
            // a random subset of the 64-byte chunks of a multi-chunk file overwritten (same size, new mtime): restore takes the
            // intact chunks from the existing file and the others from the packs
            let f = *rng.pick(&["a", "d/e/f", "d/zeros", "g"]);
            let p = dest.join(f);
            let mut d = std::fs::read(&p).unwrap();
            let n = d.len().div_ceil(64);
            let mut hit = Vec::new();
            for c in 0..n {
                if rng.chance(1, 2) {
                    hit.push(c);
                    let end = ((c + 1) * 64).min(d.len());
                    for b in &mut d[c * 64..end] {
                        *b ^= 0x5A;
                    }
                }
            }
            std::fs::write(&p, &d).unwrap();
            format!("chunks-overwritten {f} {hit:?}")
        }
        17 => {
            // same size, other content, mtime in the same second but with other nanoseconds: not "unchanged"
            let f = pick(rng);
            let p = dest.join(f);
            let md = std::fs::symlink_metadata(&p).unwrap();
            let len = md.len() as usize;
            std::fs::write(&p, rng.bytes(len)).unwrap();
            let ns = (md.mtime_nsec() as u32 + 1 + rng.below(900_000_000) as u32) % 1_000_000_000;
            let ft = filetime::FileTime::from_unix_time(md.mtime(), ns);
            _ = filetime::set_file_times(&p, ft, ft);
            format!("modify-same-size-same-second {f}")
        }
        _ => {
            // several at once
            let a = mutate(dest, rng, 2);
            let b = mutate(dest, rng, 11);
            let c = mutate(dest, rng, 10);
            format!("{a} + {b} + {c}")
        }
    }
}

struct Snap {
    store: MemStore,
    key: MasterKey,
    snap: SnapshotFile,
}

fn make_snapshot(src: &Path) -> Snap {
    let store = MemStore::new();
    let key = MasterKey::new();
    let h = store.handle(0);
    _ = scn::init(&h, &key, &scn::small_config(64, 400)).unwrap();
    let repo = scn::open(&h, &key).unwrap().to_indexed_ids().unwrap();
    let opts = BackupOptions::default().as_path(PathBuf::from("s"));
    let snap = repo.backup(&opts, &PathList::from_string(src.to_str().unwrap()).unwrap(), scn::snap_at(1_700_000_000)).unwrap();
    Snap { store, key, snap }
}

fn restore(s: &Snap, snap: &SnapshotFile, dest: &Path, o: &Value) -> Outcome<()> {
    let h = s.store.handle(5);
    let mut opts = RestoreOptions::default()
        .delete(o["delete"].as_bool().unwrap())
        .verify_existing(o["verify"].as_bool().unwrap())
        .no_ownership(o["no_ownership"].as_bool().unwrap());
    if o["sparse"].as_bool().unwrap() {
        opts.sparse = Some(serde_json::from_str("\"ByContent\"").unwrap());
    }
    let dest = dest.to_path_buf();
    let snap = snap.clone();
    scn::guard(move || {
        let repo = scn::open(&h, &s.key)?.to_indexed()?;
        let node = repo.node_from_snapshot_and_path(&snap, "s")?;
        let ls = repo.ls(&node, &rustic_core::LsOptions::default())?;
        let d = rustic_core::LocalDestination::new(dest.to_str().unwrap(), true, false)?;
        let plan = repo.prepare_restore(&opts, ls.clone(), &d, false)?;
        repo.restore(plan, &opts, ls, &d)
    })
}

/// a snapshot whose root tree contains a hostile node name, written with the harness's own encoder
fn hostile_snapshot(s: &Snap, name: &str, as_dir: bool, rng: &mut Rng) -> SnapshotFile {
    let rk = scn::repo_key(&s.key);
    let payload = b"pwned".to_vec();
    let did = sha256(&payload);
    let inner = json!({"nodes":[{"name":"inner","type":"file","mode":420,"mtime":"2020-01-01T00:00:00Z","atime":"2020-01-01T00:00:00Z","ctime":"2020-01-01T00:00:00Z",
        "uid":0,"gid":0,"size":5,"content":[did.to_hex().as_str()]}]});
    let inner_b = serde_json::to_vec(&inner).unwrap();
    let inner_id = sha256(&inner_b);
    let node = if as_dir {
        json!({"name":name,"type":"dir","mode":2147484141u32,"mtime":"2020-01-01T00:00:00Z","atime":"2020-01-01T00:00:00Z","ctime":"2020-01-01T00:00:00Z","uid":0,"gid":0,
               "subtree":inner_id.to_hex().as_str()})
    } else {
        json!({"name":name,"type":"file","mode":420,"mtime":"2020-01-01T00:00:00Z","atime":"2020-01-01T00:00:00Z","ctime":"2020-01-01T00:00:00Z","uid":0,"gid":0,"size":5,
               "content":[did.to_hex().as_str()]})
    };
    let root = json!({"nodes":[{"name":"ok","type":"file","mode":420,"mtime":"2020-01-01T00:00:00Z","atime":"2020-01-01T00:00:00Z","ctime":"2020-01-01T00:00:00Z","uid":0,"gid":0,"size":5,
        "content":[did.to_hex().as_str()]}, node]});
    let root_b = serde_json::to_vec(&root).unwrap();
    let root_id = sha256(&root_b);
    let mut enc = Enc { key: &rk, rng };
    let (pid, pbytes, hdr) = enc.pack(&[(false, payload, false)]);
    let (tid, tbytes, thdr) = enc.pack(&[(true, root_b, false), (true, inner_b, false)]);
    s.store.put_raw(FileType::Pack, pid, pbytes.clone());
    s.store.put_raw(FileType::Pack, tid, tbytes.clone());
    let packs = vec![
        IdxPack { id: pid, blobs: hdr, time: None, size: Some(pbytes.len() as u32), marked: false },
        IdxPack { id: tid, blobs: thdr, time: None, size: Some(tbytes.len() as u32), marked: false },
    ];
    let (iid, ibytes) = enc.file(&Enc::index_json(&packs));
    s.store.put_raw(FileType::Index, iid, ibytes);
    let mut sn = SnapshotFile::default();
    sn.tree = root_id.into();
    sn.id = Id::random().into();
    sn
}

pub fn run(a: &Args) {
    scn::silence_panics();
    let mut out = Out::create(&a.str("out", "restore.ndjson"));
    let seed = a.num("seed", 1);
    let mut rng = Rng::new(seed ^ 0xC14);
    let work = PathBuf::from(a.str("work", "/verif/out/C14/tmp"));
    _ = std::fs::remove_dir_all(&work);
    std::fs::create_dir_all(&work).unwrap();
    let src = work.join("src");
    build_source(&src, &mut rng);
    let s = make_snapshot(&src);
    let snap_proj = project(&src);
    let ncases = a.num("cases", 40);
    let mut n = 0;
    for c in 0..ncases {
        let o = json!({"delete": c % 2 == 1, "verify": (c / 2) % 2 == 1, "sparse": (c / 4) % 2 == 1, "no_ownership": (c / 8) % 2 == 1});
        let dest = work.join(format!("dst{c}"));
        // start from a correct restored copy (or an empty / unrelated directory), then mutate
        let base_kind = rng.below(10);
        let what;
        if base_kind == 0 {
            std::fs::create_dir_all(&dest).unwrap();
            what = "empty destination".to_string();
        } else if base_kind == 1 {
            std::fs::create_dir_all(dest.join("unrelated/x")).unwrap();
            std::fs::write(dest.join("unrelated/x/file"), b"unrelated").unwrap();
            std::fs::write(dest.join("a"), b"unrelated a").unwrap();
            what = "unrelated tree".to_string();
        } else {
            let r0 = restore(&s, &s.snap, &dest, &json!({"delete":true,"verify":true,"sparse":false,"no_ownership":false}));
            if !r0.is_ok() {
                out.rec(&json!({"kind":"restore","id":format!("r{c}"),"what":"initial restore failed","outcome":r0.class(),"msg":r0.msg(),
                    "opts":o,"snap":[],"pre":[],"post":[],"outside_pre":[],"outside_post":[]}));
                continue;
            }
            let mk = c + rng.below(19);
            what = mutate(&dest, &mut rng, mk);
        }
        let pre = project(&dest);
        let vdir = victims(&dest);
        let outside_pre = project(&vdir);
        let r = restore(&s, &s.snap, &dest, &o);
        let post = project(&dest);
        let outside_post = project(&vdir);
        out.rec(&json!({"kind":"restore","id":format!("r{c}"),"seed":seed,"what":what,"opts":o,"outcome":r.class(),"msg":r.msg(),
            "snap":tojson(&snap_proj),"pre":tojson(&pre),"post":tojson(&post),
            "outside_pre":tojson(&outside_pre),"outside_post":tojson(&outside_post)}));
        _ = std::fs::remove_dir_all(&vdir);
        n += 1;
        // restore must be able to delete what it created, whatever modes
        _ = std::fs::remove_dir_all(&dest);
    }
    // hostile names
    let abs_target = work.join("abs-target");
    let names: Vec<(String, bool)> = vec![
        ("..".into(), false), ("..".into(), true), ("../escaped".into(), false), ("../escaped-dir".into(), true),
        (abs_target.join("x").to_string_lossy().to_string(), false), (abs_target.to_string_lossy().to_string(), true),
        ("sub/inside".into(), false), (".".into(), true), (String::new(), false), ("a/../../up".into(), false),
    ];
    for (k, (name, as_dir)) in names.iter().enumerate() {
        let hs = hostile_snapshot(&s, name, *as_dir, &mut rng);
        let jail = work.join(format!("jail{k}"));
        let dest = jail.join("dest");
        std::fs::create_dir_all(&dest).unwrap();
        std::fs::write(jail.join("sentinel"), b"sentinel").unwrap();
        let outside = |jail: &Path| -> BTreeMap<String, Value> {
            let mut m = project(jail);
            m.retain(|k, _| {
                let p = hex::decode(k).unwrap();
                !(p == b"dest" || p.starts_with(b"dest/"))
            });
            m
        };
        let before = outside(&jail);
        let abs_before = abs_target.exists();
        let h = s.store.handle(6);
        let r = {
            let (key, dest2, hs2) = (s.key.clone(), dest.clone(), hs.clone());
            scn::guard(move || {
                let repo = scn::open(&h, &key)?.to_indexed()?;
                let node = repo.node_from_snapshot_and_path(&hs2, "")?;
                let ls = repo.ls(&node, &rustic_core::LsOptions::default())?;
                let d = rustic_core::LocalDestination::new(dest2.to_str().unwrap(), true, false)?;
                let opts = RestoreOptions::default().no_ownership(true);
                let plan = repo.prepare_restore(&opts, ls.clone(), &d, false)?;
                repo.restore(plan, &opts, ls, &d)
            })
        };
        let after = outside(&jail);
        out.rec(&json!({"kind":"jail","id":format!("j{k}"),"name":name,"as_dir":as_dir,"outcome":r.class(),"msg":r.msg(),
            "outside_before":tojson(&before),"outside_after":tojson(&after),"abs_created": !abs_before && abs_target.exists(),
            "inside":tojson(&project(&dest))}));
        _ = std::fs::remove_dir_all(&abs_target);
        n += 1;
    }
    _ = std::fs::remove_dir_all(&work);
    _ = out.finish();
    println!("{}", json!({"records": n}));
}
