//! C18 driver: applies option records of the TLC grid at init and as a change, logs stored configuration
//! before/after (read with the independent decoder), storage writes, and the outcome of a smoke run
//! (backup / check / read back / prune plan) under catch_unwind; also the prune-limit grid.
use std::collections::BTreeMap;

use bytesize::ByteSize;
use rustic_core::{
    BackupOptions, ConfigOptions, FileType, Id, LimitOption, PruneOptions,
    repofile::{Chunker, MasterKey},
};
use serde_json::{Value, json};

use crate::{
    abs::RepoKey,
    scn::{self, Entry, MemSource, Outcome},
    store::{MemStore, OpKind},
    util::{Args, Out, Rng},
};

const FIELDS: [&str; 16] = [
    "version", "chunker", "chunk_size", "chunk_min_size", "chunk_max_size", "compression", "append_only",
    "treepack_size", "treepack_growfactor", "treepack_size_limit", "datapack_size", "datapack_growfactor",
    "datapack_size_limit", "min_packsize_tolerate_percent", "max_packsize_tolerate_percent", "extra_verify",
];

fn build_opts(o: &Value) -> ConfigOptions {
    let mut c = ConfigOptions::default();
    let s = |k: &str| o.get(k).and_then(Value::as_str).map(ToString::to_string);
    let n = |k: &str| s(k).map(|v| v.parse::<i128>().unwrap());
    let bs = |k: &str| n(k).map(|v| ByteSize(v as u64));
    c.set_version = n("version").map(|v| v as u32);
    c.set_chunker = s("chunker").map(|v| if v == "rabin" { Chunker::Rabin } else { Chunker::FixedSize });
    c.set_chunk_size = bs("chunk_size");
    c.set_chunk_min_size = bs("chunk_min_size");
    c.set_chunk_max_size = bs("chunk_max_size");
    c.set_compression = n("compression").map(|v| v as i32);
    c.set_append_only = s("append_only").map(|v| v == "true");
    c.set_treepack_size = bs("treepack_size");
    c.set_treepack_growfactor = n("treepack_growfactor").map(|v| v as u32);
    c.set_treepack_size_limit = bs("treepack_size_limit");
    c.set_datapack_size = bs("datapack_size");
    c.set_datapack_growfactor = n("datapack_growfactor").map(|v| v as u32);
    c.set_datapack_size_limit = bs("datapack_size_limit");
    c.set_min_packsize_tolerate_percent = n("min_packsize_tolerate_percent").map(|v| v as u32);
    c.set_max_packsize_tolerate_percent = n("max_packsize_tolerate_percent").map(|v| v as u32);
    c.set_extra_verify = s("extra_verify").map(|v| v == "true");
    c
}

/// the stored configuration as a record of strings ("none" = field absent; "absent" everywhere = no config stored)
fn stored(store: &MemStore, rk: &RepoKey) -> Value {
    let v: Value = match store.get_raw(FileType::Config, &Id::default()) {
        None => {
            let mut m = serde_json::Map::new();
            for f in FIELDS {
                _ = m.insert(f.to_string(), json!("absent"));
            }
            return Value::Object(m);
        }
        Some(bytes) => rk
            .open_file(&bytes)
            .and_then(|pt| serde_json::from_slice(&pt).ok())
            .unwrap_or(Value::Null),
    };
    let mut m = serde_json::Map::new();
    for f in FIELDS {
        let x = v.get(f).map_or("none".to_string(), |x| match x {
            Value::String(s) => s.clone(),
            Value::Null => "none".into(),
            other => other.to_string(),
        });
        _ = m.insert(f.to_string(), json!(x));
    }
    Value::Object(m)
}

fn smoke_source(rng: &mut Rng) -> MemSource {
    MemSource::new(vec![
        Entry::file("empty", vec![]),
        Entry::file("small", rng.bytes(10)),
        Entry::file("mid", rng.bytes(200)),
        Entry::dir("d"),
        Entry::file("d/big", rng.bytes(5000)),
        Entry::file("d/zeros", vec![0u8; 700]),
    ])
}

/// backup / check / read back / prune plan on a repository with the configuration in `store`
fn smoke(store: &MemStore, key: &MasterKey, rng: &mut Rng) -> (String, String) {
    let src = smoke_source(rng);
    let h = store.handle(7);
    let res = scn::guard(|| {
        let repo = scn::open(&h, key)?.to_indexed_ids()?;
        let snap = scn::backup_mem(&repo, &src, &BackupOptions::default(), scn::snap_at(5000))?;
        let repo = scn::open(&h, key)?;
        let errs = scn::check_errors(&repo)?;
        if !errs.is_empty() {
            return Ok(format!("check:{}", errs[0]));
        }
        let _plan = repo.prune_plan(&PruneOptions::default())?;
        let full = repo.to_indexed()?;
        let back = scn::read_back(&full, &snap)?;
        let mut want: BTreeMap<String, Vec<u8>> = BTreeMap::new();
        for e in &src.entries {
            if let scn::Kind::File(d) = &e.kind {
                _ = want.insert(format!("src/{}", e.path), d.clone());
            }
        }
        let got: BTreeMap<String, Vec<u8>> = back.into_iter().filter(|(_, t, _)| t == "file").map(|(p, _, d)| (p, d)).collect();
        Ok(if got == want { "ok".to_string() } else { "mismatch".to_string() })
    });
    match res {
        Outcome::Ok(s) if s == "ok" => ("ok".into(), "ok".into()),
        Outcome::Ok(s) => (s.clone(), if s == "mismatch" { "mismatch".into() } else { "err".into() }),
        Outcome::Err(e) => (format!("err:{e}"), "err".into()),
        Outcome::Panic(p) => (format!("panic:{p}"), "panic".into()),
    }
}

fn base_opts(which: u64) -> ConfigOptions {
    let mut c = ConfigOptions::default();
    if which % 4 >= 2 {
        // fixed-size chunking with sizes that content-defined chunking could not work with: a later change that
        // only switches the chunker has to be judged against these stored values
        c.set_chunker = Some(Chunker::FixedSize);
        c.set_chunk_size = Some(ByteSize(if which % 4 == 2 { 1000 } else { 65536 }));
        c.set_datapack_size = Some(ByteSize(3000));
        c.set_treepack_size = Some(ByteSize(2000));
    } else if which % 2 == 0 {
        c.set_extra_verify = Some(false);
        c.set_compression = Some(3);
        c.set_treepack_size = Some(ByteSize(2000));
        c.set_datapack_size = Some(ByteSize(3000));
        c.set_min_packsize_tolerate_percent = Some(10);
    } else {
        c.set_chunker = Some(Chunker::FixedSize);
        c.set_chunk_size = Some(ByteSize(64));
        c.set_append_only = Some(false);
        c.set_extra_verify = Some(true);
        c.set_datapack_growfactor = Some(1);
        c.set_max_packsize_tolerate_percent = Some(300);
        c.set_datapack_size_limit = Some(ByteSize(100_000));
    }
    c
}

fn case(v: &Value, out: &mut Out, rng: &mut Rng) {
    let id = v["id"].as_str().unwrap();
    let phase = v["phase"].as_str().unwrap();
    let opts = build_opts(&v["opts"]);
    let key = MasterKey::new();
    let rk = scn::repo_key(&key);
    let store = MemStore::new();
    let h = store.handle(0);
    let (before, result, msg);
    if phase == "init" {
        before = stored(&store, &rk);
        let r = scn::guard(|| scn::init(&h, &key, &opts).map(|_| ()));
        result = r.class();
        msg = r.msg();
    } else {
        let which = v.get("base").and_then(Value::as_u64).unwrap_or(0);
        _ = scn::init(&h, &key, &base_opts(which)).unwrap();
        before = stored(&store, &rk);
        store.clear_log();
        // "opts_first": another change applied before, THROUGH THE SAME HANDLE (a refused change must leave nothing behind
        // in the handle either); its result decides which fields count as named
        let first = v.get("opts_first").map(build_opts);
        let mut first_res = String::new();
        let r = scn::guard(|| {
            let mut repo = scn::open(&h, &key)?;
            if let Some(f) = &first {
                first_res = match repo.apply_config(f) {
                    Ok(_) => "ok".to_string(),
                    Err(_) => "err".to_string(),
                };
            }
            repo.apply_config(&opts)
        });
        result = r.class();
        msg = r.msg();
        if first.is_some() {
            let mut named = v["opts"].clone();
            if first_res == "ok" {
                for (k, val) in v["opts_first"].as_object().unwrap() {
                    if named.get(k).is_none() {
                        named[k] = val.clone();
                    }
                }
            }
            let wrote = store.log().iter().any(|o| o.kind == OpKind::Write && o.tpe == 0);
            let after = stored(&store, &rk);
            let (smoke_res, smoke_class) = if result == "ok" { smoke(&store, &key, rng) } else { ("skipped".into(), "skipped".into()) };
            // (Untouched is judged for the pair: nothing may be written only if both were refused)
            let res2 = if result != "ok" && first_res == "ok" { "ok" } else { result };
            out.rec(&json!({"kind":"config","id":id,"phase":"change-after-change","opts":named,"first":first_res,"before":before,"after":after,"result":res2,
                            "msg":msg.chars().take(200).collect::<String>(),"wrote":wrote,"smoke":if res2 == "ok" && result != "ok" { "ok".to_string() } else { smoke_res.chars().take(200).collect::<String>() },
                            "smokeclass":smoke_class}));
            return;
        }
    }
    let wrote = store.log().iter().any(|o| o.kind == OpKind::Write && o.tpe == 0 && phase != "init");
    let after = stored(&store, &rk);
    let (smoke_res, smoke_class) = if result == "ok" { smoke(&store, &key, rng) } else { ("skipped".into(), "skipped".into()) };
    out.rec(&json!({"kind":"config","id":id,"phase":phase,"opts":v["opts"],"before":before,"after":after,"result":result,
                    "msg":msg.chars().take(200).collect::<String>(),"wrote":wrote,"smoke":smoke_res.chars().take(200).collect::<String>(),
                    "smokeclass":smoke_class}));
}

fn prune_case(v: &Value, out: &mut Out, rng: &mut Rng) {
    let id = v["id"].as_str().unwrap();
    let lim = |k: &str| -> LimitOption {
        let s = v[k].as_str().unwrap();
        match s.strip_suffix('%') {
            Some(p) => LimitOption::Percentage(p.parse().unwrap()),
            None if s == "unlimited" => LimitOption::Unlimited,
            None => LimitOption::Size(ByteSize(s.parse().unwrap())),
        }
    };
    let b = |k: &str| v.get(k).and_then(Value::as_bool).unwrap_or(false);
    let po = PruneOptions::default()
        .max_unused(lim("max_unused"))
        .max_repack(lim("max_repack"))
        .repack_all(b("repack_all"))
        .repack_uncompressed(b("repack_uncompressed"))
        .no_resize(b("no_resize"))
        .instant_delete(b("instant"))
        .keep_delete(rustic_core::jiff::Span::new());
    let key = MasterKey::new();
    let store = MemStore::new();
    let h = store.handle(0);
    _ = scn::init(&h, &key, &scn::small_config(64, 300)).unwrap();
    // two snapshots sharing data, the first forgotten: partly used packs, unused packs
    let f1 = MemSource::new(vec![Entry::file("a", rng.bytes(400)), Entry::file("b", rng.bytes(300))]);
    let mut e2 = f1.entries.clone();
    e2[0] = Entry::file("a", rng.bytes(350));
    e2[0].mtime += 5;
    let f2 = MemSource::new(e2);
    let repo = scn::open(&h, &key).unwrap().to_indexed_ids().unwrap();
    let s1 = scn::backup_mem(&repo, &f1, &BackupOptions::default(), scn::snap_at(1000)).unwrap();
    let repo = scn::open(&h, &key).unwrap().to_indexed_ids().unwrap();
    let s2 = scn::backup_mem(&repo, &f2, &BackupOptions::default(), scn::snap_at(2000)).unwrap();
    scn::open(&h, &key).unwrap().delete_snapshots(&[s1.id]).unwrap();
    let res = scn::guard(|| {
        let r = scn::open(&h, &key)?;
        let plan = r.prune_plan(&po)?;
        r.prune(&po, plan)
    });
    // whatever the limits: the remaining snapshot must still read back (C02 flavour, cheap to assert here)
    let after = scn::guard(|| {
        let r = scn::open(&h, &key)?;
        let clean = scn::check_clean(&r)?;
        let full = r.to_indexed()?;
        let n = scn::read_back(&full, &s2)?.len();
        Ok((clean, n))
    });
    let smoke = match &after {
        Outcome::Ok((true, 3)) => "ok".to_string(),
        Outcome::Ok(x) => format!("bad:{x:?}"),
        o => format!("{}:{}", o.class(), o.msg()),
    };
    let sc = match &after {
        Outcome::Ok((true, 3)) => "ok",
        Outcome::Panic(_) => "panic",
        _ => "err",
    };
    out.rec(&json!({"kind":"prune","id":id,"opts":v,"result":res.class(),"msg":res.msg().chars().take(200).collect::<String>(),
                    "smoke":smoke,"smokeclass":sc}));
}

pub fn run(a: &Args) {
    scn::silence_panics();
    let mut out = Out::create(&a.str("out", "config.ndjson"));
    let mut rng = Rng::new(a.num("seed", 1) ^ 0xC18);
    let mut n = 0;
    for line in std::fs::read_to_string(a.str("cases", "")).unwrap().lines() {
        if line.trim().is_empty() {
            continue;
        }
        let v: Value = serde_json::from_str(line).unwrap();
        if v["kind"] == "prune" {
            prune_case(&v, &mut out, &mut rng);
        } else {
            case(&v, &mut out, &mut rng);
        }
        n += 1;
    }
    _ = out.finish();
    println!("{}", json!({"cases": n}));
}
