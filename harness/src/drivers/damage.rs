//! C05 driver: repositories produced by histories; every stored file x fault kind applied to a copy; the real
//! check --read-data verdict and the real read-back of every snapshot go to CheckTrace.tla.
use std::collections::BTreeMap;

use bytes::Bytes;
use rustic_core::{FileType, Id, repofile::MasterKey};
use serde_json::{Value, json};

use crate::{
    abs::{Enc, Namer, parse_index, parse_pack},
    drivers::repo::run_program_world,
    scn::{self, Outcome},
    store::{Map, MemStore, tname},
    util::{Args, Out, Rng},
    world::content_digest,
};

fn verdict(map: &Map, key: &MasterKey, expected: &BTreeMap<Id, BTreeMap<String, (String, String)>>) -> (String, String, serde_json::Map<String, Value>) {
    let st = MemStore::from_map(map.clone());
    st.0.log_reads.store(false, std::sync::atomic::Ordering::Relaxed);
    let h = st.handle(1);
    // the store is opened without a cache: every second verdict is taken with trust_cache set
    static TURN: std::sync::atomic::AtomicUsize = std::sync::atomic::AtomicUsize::new(0);
    let trust = (TURN.fetch_add(1, std::sync::atomic::Ordering::Relaxed).wrapping_mul(2654435761) >> 7) & 1 == 1;
    let (v, msg) = match scn::guard(|| scn::open(&h, key).and_then(|r| scn::check_errors_opts(&r, trust))) {
        Outcome::Ok(e) if e.is_empty() => ("clean".to_string(), String::new()),
        Outcome::Ok(e) => ("error".to_string(), e[0].clone()),
        Outcome::Err(e) => ("error".to_string(), format!("check failed: {e}")),
        Outcome::Panic(p) => ("panic".to_string(), p),
    };
    let mut rest = serde_json::Map::new();
    // every snapshot file visible in the damaged store
    let repo = scn::guard(|| scn::open(&h, key)?.to_indexed());
    for ((t, id), _) in map.iter().filter(|(k, _)| k.0 == 3) {
        let _ = t;
        let name = id.to_hex().as_str()[..8].to_string();
        let r = match &repo {
            Outcome::Ok(repo) => match scn::guard(|| repo.get_snapshots(&[id.to_hex().as_str()])) {
                Outcome::Ok(sn) if sn.len() == 1 => match scn::guard(|| scn::read_back(repo, &sn[0])) {
                    Outcome::Ok(entries) => match expected.get(id) {
                        Some(exp) if *exp == content_digest(&entries) => "ok",
                        Some(_) => "bad",
                        None => "unknown",
                    },
                    Outcome::Panic(_) => "panic",
                    _ => "err",
                },
                Outcome::Panic(_) => "panic",
                _ => "err",
            },
            Outcome::Panic(_) => "panic",
            _ => "err",
        };
        _ = rest.insert(name, json!(r));
    }
    (v, msg, rest)
}

struct Fault {
    what: String,
    map: Map,
}

fn faults(base: &Map, key: &MasterKey, rng: &mut Rng, nm: &mut Namer, full: bool) -> Vec<(String, String, Fault)> {
    let rk = scn::repo_key(key);
    let mut out = Vec::new();
    let files: Vec<((u8, Id), Bytes)> = base.iter().filter(|(k, _)| k.0 != 0).map(|(k, v)| (*k, v.clone())).collect();
    for ((t, id), data) in &files {
        let tn = tname(*t);
        let kind = match *t { 4 => 'p', 1 => 'i', 3 => 's', _ => 'k' };
        let fname = nm.name(kind, id);
        let mut push = |what: String, newdata: Option<Bytes>| {
            let mut m = base.clone();
            match newdata {
                Some(d) => _ = m.insert((*t, *id), d),
                None => _ = m.remove(&(*t, *id)),
            }
            out.push((tn.to_string(), fname.clone(), Fault { what, map: m }));
        };
        push("remove".into(), None);
        let len = data.len();
        let mut cuts = vec![0usize, 1, 15, 16, 31, len / 2, len.saturating_sub(1)];
        let mut flips = vec![0usize, 8, 16, len / 2, len.saturating_sub(17), len.saturating_sub(1)];
        if *t == 4 && len > 40 {
            let hl = u32::from_le_bytes(data[len - 4..].try_into().unwrap()) as usize;
            let hstart = len.saturating_sub(4 + hl);
            cuts.extend([hstart.saturating_sub(1), hstart, hstart + 1, len - 4, len - 5]);
            flips.extend([hstart, hstart + 20, len - 4, len - 2]);
            let p = parse_pack(&rk, *id, data);
            for b in p.hdr.unwrap_or_default() {
                flips.push(b.off as usize + 16 + (b.len as usize - 32) / 2);
                flips.push(b.off as usize + b.len as usize - 1);
            }
        }
        let nrand = if full { 12 } else { 2 };
        for _ in 0..nrand {
            flips.push(rng.below(len.max(1) as u64) as usize);
        }
        cuts.sort_unstable();
        cuts.dedup();
        flips.sort_unstable();
        flips.dedup();
        if !full {
            // the structural positions are kept, the generic ones thinned
            cuts.truncate(8);
        }
        for c in cuts.into_iter().filter(|c| *c < len) {
            push(format!("truncate {c}"), Some(data.slice(0..c)));
        }
        for f in flips.into_iter().filter(|f| *f < len) {
            let mut v = data.to_vec();
            v[f] ^= 1 << rng.below(8);
            push(format!("flip byte {f}"), Some(Bytes::from(v)));
        }
        // substitution by a sibling of the same type
        if let Some((_, other)) = files.iter().find(|((t2, id2), _)| t2 == t && id2 != id) {
            push("swap with sibling".into(), Some(other.clone()));
        }
        // extension
        let mut v = data.to_vec();
        v.push(0);
        push("extend by 1".into(), Some(Bytes::from(v)));
        if *t == 1 {
            if let Some(ix) = parse_index(&rk, *id, data) {
                // duplicate one pack entry / drop one blob entry (re-encoded under the same file name)
                if !ix.packs.is_empty() {
                    let mut dup = ix.packs.clone();
                    dup.push(ix.packs[0].clone());
                    let (_, b) = Enc { key: &rk, rng }.file(&Enc::index_json(&dup));
                    push("duplicate index entry".into(), Some(b));
                    for pi in 0..ix.packs.len().min(if full { 6 } else { 3 }) {
                        if ix.packs[pi].blobs.is_empty() {
                            continue;
                        }
                        let mut dr = ix.packs.clone();
                        let bi = rng.below(dr[pi].blobs.len() as u64) as usize;
                        _ = dr[pi].blobs.remove(bi);
                        let (_, b) = Enc { key: &rk, rng }.file(&Enc::index_json(&dr));
                        push(format!("drop index entry {pi}/{bi}"), Some(b));
                    }
                }
            }
        }
    }
    out
}

pub fn run(a: &Args) {
    scn::silence_panics();
    let mut out = Out::create(&a.str("out", "damage.ndjson"));
    let seed = a.num("seed", 1);
    let full = a.has("full");
    let mut rng = Rng::new(seed ^ 0xC05);
    let mut n = 0;
    for (pi, line) in std::fs::read_to_string(a.str("programs", "")).unwrap().lines().enumerate() {
        if line.trim().is_empty() {
            continue;
        }
        let prog: Value = serde_json::from_str(line).unwrap();
        // build the repository with the ordinary program runner (no trace needed here)
        let mut sink = Out::create("/dev/null");
        let Some(w) = run_program_world(&prog, &mut sink) else { continue };
        let base = w.store.snapshot();
        let mut expected = BTreeMap::new();
        for sn in &w.snaps {
            let name = w.nm.clone().name('s', &sn.id);
            if let Some(e) = w.expected.get(&name) {
                _ = expected.insert(*sn.id, e.clone());
            }
        }
        let key = w.key.clone();
        if a.has("dump") {
            // debugging aid: which pack holds which blobs, and what the index files list
            let rk = scn::repo_key(&key);
            let abs = crate::abs::RepoAbs::from_map(&base, &rk);
            let packs: Vec<Value> = abs.packs.iter().map(|(id, p)| json!({"p": id.to_hex().as_str()[..8], "blobs": p.hdr.as_ref().map(|h| h.iter().map(|b| format!("{}{}", if b.tree {"t"} else {"d"}, &b.id.to_hex().as_str()[..8])).collect::<Vec<_>>())})).collect();
            out.rec(&json!({"kind":"dump","packs":packs}));
        }
        let (v0, m0, r0) = verdict(&base, &key, &expected);
        out.rec(&json!({"kind":"damage","id":format!("repo{pi}-undamaged"),"repo":pi,"tpe":"none","file":"","fault":"none",
                        "verdict":v0,"msg":m0,"rest":r0}));
        n += 1;
        let mut nm = Namer::default();
        for (k, (tpe, file, f)) in faults(&base, &key, &mut rng, &mut nm, full).into_iter().enumerate() {
            let (v, m, r) = verdict(&f.map, &key, &expected);
            out.rec(&json!({"kind":"damage","id":format!("repo{pi}-f{k}"),"repo":pi,"tpe":tpe,"file":file,"fault":f.what,
                            "verdict":v,"msg":m.chars().take(160).collect::<String>(),"rest":r}));
            n += 1;
        }
        _ = FileType::Pack;
    }
    _ = out.finish();
    println!("{}", json!({"records": n}));
}
