//! C07 driver: consecutive backups related by edit scripts; what the second backup uploads (from the storage log,
//! decoded independently) against the chunk ids the edit really introduces; tree/data blobs with the same id.
use std::collections::{BTreeMap, BTreeSet};

use rustic_core::{
    BackupOptions, Id,
    repofile::{Chunker, ConfigFile, MasterKey},
    verif_hooks::chunk_iter,
};
use serde_json::{Value, json};

use crate::{
    abs::{BlobRef, Namer, RepoAbs, parse_pack, sha256},
    scn::{self, Entry, MemSource, Outcome},
    store::{MemStore, OpKind},
    util::{Args, Out, Rng},
};

const POLY: u64 = 0x003D_A335_8B4D_C173;

fn cfg_file(kind: u64, pack: u32) -> ConfigFile {
    let mut c = ConfigFile::new(2, Id::random().into(), POLY);
    match kind % 3 {
        0 => {
            c.chunk_size = Some(256);
            c.chunk_min_size = Some(64);
            c.chunk_max_size = Some(1024);
        }
        1 => {
            c.chunk_size = Some(1024);
            c.chunk_min_size = Some(512);
            c.chunk_max_size = Some(4096);
        }
        _ => {
            c.chunker = Some(Chunker::FixedSize);
            c.chunk_size = Some(128);
        }
    }
    c.datapack_size = Some(pack);
    c.treepack_size = Some(pack);
    c.datapack_growfactor = Some(0);
    c.treepack_growfactor = Some(0);
    c
}

/// chunk list of one file under the repository's chunker: (id, start, len)
/// chunks by the reference chunker (Chunker.tla, independent of the library's chunk iterator); fixed-size chunking is
/// trivial enough to be computed here as well
fn chunks_of(cfg: &ConfigFile, data: &[u8]) -> Vec<(Id, usize, usize)> {
    let lens: Vec<usize> = if cfg.chunker == Some(Chunker::FixedSize) {
        let sz = cfg.chunk_size.unwrap();
        (0..data.len()).step_by(sz).map(|st| sz.min(data.len() - st)).collect()
    } else {
        let (avg, min, max) = (cfg.chunk_size.unwrap(), cfg.chunk_min_size.unwrap(), cfg.chunk_max_size.unwrap());
        crate::drivers::chunker::ref_chunk_lens(data, min, max, avg as u64 - 1, POLY)
    };
    let mut out = Vec::new();
    let mut st = 0;
    for l in lens {
        out.push((sha256(&data[st..st + l]), st, l));
        st += l;
    }
    out
}

#[allow(dead_code)]
fn chunks_of_real(cfg: &ConfigFile, data: &[u8]) -> Vec<(Id, usize, usize)> {
    let mut out = Vec::new();
    let mut st = 0;
    for c in chunk_iter(cfg, std::io::Cursor::new(data.to_vec()), data.len()).unwrap() {
        let c = c.unwrap();
        out.push((sha256(&c), st, c.len()));
        st += c.len();
    }
    out
}

fn all_chunk_ids(cfg: &ConfigFile, files: &BTreeMap<String, Vec<u8>>) -> BTreeSet<Id> {
    files.values().flat_map(|d| chunks_of(cfg, d).into_iter().map(|c| c.0)).collect()
}

fn source(files: &BTreeMap<String, Vec<u8>>) -> MemSource {
    let mut entries = Vec::new();
    let mut dirs = BTreeSet::new();
    for (p, d) in files {
        let comps: Vec<&str> = p.split('/').collect();
        for i in 1..comps.len() {
            _ = dirs.insert(comps[..i].join("/"));
        }
        let h = crate::abs::id_bytes(&sha256(d));
        let mut e = Entry::file(p, d.clone());
        e.mtime = 1_600_000_000 + i64::from(u32::from_le_bytes([h[0], h[1], h[2], 0]));
        e.ctime = e.mtime;
        entries.push(e);
    }
    for d in dirs {
        entries.push(Entry::dir(&d));
    }
    MemSource::new(entries)
}

struct Repo {
    store: MemStore,
    key: MasterKey,
}

impl Repo {
    fn new(cfg: &ConfigFile) -> Self {
        let store = MemStore::new();
        let key = MasterKey::new();
        let h = store.handle(0);
        _ = rustic_core::Repository::new(&scn::repo_opts(), &scn::backends(h.arc(), None))
            .unwrap()
            .init_with_config(&rustic_core::Credentials::Masterkey(key.clone()), &rustic_core::KeyOptions::default(), cfg.clone())
            .unwrap();
        Self { store, key }
    }
    /// backup through a fresh handle; returns (snapshot, typed blobs uploaded in order)
    fn backup(&self, files: &BTreeMap<String, Vec<u8>>, proc_: u32, t: i64, force: bool) -> Outcome<(rustic_core::repofile::SnapshotFile, Vec<BlobRef>)> {
        let n0 = self.store.log_len();
        let h = self.store.handle(proc_);
        let src = source(files);
        let mut opts = BackupOptions::default();
        opts.parent_opts.force = force;
        let r = scn::guard(|| {
            let repo = scn::open(&h, &self.key)?.to_indexed_ids()?;
            scn::backup_mem(&repo, &src, &opts, scn::snap_at(t))
        });
        let rk = scn::repo_key(&self.key);
        let mut up = Vec::new();
        for op in &self.store.log()[n0..] {
            if op.kind == OpKind::Write && op.tpe == 4 && op.ok {
                let p = parse_pack(&rk, op.id, op.data.as_ref().unwrap());
                for b in p.hdr.unwrap_or_default() {
                    up.push(BlobRef { tree: b.tree, id: b.id });
                }
            }
        }
        match r {
            Outcome::Ok(s) => Outcome::Ok((s, up)),
            Outcome::Err(e) => Outcome::Err(e),
            Outcome::Panic(e) => Outcome::Panic(e),
        }
    }
    fn abs(&self) -> RepoAbs {
        RepoAbs::from_map(&self.store.snapshot(), &scn::repo_key(&self.key))
    }
}

fn edit(rng: &mut Rng, files: &BTreeMap<String, Vec<u8>>) -> (BTreeMap<String, Vec<u8>>, String) {
    let mut f = files.clone();
    let names: Vec<String> = f.keys().cloned().collect();
    let big = names.iter().max_by_key(|n| f[*n].len()).unwrap().clone();
    let kind = rng.below(9);
    let what = match kind {
        0 => "same".to_string(),
        1 => {
            let n = rng.range(1, 300) as usize;
            let mut d = rng.bytes(n);
            d.extend_from_slice(&f[&big]);
            _ = f.insert(big.clone(), d);
            format!("prepend {n}")
        }
        2 => {
            let d = f.get_mut(&big).unwrap();
            let pos = rng.range(0, d.len() as i64) as usize;
            let n = rng.range(1, 200) as usize;
            let ins = rng.bytes(n);
            let tail = d.split_off(pos);
            d.extend(ins);
            d.extend(tail);
            format!("insert {n}@{pos}")
        }
        3 => {
            let d = f.get_mut(&big).unwrap();
            let pos = rng.range(0, (d.len() - 1) as i64) as usize;
            let n = (rng.range(1, 300) as usize).min(d.len() - pos);
            _ = d.drain(pos..pos + n);
            format!("delete {n}@{pos}")
        }
        4 => {
            let d = f.get_mut(&big).unwrap();
            let pos = rng.range(0, (d.len() - 1) as i64) as usize;
            let n = (rng.range(1, 100) as usize).min(d.len() - pos);
            let r = rng.bytes(n);
            d[pos..pos + n].copy_from_slice(&r);
            format!("overwrite {n}@{pos}")
        }
        5 => {
            let d = f[&big].clone();
            _ = f.insert("copy/of_big".into(), d);
            "duplicate file".into()
        }
        6 => {
            let d = f.remove(&big).unwrap();
            _ = f.insert(format!("moved/{}", big.replace('/', "_")), d);
            "rename".into()
        }
        7 => {
            _ = f.insert("new/file".into(), rng.rbytes(0, 3000));
            "add file".into()
        }
        _ => {
            let d = f.get_mut(&big).unwrap();
            d.extend(rng.rbytes(1, 500));
            "append".into()
        }
    };
    (f, what)
}

fn names(nm: &mut Namer, ids: impl IntoIterator<Item = Id>) -> Vec<String> {
    ids.into_iter().map(|i| nm.name('b', &i)).collect()
}

fn pair_case(i: u64, rng: &mut Rng, out: &mut Out) {
    let cfg = cfg_file(i, *rng.pick(&[200u32, 2000, 100_000]));
    let maxc = cfg.chunk_max_size.unwrap_or(8 * 1024 * 1024).min(4096);
    let mut v1 = BTreeMap::new();
    _ = v1.insert("big".to_string(), rng.rbytes(2 * maxc as i64, 6 * maxc as i64));
    _ = v1.insert("d/small".to_string(), rng.rbytes(0, 300));
    _ = v1.insert("d/e/mid".to_string(), rng.rbytes(100, 3000));
    if rng.chance(1, 3) {
        let dup = v1["d/e/mid"].clone();
        _ = v1.insert("twin".into(), dup);
    }
    let (v2, what) = edit(rng, &v1);
    let repo = Repo::new(&cfg);
    let mut nm = Namer::default();
    let force = rng.chance(1, 2);
    let r1 = repo.backup(&v1, 1, 1000, false);
    let r2 = repo.backup(&v2, 2, 2000, force);
    let (Outcome::Ok((s1, _)), Outcome::Ok((s2, up2))) = (&r1, &r2) else {
        out.rec(&json!({"kind":"pair","id":format!("p{i}"),"outcome":"fail","msg":format!("{} / {}", r1.msg(), r2.msg()),"edit":what}));
        return;
    };
    let a = repo.abs();
    let trees = |root: &Id| -> BTreeSet<Id> { a.needs(root).into_iter().filter(|b| b.tree).map(|b| b.id).collect() };
    let (t1, t2) = (trees(&s1.tree), trees(&s2.tree));
    let exp_data: BTreeSet<Id> = all_chunk_ids(&cfg, &v2).difference(&all_chunk_ids(&cfg, &v1)).copied().collect();
    // the second snapshot must reference exactly the chunks the reference chunker gives for v2
    let ref2: BTreeSet<Id> = a.needs(&s2.tree).into_iter().filter(|b| !b.tree).map(|b| b.id).collect();
    let up_data: Vec<Id> = up2.iter().filter(|b| !b.tree).map(|b| b.id).collect();
    let up_tree: Vec<Id> = up2.iter().filter(|b| b.tree).map(|b| b.id).collect();
    // shift bound: chunks of the edited file in v2 that are not chunks of the same file in v1
    let c1: BTreeSet<Id> = chunks_of(&cfg, &v1["big"]).into_iter().map(|c| c.0).collect();
    let newbig = v2.get("big").map_or(0, |d| chunks_of(&cfg, d).into_iter().filter(|c| !c1.contains(&c.0)).count());
    let nchunks_big = v2.get("big").map_or(0, |d| chunks_of(&cfg, d).len());
    let root1 = nm.name('b', &s1.tree);
    let root2 = nm.name('b', &s2.tree);
    let ix = a.indexed(false);
    let readable = a.needs(&s2.tree).iter().all(|b| ix.contains(b));
    out.rec(&json!({"kind":"pair","id":format!("p{i}"),"outcome":"ok","msg":"","edit":what,"same": v1 == v2,"force":force,
        "up_data": names(&mut nm, up_data), "up_tree": names(&mut nm, up_tree),
        "exp_data": names(&mut nm, exp_data), "tree1": names(&mut nm, t1), "tree2": names(&mut nm, t2),
        "ref_data2": names(&mut nm, all_chunk_ids(&cfg, &v2)), "snap_data2": names(&mut nm, ref2),
        "root1": root1, "root2": root2, "new_in_big": newbig, "chunks_in_big": nchunks_big, "readable": readable}));
}

/// a file whose content is byte-for-byte the serialisation of a directory of the same backup
fn collide_case(i: u64, rng: &mut Rng, out: &mut Out) {
    let mut cfg = cfg_file(1, if i % 2 == 0 { 150 } else { 100_000 });
    cfg.chunk_min_size = Some(512);
    // first: learn the serialisation of the directory "d" from a throw-away backup
    let mut base = BTreeMap::new();
    _ = base.insert("d/x".to_string(), rng.bytes(40));
    _ = base.insert("d/y".to_string(), rng.bytes(70));
    let probe = Repo::new(&cfg);
    let Outcome::Ok((s0, _)) = probe.backup(&base, 1, 1000, false) else { return };
    let pa = probe.abs();
    // the tree blob of directory src/d: the smallest tree that has nodes x and y
    let mut dtree: Option<Vec<u8>> = None;
    for b in pa.needs(&s0.tree).iter().filter(|b| b.tree) {
        if let Some(pl) = pa.blob_plain(b) {
            if let Some(nodes) = crate::abs::parse_tree(&pl) {
                if nodes.iter().any(|n| n.name == "x") && nodes.iter().any(|n| n.name == "y") {
                    dtree = Some(pl.to_vec());
                }
            }
        }
    }
    let Some(dtree) = dtree else { return };
    let mut files = base.clone();
    // before or after the directory in traversal order
    let fname = if i % 4 < 2 { "a_copy" } else { "z_copy" };
    _ = files.insert(fname.to_string(), dtree.clone());
    let repo = Repo::new(&cfg);
    let r = repo.backup(&files, 1, 1000, false);
    let mut nm = Namer::default();
    let xid = sha256(&dtree);
    match r {
        Outcome::Ok((s, _)) => {
            let a = repo.abs();
            let ix = a.indexed(false);
            let needs = a.needs(&s.tree);
            let need_tree = needs.contains(&BlobRef { tree: true, id: xid });
            let need_data = needs.contains(&BlobRef { tree: false, id: xid });
            let h = repo.store.handle(9);
            let real = scn::guard(|| {
                let r = scn::open(&h, &repo.key)?;
                let clean = scn::check_clean(&r)?;
                let full = r.to_indexed()?;
                let back = scn::read_back(&full, &s)?;
                let ok = back.iter().any(|(p, _, d)| p.ends_with(fname) && *d == dtree);
                Ok((clean, ok))
            });
            out.rec(&json!({"kind":"collide","id":format!("x{i}"),"outcome":"ok","msg":"","x":nm.name('b', &xid),"file":fname,
                "need_tree":need_tree,"need_data":need_data,
                "tree_indexed": ix.contains(&BlobRef { tree: true, id: xid }), "data_indexed": ix.contains(&BlobRef { tree: false, id: xid }),
                "real": match real { Outcome::Ok((c, o)) => json!({"class":"ok","check_clean":c,"content_ok":o}), o => json!({"class":o.class(),"check_clean":false,"content_ok":false}) }}));
        }
        o => out.rec(&json!({"kind":"collide","id":format!("x{i}"),"outcome":o.class(),"msg":o.msg()})),
    }
}

pub fn run(a: &Args) {
    scn::silence_panics();
    let mut out = Out::create(&a.str("out", "dedup.ndjson"));
    let mut rng = Rng::new(a.num("seed", 1) ^ 0xC07);
    let n = a.num("pairs", 20);
    for i in 0..n {
        pair_case(i, &mut rng, &mut out);
    }
    for i in 0..a.num("collisions", 4) {
        collide_case(i, &mut rng, &mut out);
    }
    let ev = out.finish();
    println!("{}", json!({"records": ev}));
}
