//! C19 driver: histories alternating between a handle with a cache directory and a handle without cache on the
//! same store, with stale / truncated / foreign files planted in the cache directory; a twin run without any
//! cache; the cache listing after every command through the cached handle.
use std::{collections::BTreeMap, path::Path};

use rustic_core::{
    BackupOptions, Credentials, Id, OpenStatus, Repository, RepositoryOptions,
    repofile::{MasterKey, SnapshotFile},
};
use serde_json::{Value, json};

use crate::{
    drivers::repo::{config_opts, prune_opts, source_from},
    scn::{self, Outcome},
    store::MemStore,
    util::{Args, Out, Rng},
};

fn open(store: &MemStore, key: &MasterKey, proc_: u32, cache: Option<&Path>) -> rustic_core::RusticResult<Repository<OpenStatus>> {
    let opts = match cache {
        Some(p) => RepositoryOptions::default().cache_dir(p.to_path_buf()),
        None => RepositoryOptions::default().no_cache(true),
    };
    Repository::new(&opts, &scn::backends(store.handle(proc_).arc(), None))?.open(&Credentials::Masterkey(key.clone()))
}

/// files of the cache directory below `sub` ("snapshots" / "index" / "data"): hex name -> length
fn cache_files(root: &Path, sub: &str) -> BTreeMap<String, u64> {
    let mut out = BTreeMap::new();
    fn walk(d: &Path, out: &mut BTreeMap<String, u64>) {
        let Ok(rd) = std::fs::read_dir(d) else { return };
        for e in rd.flatten() {
            let p = e.path();
            if p.is_dir() {
                walk(&p, out);
            } else if let Some(n) = p.file_name().and_then(|n| n.to_str()) {
                if n.len() == 64 && n.chars().all(|c| c.is_ascii_hexdigit()) {
                    _ = out.insert(n.to_string(), e.metadata().map_or(0, |m| m.len()));
                }
            }
        }
    }
    // the cache lives in <cache_dir>/<repo id>/<sub>
    if let Ok(rd) = std::fs::read_dir(root) {
        for e in rd.flatten() {
            if e.path().is_dir() {
                walk(&e.path().join(sub), &mut out);
            }
        }
    }
    out
}

fn plant(root: &Path, kind: &str, rng: &mut Rng) -> String {
    // locate the per-repository cache directory
    let Some(repo_dir) = std::fs::read_dir(root).ok().and_then(|rd| rd.flatten().map(|e| e.path()).find(|p| p.is_dir())) else {
        return "no-cache-dir".into();
    };
    let pick = |sub: &str, rng: &mut Rng| -> Option<std::path::PathBuf> {
        let mut v = Vec::new();
        fn walk(d: &Path, v: &mut Vec<std::path::PathBuf>) {
            if let Ok(rd) = std::fs::read_dir(d) {
                for e in rd.flatten() {
                    if e.path().is_dir() { walk(&e.path(), v) } else { v.push(e.path()) }
                }
            }
        }
        walk(&repo_dir.join(sub), &mut v);
        v.sort();
        if v.is_empty() { None } else { Some(v[rng.below(v.len() as u64) as usize].clone()) }
    };
    match kind {
        "truncate_snapshot" | "truncate_index" | "truncate_pack" | "extend_index" => {
            let sub = match kind { "truncate_snapshot" => "snapshots", "truncate_pack" => "data", _ => "index" };
            match pick(sub, rng) {
                Some(p) => {
                    let mut d = std::fs::read(&p).unwrap_or_default();
                    if kind == "extend_index" { d.extend_from_slice(b"xx") } else { d.truncate(d.len() / 2) }
                    _ = std::fs::write(&p, d);
                    format!("{kind}:{}", p.file_name().unwrap().to_string_lossy())
                }
                None => format!("{kind}:none"),
            }
        }
        "foreign_snapshot" | "foreign_index" => {
            let sub = if kind == "foreign_snapshot" { "snapshots" } else { "index" };
            let id = hex::encode(rng.bytes(32));
            let dir = repo_dir.join(sub).join(&id[0..2]);
            _ = std::fs::create_dir_all(&dir);
            _ = std::fs::write(dir.join(&id), rng.bytes(100));
            format!("{kind}:{id}")
        }
        _ => "none".into(),
    }
}

/// run a history; `with_cache`: steps marked cached use a cache directory
fn run_history(prog: &Value, with_cache: bool, mut out: Option<&mut Out>, sc: &str) -> Vec<Value> {
    let seed = prog.get("seed").and_then(Value::as_u64).unwrap_or(1);
    let cfg = prog.get("cfg").cloned().unwrap_or(json!({}));
    let store = MemStore::new();
    let key = MasterKey::new();
    let cdir = tempfile::tempdir().unwrap();
    let mut rng = Rng::new(seed ^ 0xC19);
    let mut results = Vec::new();
    let mut snaps: Vec<(SnapshotFile, BTreeMap<String, (String, String)>)> = Vec::new();
    let mut emit = |v: Value, out: &mut Option<&mut Out>| {
        if let Some(o) = out.as_deref_mut() {
            o.rec(&v);
        }
    };
    emit(json!({"e":"reset","id":sc,"sc":sc}), &mut out);
    let h0 = store.handle(0);
    if scn::guard(|| scn::init(&h0, &key, &config_opts(&cfg))).ok().is_none() {
        return results;
    }
    for (i, st) in prog["steps"].as_array().unwrap().iter().enumerate() {
        let cmd = st["cmd"].as_str().unwrap();
        let cached = with_cache && st.get("cached").and_then(Value::as_bool).unwrap_or(false);
        let cache = cached.then(|| cdir.path());
        let proc_ = i as u32 + 1;
        let log_start = store.log_len();
        let mut info = json!({});
        let res: Outcome<()> = match cmd {
            "backup" => {
                let src = source_from(&st["files"], seed, 64);
                let r = scn::guard(|| {
                    let repo = open(&store, &key, proc_, cache)?.to_indexed_ids()?;
                    scn::backup_mem(&repo, &src, &BackupOptions::default(), scn::snap_at(1_000_000 + i as i64 * 60))
                });
                match r {
                    Outcome::Ok(sn) => {
                        let mut v: Vec<(String, String, Vec<u8>)> = vec![("src".into(), "dir".into(), vec![])];
                        for e in &src.entries {
                            match &e.kind {
                                scn::Kind::Dir => v.push((format!("src/{}", e.path), "dir".into(), vec![])),
                                scn::Kind::File(d) => v.push((format!("src/{}", e.path), "file".into(), d.clone())),
                                scn::Kind::Symlink(_) => {}
                            }
                        }
                        snaps.push((sn, crate::world::content_digest(&v)));
                        Outcome::Ok(())
                    }
                    Outcome::Err(e) => Outcome::Err(e),
                    Outcome::Panic(e) => Outcome::Panic(e),
                }
            }
            "forget" => {
                let ids: Vec<_> = st["snaps"].as_array().unwrap().iter()
                    .filter_map(|x| snaps.get(x.as_u64().unwrap() as usize).map(|s| s.0.id)).collect();
                let r = scn::guard(|| open(&store, &key, proc_, cache)?.delete_snapshots(&ids));
                if r.is_ok() {
                    snaps.retain(|s| !ids.contains(&s.0.id));
                }
                r
            }
            "prune" => {
                let po = prune_opts(&st.get("opts").cloned().unwrap_or(json!({})));
                scn::guard(|| {
                    let r = open(&store, &key, proc_, cache)?;
                    let plan = r.prune_plan(&po)?;
                    r.prune(&po, plan)
                })
            }
            "check" => {
                let r = scn::guard(|| open(&store, &key, proc_, cache).and_then(|r| scn::check_errors(&r)));
                match r {
                    Outcome::Ok(v) => {
                        info["check"] = json!(if v.is_empty() { "clean" } else { "error" });
                        Outcome::Ok(())
                    }
                    Outcome::Err(e) => Outcome::Err(e),
                    Outcome::Panic(e) => Outcome::Panic(e),
                }
            }
            "readback" => {
                // every snapshot through the handle's read path (ls + dump)
                let r = scn::guard(|| {
                    let repo = open(&store, &key, proc_, cache)?.to_indexed()?;
                    let all = repo.get_all_snapshots()?;
                    let mut verdicts = Vec::new();
                    for (k, (sn, want)) in snaps.iter().enumerate() {
                        let present = all.iter().any(|s| s.id == sn.id);
                        let v = match scn::read_back(&repo, sn) {
                            Ok(e) if crate::world::content_digest(&e) == *want => "ok",
                            Ok(_) => "bad",
                            Err(_) => "err",
                        };
                        verdicts.push((k, present, v));
                    }
                    Ok((all.len(), verdicts))
                });
                match r {
                    Outcome::Ok((n, v)) => {
                        info["nsnaps"] = json!(n);
                        info["rest"] = json!(v.iter().map(|(k, p, r)| json!([k, p, r])).collect::<Vec<_>>());
                        Outcome::Ok(())
                    }
                    Outcome::Err(e) => Outcome::Err(e),
                    Outcome::Panic(e) => Outcome::Panic(e),
                }
            }
            "plant" => {
                if with_cache {
                    let what = plant(cdir.path(), st["kind"].as_str().unwrap(), &mut rng);
                    emit(json!({"e":"plant","sc":sc,"what":what}), &mut out);
                }
                Outcome::Ok(())
            }
            other => panic!("cache: unknown command {other}"),
        };
        if cached {
            // what the cache holds after the command, per file type, and whether the command listed that type
            let repo_list = |t: u8| -> Vec<Value> {
                store.snapshot().iter().filter(|(k, _)| k.0 == t).map(|(k, v)| json!({"k": k.1.to_hex().as_str(), "len": v.len()})).collect()
            };
            for (sub, t, name) in [("snapshots", 3u8, "snapshot"), ("index", 1u8, "index")] {
                let c: Vec<Value> = cache_files(cdir.path(), sub).iter().map(|(k, l)| json!({"k": k, "len": l})).collect();
                // did the command list this file type through its handle? (the property speaks of the cache "after a listing")
                let listed = store.log()[log_start..].iter().any(|o| o.kind == crate::store::OpKind::List && o.tpe == t && o.proc_ == proc_);
                emit(json!({"e":"cachelist","sc":sc,"tpe":name,"cmd":cmd,"cache":c,"repo":repo_list(t),"res":res.class(),"listed":listed}), &mut out);
            }
        }
        if cmd != "plant" {
            results.push(json!({"cmd":cmd,"res":res.class(),"info":info}));
        }
    }
    _ = Id::default();
    results
}

pub fn run(a: &Args) {
    scn::silence_panics();
    let mut out = Out::create(&a.str("out", "cache.ndjson"));
    let mut n = 0;
    for line in std::fs::read_to_string(a.str("programs", "")).unwrap().lines() {
        if line.trim().is_empty() {
            continue;
        }
        let prog: Value = serde_json::from_str(line).unwrap();
        let id = prog["id"].as_str().unwrap().to_string();
        let with = run_history(&prog, true, Some(&mut out), &id);
        let without = run_history(&prog, false, None, &id);
        out.rec(&json!({"e":"twin","sc":id,"cached":with,"plain":without}));
        n += 1;
    }
    let ev = out.finish();
    println!("{}", json!({"programs": n, "events": ev}));
}
