//! C08 driver (large packs): a backup whose data pack is closed by the blob-count limit (10 000 blobs per pack), with
//! compressed and uncompressed repositories; all index files are removed and repair-index must bring everything back.
use rustic_core::{BackupOptions, FileType, RepairIndexOptions, repofile::MasterKey};
use serde_json::json;

use crate::{
    abs::{RepoAbs, sha256},
    scn::{self, Entry, MemSource, Outcome},
    store::MemStore,
    util::{Args, Out, Rng},
};

pub fn run(a: &Args) {
    scn::silence_panics();
    let mut out = Out::create(&a.str("out", "bigpack.ndjson"));
    let seed = a.num("seed", 1);
    let mut rng = Rng::new(seed ^ 0xB16);
    let counts: Vec<usize> = a.str("counts", "9500,10000,10001").split(',').map(|x| x.parse().unwrap()).collect();
    for (k, n) in counts.iter().enumerate() {
        for compression in [Some(3i32), Some(-7i32)] {
            let store = MemStore::new();
            store.0.log_reads.store(false, std::sync::atomic::Ordering::Relaxed);
            let h = store.handle(0);
            let key = MasterKey::new();
            // tiny chunks, the library's default (large) pack size: the pack is closed by the blob count, not by its size
            let mut cfg = rustic_core::ConfigOptions::default()
                .set_chunker(rustic_core::repofile::Chunker::FixedSize)
                .set_chunk_size(bytesize::ByteSize(8));
            cfg = cfg.set_compression(compression.unwrap_or(3));
            let id = format!("big-{seed}-{k}-z{}", compression.unwrap_or(3));
            let mut rec = json!({"e":"bigpack","id":id,"n":n,"compressed":compression.is_some()});
            let data: Vec<u8> = (0..*n as u64).flat_map(|i| (i ^ (rng.u64() << 20)).to_le_bytes()).collect();
            let src = MemSource::new(vec![Entry::file("big", data.clone()), Entry::file("small", rng.bytes(100))]);
            let res = scn::guard(|| {
                _ = scn::init(&h, &key, &cfg)?;
                let repo = scn::open(&h, &key)?.to_indexed_ids()?;
                scn::backup_mem(&repo, &src, &BackupOptions::default(), scn::snap_at(1000))
            });
            let Outcome::Ok(sn) = res else {
                rec["result"] = json!(format!("backup {}: {}", res.class(), res.msg()));
                out.rec(&rec);
                continue;
            };
            let rk = scn::repo_key(&key);
            let abs = RepoAbs::from_map(&store.snapshot(), &rk);
            rec["pack_blobs"] = json!(abs.packs.values().map(|p| p.hdr.as_ref().map_or(0, Vec::len)).collect::<Vec<_>>());
            let digest = |store: &MemStore| -> String {
                match scn::guard(|| {
                    let repo = scn::open(&store.handle(2), &key)?.to_indexed()?;
                    scn::read_back(&repo, &sn)
                }) {
                    Outcome::Ok(e) => {
                        let mut all = Vec::new();
                        for (p, t, d) in e {
                            all.extend(p.as_bytes());
                            all.extend(t.as_bytes());
                            all.extend(sha256(&d).to_hex().as_bytes());
                        }
                        sha256(&all).to_hex().as_str()[..16].to_string()
                    }
                    x => format!("{}: {}", x.class(), x.msg().chars().take(120).collect::<String>()),
                }
            };
            rec["before"] = json!(digest(&store));
            let nidx = store.ids(FileType::Index).len();
            for i in store.ids(FileType::Index) {
                _ = store.del_raw(FileType::Index, &i);
            }
            let rr = scn::guard(|| scn::open(&h, &key)?.repair_index(&RepairIndexOptions::default(), false));
            rec["index_files_removed"] = json!(nidx);
            rec["repair"] = json!(rr.class());
            rec["repair_msg"] = json!(rr.msg());
            rec["after"] = json!(digest(&store));
            rec["check"] = json!(match scn::guard(|| scn::check_errors(&scn::open(&h, &key)?)) {
                Outcome::Ok(e) if e.is_empty() => "clean".to_string(),
                Outcome::Ok(e) => format!("errors: {}", e[0]),
                x => format!("{}: {}", x.class(), x.msg()),
            });
            rec["result"] = json!("ok");
            out.rec(&rec);
        }
    }
    // pack sizes sweeping every value of a range around 4 KiB / 8 KiB (read-ahead and guess sizes live there): one blob per
    // pack, file lengths differing by one byte; all index files removed, repair-index, read back
    for (k, (lo, hi)) in [(3_900usize, 4_350usize), (7_950, 8_400)].into_iter().enumerate() {
        if a.num("sweep", 1) == 0 {
            break;
        }
        let store = MemStore::new();
        store.0.log_reads.store(false, std::sync::atomic::Ordering::Relaxed);
        let h = store.handle(0);
        let key = MasterKey::new();
        let cfg = scn::small_config(32_768, 100).set_compression(if k == 0 { 3i32 } else { -5i32 });
        let id = format!("sizes-{seed}-{lo}");
        let mut rec = json!({"e":"bigpack","id":id,"n":hi - lo,"compressed":true});
        let src = MemSource::new((lo..hi).map(|l| Entry::file(&format!("f{l}"), rng.bytes(l))).collect());
        let res = scn::guard(|| {
            _ = scn::init(&h, &key, &cfg)?;
            let repo = scn::open(&h, &key)?.to_indexed_ids()?;
            scn::backup_mem(&repo, &src, &BackupOptions::default(), scn::snap_at(1000))
        });
        let Outcome::Ok(sn) = res else {
            rec["result"] = json!(format!("backup {}: {}", res.class(), res.msg()));
            out.rec(&rec);
            continue;
        };
        let sizes: std::collections::BTreeSet<usize> = store.snapshot().iter().filter(|(k, _)| k.0 == 4).map(|(_, v)| v.len()).collect();
        rec["pack_blobs"] = json!([1]);
        let mid = if k == 0 { 4_096usize } else { 8_192 };
        rec["pack_sizes"] = json!([sizes.iter().next(), sizes.iter().next_back(), sizes.len()]);
        rec["covers_boundary"] = json!((mid - 40..mid + 40).all(|x| sizes.contains(&x)));
        let digest = |store: &MemStore| -> String {
            match scn::guard(|| {
                let repo = scn::open(&store.handle(2), &key)?.to_indexed()?;
                scn::read_back(&repo, &sn)
            }) {
                Outcome::Ok(e) => {
                    let mut all = Vec::new();
                    for (p, t, d) in e {
                        all.extend(p.as_bytes());
                        all.extend(t.as_bytes());
                        all.extend(sha256(&d).to_hex().as_bytes());
                    }
                    sha256(&all).to_hex().as_str()[..16].to_string()
                }
                x => format!("{}: {}", x.class(), x.msg().chars().take(120).collect::<String>()),
            }
        };
        rec["before"] = json!(digest(&store));
        let nidx = store.ids(FileType::Index).len();
        for i in store.ids(FileType::Index) {
            _ = store.del_raw(FileType::Index, &i);
        }
        let rr = scn::guard(|| scn::open(&h, &key)?.repair_index(&RepairIndexOptions::default(), false));
        rec["index_files_removed"] = json!(nidx);
        rec["repair"] = json!(rr.class());
        rec["repair_msg"] = json!(rr.msg().chars().take(300).collect::<String>());
        rec["after"] = json!(digest(&store));
        rec["check"] = json!(match scn::guard(|| scn::check_errors(&scn::open(&h, &key)?)) {
            Outcome::Ok(e) if e.is_empty() => "clean".to_string(),
            Outcome::Ok(e) => format!("errors: {}", e[0]),
            x => format!("{}: {}", x.class(), x.msg().chars().take(200).collect::<String>()),
        });
        rec["result"] = json!("ok");
        out.rec(&rec);
    }
    _ = out.finish();
    println!("{}", json!({"ok": true}));
}
