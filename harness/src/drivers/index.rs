//! C17 driver: builds collections of index files (from TLC's MCIndex behaviours or random) into the real
//! in-memory index - through the cfg-gated constructor in every mode and through real index files on the
//! public open path - and logs the answer to every query for IndexTrace.tla.
use rustic_core::{
    BlobId, DataId, Id, TreeId,
    repofile::{BlobType, IndexPack, MasterKey},
    verif_hooks::VerifIndex,
};
use serde_json::{Value, json};

use crate::{
    abs::{Enc, HdrBlob, IdxPack},
    scn,
    store::MemStore,
    util::{Args, Out, Rng},
};

fn pid(p: u64) -> Id {
    let mut a = [0x70u8; 32];
    a[0..8].copy_from_slice(&p.to_le_bytes());
    Id::new(a)
}
/// blob ids: many of them share their leading bytes (only three different 8-byte prefixes), the number sits behind
fn bid(i: u64) -> Id {
    let mut a = [0xb1u8; 32];
    a[0..8].copy_from_slice(&(i % 3).to_le_bytes());
    a[8..16].copy_from_slice(&i.to_le_bytes());
    Id::new(a)
}

struct L {
    p: u64,
    tree: bool,
    ids: Vec<u64>,
    mark: bool,
    file: u64,
}

fn listing(v: &Value) -> L {
    L {
        p: v["p"].as_u64().unwrap(),
        tree: v["tpe"].as_str().unwrap() == "tree",
        ids: v["ids"].as_array().unwrap().iter().map(|x| x.as_u64().unwrap()).collect(),
        mark: v["mark"].as_bool().unwrap(),
        file: v["file"].as_u64().unwrap(),
    }
}

fn abs_pack(l: &L) -> Value {
    let blobs: Vec<Value> = l
        .ids
        .iter()
        .enumerate()
        .map(|(k, id)| json!({"t": if l.tree {"tree"} else {"data"}, "id": id, "off": 100 * k, "len": 10 + id + 3 * ((l.p * 7 + 1) % 5), "ulen": 0}))
        .collect();
    json!({"p": l.p, "mark": l.mark, "size": 1000 * l.p + 7, "blobs": blobs})
}

fn real_pack(l: &L) -> IndexPack {
    let blobs: Vec<Value> = l
        .ids
        .iter()
        .enumerate()
        .map(|(k, id)| json!({"id": bid(*id).to_hex().as_str(), "type": if l.tree {"tree"} else {"data"}, "offset": 100 * k, "length": 10 + id + 3 * ((l.p * 7 + 1) % 5)}))
        .collect();
    serde_json::from_value(json!({"id": pid(l.p).to_hex().as_str(), "blobs": blobs, "size": 1000 * l.p + 7})).unwrap()
}

fn idx_pack(l: &L) -> IdxPack {
    IdxPack {
        id: pid(l.p),
        blobs: l
            .ids
            .iter()
            .enumerate()
            .map(|(k, id)| HdrBlob { tree: l.tree, id: bid(*id), off: 100 * k as u32, len: 10 + *id as u32 + 3 * ((l.p as u32 * 7 + 1) % 5), ulen: None })
            .collect(),
        time: None,
        size: Some(1000 * l.p as u32 + 7),
        marked: l.mark,
    }
}

fn pnum(id: &rustic_core::repofile::PackId) -> u64 {
    let b = crate::abs::id_bytes(&id.into_inner());
    u64::from_le_bytes(b[0..8].try_into().unwrap())
}

pub fn run_config(cid: &str, ls: &[L], universe: &[u64], out: &mut Out, rng: &mut Rng) {
    let nfiles = ls.iter().map(|l| l.file).max().unwrap_or(1);
    let files: Vec<Vec<Value>> = (1..=nfiles)
        .map(|f| ls.iter().filter(|l| l.file == f).map(abs_pack).collect())
        .collect();
    let mut queries = Vec::new();
    let mut totals = Vec::new();
    let mut iter = Value::Null;
    let unmarked: Vec<IndexPack> = (1..=nfiles)
        .flat_map(|f| ls.iter().filter(move |l| l.file == f && !l.mark))
        .map(real_pack)
        .collect();
    for mode in ["full", "data-ids", "only-trees"] {
        let ix = VerifIndex::from_packs(unmarked.clone(), mode);
        for (t, bt) in [("tree", BlobType::Tree), ("data", BlobType::Data)] {
            for id in universe {
                let b = BlobId::from(bid(*id));
                let got = ix.get(bt, &b);
                let mut q = json!({"mode": mode, "path": "hook", "t": t, "id": id, "found": got.is_some(), "has": ix.has(bt, &b),
                                   "p": 0, "off": 0, "len": 0, "ulen": 0});
                if let Some((p, off, len, ulen)) = got {
                    q["p"] = json!(pnum(&p));
                    q["off"] = json!(off);
                    q["len"] = json!(len);
                    q["ulen"] = json!(ulen.unwrap_or(0));
                }
                queries.push(q);
            }
            totals.push(json!({"mode": mode, "t": t, "total": ix.total_size(bt)}));
        }
        if mode == "full" {
            let packs = ix.into_packs();
            iter = Value::Array(
                packs
                    .iter()
                    .map(|p| {
                        json!({"p": pnum(&p.id), "blobs": p.blobs.iter().map(|b| {
                        let v = serde_json::to_value(b).unwrap();
                        let idn = u64::from_le_bytes(crate::abs::id_bytes(&v["id"].as_str().unwrap().parse().unwrap())[8..16].try_into().unwrap());
                        json!({"t": v["type"], "id": idn, "off": v["offset"], "len": v["length"], "ulen": v.get("uncompressed_length").and_then(Value::as_u64).unwrap_or(0)})
                    }).collect::<Vec<_>>()})
                    })
                    .collect(),
            );
        }
    }
    // public path: real index files (with packs_to_delete) in a repository, opened and fully indexed
    let store = MemStore::new();
    let key = MasterKey::new();
    let rk = scn::repo_key(&key);
    let h = store.handle(0);
    _ = scn::init(&h, &key, &scn::small_config(64, 300)).unwrap();
    for f in 1..=nfiles {
        let packs: Vec<IdxPack> = ls.iter().filter(|l| l.file == f).map(idx_pack).collect();
        if packs.is_empty() {
            continue;
        }
        let (id, bytes) = Enc { key: &rk, rng }.file(&Enc::index_json(&packs));
        store.put_raw(rustic_core::FileType::Index, id, bytes);
    }
    let repo = scn::open(&h, &key).unwrap().to_indexed().unwrap();
    for t in ["tree", "data"] {
        for id in universe {
            let got = if t == "tree" {
                repo.get_index_entry(&TreeId::from(bid(*id))).ok()
            } else {
                repo.get_index_entry(&DataId::from(bid(*id))).ok()
            };
            let mut q = json!({"mode": "full", "path": "public", "t": t, "id": id, "found": got.is_some(), "has": got.is_some(),
                               "p": 0, "off": 0, "len": 0, "ulen": 0});
            if let Some(ie) = got {
                q["p"] = json!(pnum(&ie.pack));
                q["off"] = json!(ie.location.offset);
                q["len"] = json!(ie.location.length);
                q["ulen"] = json!(ie.location.uncompressed_length.map_or(0, std::num::NonZeroU32::get));
            }
            queries.push(q);
        }
    }
    out.rec(&json!({"kind":"index","id":cid,"files":files,"queries":queries,"totals":totals,"iter":iter}));
}

pub fn run(a: &Args) {
    scn::silence_panics();
    let mut out = Out::create(&a.str("out", "index.ndjson"));
    let mut rng = Rng::new(a.num("seed", 1) ^ 0xC17);
    let mut n = 0;
    if a.has("configs") {
        for (i, line) in std::fs::read_to_string(a.str("configs", "")).unwrap().lines().enumerate() {
            if line.trim().is_empty() {
                continue;
            }
            let v: Value = serde_json::from_str(line).unwrap();
            let ls: Vec<L> = v.as_array().unwrap().iter().map(listing).collect();
            run_config(&format!("mc{i}"), &ls, &[1, 2, 9], &mut out, &mut rng);
            n += 1;
        }
    }
    for i in 0..a.num("random", 0) {
        // larger random collections: many packs and ids, duplicates, both types, marked, empty, relisted packs
        let npacks = rng.range(1, 30) as u64;
        let nids = rng.range(1, 40) as u64;
        let mut ls = Vec::new();
        for p in 1..=npacks {
            let tree = rng.chance(1, 3);
            let k = if rng.chance(1, 8) { 0 } else { rng.range(1, 8) };
            let mut ids: Vec<u64> = (0..k).map(|_| rng.range(1, nids as i64) as u64).collect();
            if !rng.chance(1, 6) {
                ids.sort_unstable();
                ids.dedup();
            }
            let file = rng.range(1, 4) as u64;
            let mark = rng.chance(1, 5);
            if rng.chance(1, 10) {
                // the same pack listed a second time elsewhere, possibly with the other mark
                ls.push(L { p, tree, ids: ids.clone(), mark: rng.chance(1, 2), file: rng.range(1, 4) as u64 });
            }
            ls.push(L { p, tree, ids, mark, file });
        }
        let mut universe: Vec<u64> = (1..=nids).collect();
        universe.push(nids + 5);
        run_config(&format!("r{i}"), &ls, &universe, &mut out, &mut rng);
        n += 1;
    }
    // totals beyond 32 bits: few packs of gigabytes each (sizes in MiB so that the trace stays within TLC's integers)
    for i in 0..a.num("big", 4) {
        let npacks = 2 + rng.below(5);
        let mut packs = Vec::new();
        let mut sizes = Vec::new();
        for p in 1..=npacks {
            let tree = rng.chance(1, 3);
            let mib: u64 = *rng.pick(&[1024u64, 2048, 3072, 4095, 1, 512]);
            sizes.push(json!({"p": p, "t": if tree {"tree"} else {"data"}, "mib": mib}));
            let blobs = json!([{"id": bid(p).to_hex().as_str(), "type": if tree {"tree"} else {"data"}, "offset": 0, "length": 100}]);
            let ip: IndexPack = serde_json::from_value(json!({"id": pid(p).to_hex().as_str(), "blobs": blobs, "size": mib << 20})).unwrap();
            packs.push(ip);
        }
        let mut totals = Vec::new();
        for mode in ["full", "data-ids", "only-trees"] {
            for (t, bt) in [("tree", BlobType::Tree), ("data", BlobType::Data)] {
                let ps = packs.clone();
                let r = std::panic::catch_unwind(std::panic::AssertUnwindSafe(|| VerifIndex::from_packs(ps, mode).total_size(bt)));
                totals.push(match r {
                    Ok(total) => json!({"mode": mode, "t": t, "outcome": "ok", "mib": total >> 20, "rem": total & 0xF_FFFF}),
                    Err(_) => json!({"mode": mode, "t": t, "outcome": "panic", "mib": 0, "rem": 0}),
                });
            }
        }
        out.rec(&json!({"kind":"bigtotal","id":format!("big{i}"),"sizes":sizes,"totals":totals}));
        n += 1;
    }
    _ = out.finish();
    println!("{}", json!({"records": n}));
}
