//! C16 driver: histories on a hot/cold repository pair (two MemStores on one clock, the cold one optionally
//! rejecting reads of files that were not warmed up), every operation of both stores logged for
//! HotColdTrace.tla; a twin run of the same history on a single store; removal of hot files + repair.
use std::{collections::BTreeMap, sync::Arc};

use rustic_core::{
    BackupOptions, Credentials, FileType, Id, KeyOptions, OpenStatus, Repository, RepositoryOptions, RestoreOptions,
    repofile::{MasterKey, SnapshotFile},
};
use serde_json::{Value, json};

use crate::{
    abs::{Namer, RepoKey, parse_pack, sha256},
    drivers::repo::{config_opts, prune_opts, source_from},
    scn::{self, MemSource, Outcome},
    store::{Clock, MemStore, OpKind, tname},
    util::{Args, Out, Rng},
};

struct Pair {
    cold: MemStore,
    hot: Option<MemStore>,
    key: MasterKey,
    rk: RepoKey,
    pos: usize,
}

impl Pair {
    fn repo(&self, proc_: u32) -> rustic_core::RusticResult<Repository<()>> {
        let hot = self.hot.as_ref().map(|h| h.handle(proc_).arc());
        Repository::new(&RepositoryOptions::default().no_cache(true), &scn::backends(self.cold.handle(proc_).arc(), hot))
    }
    fn open(&self, proc_: u32) -> rustic_core::RusticResult<Repository<OpenStatus>> {
        self.repo(proc_)?.open(&Credentials::Masterkey(self.key.clone()))
    }
}

fn kname(nm: &mut Namer, tpe: u8, id: &Id) -> String {
    if tpe == 0 {
        return "config".into();
    }
    let kind = match tpe {
        4 => 'p',
        1 => 'i',
        3 => 's',
        _ => 'k',
    };
    nm.name(kind, id)
}

/// emit all pending operations of the pair's clock
fn flush(p: &mut Pair, nm: &mut Namer, out: &mut Out, sc: &str) {
    let log = p.cold.log();
    for op in &log[p.pos..] {
        if matches!(op.kind, OpKind::List | OpKind::Create) {
            continue;
        }
        let mut ev = json!({"e":"op","sc":sc,"store":op.store,"kind":op.kind.name(),"tpe":tname(op.tpe),"k":kname(nm, op.tpe, &op.id),
                            "ok":op.ok,"proc":op.proc_,"h":"","pk":""});
        if op.kind == OpKind::Write {
            let data = op.data.as_ref().unwrap();
            ev["h"] = json!(sha256(data).to_hex().as_str()[..12]);
            if op.tpe == 4 {
                let pa = parse_pack(&p.rk, op.id, data);
                let tree = pa.hdr.as_ref().is_some_and(|h| !h.is_empty() && h[0].tree);
                ev["pk"] = json!(if tree { "tree" } else { "data" });
            }
        }
        out.rec(&ev);
    }
    p.pos = log.len();
}

fn expected(src: &MemSource) -> BTreeMap<String, (String, Vec<u8>)> {
    let mut m = BTreeMap::new();
    for e in &src.entries {
        match &e.kind {
            scn::Kind::Dir => _ = m.insert(format!("src/{}", e.path), ("dir".to_string(), vec![])),
            scn::Kind::File(d) => _ = m.insert(format!("src/{}", e.path), ("file".to_string(), d.clone())),
            scn::Kind::Symlink(t) => _ = m.insert(format!("src/{}", e.path), ("symlink".to_string(), t.clone())),
        }
    }
    _ = m.insert("src".into(), ("dir".into(), vec![]));
    m
}

/// run one history; returns per step (result class, restore verdicts)
fn run_history(prog: &Value, hotcold: bool, out: Option<&mut Out>, sc: &str) -> Vec<Value> {
    let seed = prog.get("seed").and_then(Value::as_u64).unwrap_or(1);
    let cfg = prog.get("cfg").cloned().unwrap_or(json!({}));
    let strict = prog.get("strict").and_then(Value::as_bool).unwrap_or(false);
    let clock = Arc::new(Clock::default());
    let key = MasterKey::new();
    let mut p = Pair {
        cold: MemStore::with_clock(clock.clone(), 0, hotcold, hotcold && strict),
        hot: hotcold.then(|| MemStore::with_clock(clock, 1, false, false)),
        rk: scn::repo_key(&key),
        key,
        pos: 0,
    };
    let mut nm = Namer::default();
    let mut sink = out;
    let mut results = Vec::new();
    let mut snaps: Vec<(SnapshotFile, BTreeMap<String, (String, Vec<u8>)>)> = Vec::new();
    let mut emit = |v: Value, sink: &mut Option<&mut Out>| {
        if let Some(o) = sink.as_deref_mut() {
            o.rec(&v);
        }
    };
    emit(json!({"e":"reset","id":sc,"sc":sc,"strict":strict,"hotcold":hotcold}), &mut sink);
    let copts = config_opts(&cfg);
    let init = scn::guard(|| {
        p.repo(0)?
            .init(&Credentials::Masterkey(p.key.clone()), &KeyOptions::default(), &copts)
            .map(|_| ())
    });
    if let Some(o) = sink.as_deref_mut() {
        flush(&mut p, &mut nm, o, sc);
    }
    if !init.is_ok() {
        results.push(json!({"cmd":"init","res":init.class()}));
        return results;
    }
    for (i, st) in prog["steps"].as_array().unwrap().iter().enumerate() {
        let cmd = st["cmd"].as_str().unwrap();
        let proc_ = i as u32 + 1;
        emit(json!({"e":"begin","sc":sc,"cmd":cmd,"proc":proc_}), &mut sink);
        p.cold.cool_down();
        let mut rest = serde_json::Map::new();
        let res: Outcome<()> = match cmd {
            "backup" => {
                let src = source_from(&st["files"], seed, 64);
                let r = scn::guard(|| {
                    let repo = p.open(proc_)?.to_indexed_ids()?;
                    scn::backup_mem(&repo, &src, &BackupOptions::default(), scn::snap_at(1_000_000 + i as i64 * 60))
                });
                match r {
                    Outcome::Ok(sn) => {
                        snaps.push((sn, expected(&src)));
                        Outcome::Ok(())
                    }
                    Outcome::Err(e) => Outcome::Err(e),
                    Outcome::Panic(e) => Outcome::Panic(e),
                }
            }
            "forget" => {
                let ids: Vec<_> = st["snaps"].as_array().unwrap().iter()
                    .filter_map(|x| snaps.get(x.as_u64().unwrap() as usize).map(|s| s.0.id)).collect();
                let r = scn::guard(|| p.open(proc_)?.delete_snapshots(&ids));
                if r.is_ok() {
                    snaps.retain(|s| !ids.contains(&s.0.id));
                }
                r
            }
            "prune" => {
                let po = prune_opts(&st.get("opts").cloned().unwrap_or(json!({})));
                scn::guard(|| {
                    let r = p.open(proc_)?;
                    let plan = r.prune_plan(&po)?;
                    r.prune(&po, plan)
                })
            }
            "config" => scn::guard(|| {
                let mut r = p.open(proc_)?;
                let mut o = rustic_core::ConfigOptions::default();
                if let Some(c) = st.get("compression").and_then(Value::as_i64) {
                    o = o.set_compression(c as i32);
                }
                if let Some(a) = st.get("append_only").and_then(Value::as_bool) {
                    o = o.set_append_only(a);
                }
                r.apply_config(&o).map(|_| ())
            }),
            "repair_index" => scn::guard(|| {
                p.open(proc_)?.repair_index(&rustic_core::RepairIndexOptions::default().read_all(st.get("read_all").and_then(Value::as_bool).unwrap_or(false)), false)
            }),
            "restore" => {
                // restore every snapshot with the real restore command and compare with the source
                let r = scn::guard(|| {
                    let repo = p.open(proc_)?.to_indexed()?;
                    let mut verdicts = Vec::new();
                    for (k, (sn, want)) in snaps.iter().enumerate() {
                        let dir = tempfile::tempdir().unwrap();
                        p.cold.cool_down();
                        let res = scn::restore_to(&repo, sn, dir.path(), &RestoreOptions::default());
                        let got = scn::read_dir_tree(dir.path());
                        let ok = res.is_ok() && got == *want;
                        verdicts.push((k, if ok { "ok" } else if res.is_err() { "err" } else { "bad" }));
                        if !ok {
                            continue;
                        }
                        // restore again over the copy: every file gets another mtime (its blobs are compared, found
                        // matching and need not be read) and one file in turn is outdated (its blobs must be read,
                        // possibly from a pack whose other blobs all match)
                        let files: Vec<&String> = want.iter().filter(|(_, v)| v.0 == "file" && !v.1.is_empty()).map(|(k, _)| k).collect();
                        for (j, victim) in files.iter().enumerate().take(5) {
                            for f in &files {
                                let ft = filetime::FileTime::from_unix_time(1_400_000_000 + j as i64, 0);
                                _ = filetime::set_file_times(dir.path().join(f), ft, ft);
                            }
                            let vp = dir.path().join(victim);
                            let mut data = std::fs::read(&vp).unwrap_or_default();
                            for b in data.iter_mut() {
                                *b ^= 0x5a;
                            }
                            _ = std::fs::write(&vp, data);
                            p.cold.cool_down();
                            let res = scn::restore_to(&repo, sn, dir.path(), &RestoreOptions::default());
                            let got = scn::read_dir_tree(dir.path());
                            if !(res.is_ok() && got == *want) {
                                _ = verdicts.pop();
                                verdicts.push((k, if res.is_err() { "err" } else { "bad" }));
                                break;
                            }
                        }
                    }
                    Ok(verdicts)
                });
                match r {
                    Outcome::Ok(v) => {
                        for (k, verdict) in v {
                            _ = rest.insert(format!("snap{k}"), json!(verdict));
                        }
                        Outcome::Ok(())
                    }
                    Outcome::Err(e) => Outcome::Err(e),
                    Outcome::Panic(e) => Outcome::Panic(e),
                }
            }
            "check" => scn::guard(|| p.open(proc_)?.check(rustic_core::CheckOptions::default())?.is_ok()),
            "hot_damage" => {
                // remove a subset of the hot files behind the library's back
                if let Some(hot) = &p.hot {
                    let mut rng = Rng::new(st["seed"].as_u64().unwrap_or(1));
                    let mode = st["mode"].as_str().unwrap_or("some");
                    let keys: Vec<(u8, Id)> = hot.snapshot().keys().copied().collect();
                    for (t, id) in keys {
                        let hit = match mode {
                            "all" => true,
                            "meta" => t != 4,
                            "packs" => t == 4,
                            _ => rng.chance(1, 2),
                        };
                        if hit {
                            _ = hot.del_raw(crate::store::tfrom(t), &id);
                            emit(json!({"e":"hdamage","sc":sc,"k":kname(&mut nm, t, &id)}), &mut sink);
                        }
                    }
                }
                Outcome::Ok(())
            }
            "repair_hotcold" => scn::guard(|| {
                let r = p.repo(proc_)?.open_only_cold(&Credentials::Masterkey(p.key.clone()))?;
                r.init_hot()?;
                r.repair_hotcold_except_packs(false)?;
                let r = p.open(proc_)?;
                r.repair_hotcold_packs(false)
            }),
            other => panic!("hotcold: unknown command {other}"),
        };
        if let Some(o) = sink.as_deref_mut() {
            flush(&mut p, &mut nm, o, sc);
        }
        emit(json!({"e":"end","sc":sc,"proc":proc_,"cmd":cmd,"res":res.class(),"msg":res.msg()}), &mut sink);
        // what a freshly opened handle sees as the configuration (the hot flag apart) - the same on a single store
        if matches!(cmd, "config" | "repair_hotcold") || i == 0 {
            let view = match scn::guard(|| p.open(proc_ + 500).map(|r| serde_json::to_value(r.config()).unwrap_or(Value::Null))) {
                Outcome::Ok(mut v) => {
                    if let Some(m) = v.as_object_mut() {
                        // the hot flag, and what init draws at random
                        for k in ["is_hot", "id", "chunker_polynomial"] {
                            _ = m.remove(k);
                        }
                    }
                    v
                }
                x => json!(x.class()),
            };
            _ = rest.insert("config_seen".into(), view);
        }
        results.push(json!({"cmd":cmd,"res":res.class(),"rest":rest}));
    }
    results
}

pub fn run(a: &Args) {
    scn::silence_panics();
    let mut out = Out::create(&a.str("out", "hotcold.ndjson"));
    let mut n = 0;
    for line in std::fs::read_to_string(a.str("programs", "")).unwrap().lines() {
        if line.trim().is_empty() {
            continue;
        }
        let prog: Value = serde_json::from_str(line).unwrap();
        let id = prog["id"].as_str().unwrap().to_string();
        let hc = run_history(&prog, true, Some(&mut out), &id);
        // twin: the same history on a single (non-cold) store; hot-only steps are no-ops there
        let mut twin_prog = prog.clone();
        let steps: Vec<Value> = prog["steps"].as_array().unwrap().iter()
            .filter(|s| !matches!(s["cmd"].as_str().unwrap(), "hot_damage" | "repair_hotcold")).cloned().collect();
        twin_prog["steps"] = json!(steps);
        let single = run_history(&twin_prog, false, None, &id);
        let hc_f: Vec<Value> = hc.iter().filter(|s| !matches!(s["cmd"].as_str().unwrap(), "hot_damage" | "repair_hotcold")).cloned().collect();
        out.rec(&json!({"e":"twin","sc":id,"hotcold":hc_f,"single":single}));
        n += 1;
    }
    let ev = out.finish();
    println!("{}", json!({"programs": n, "events": ev}));
}
