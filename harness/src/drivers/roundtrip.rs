//! C01 driver: source trees on a real directory (LocalSource), backed up under a grid of configurations and read back
//! through every read path (restore to disk, dump, ranged reads, ls); the projection of the source (computed from
//! the file system, never from the repository) and of every read-back go to RoundTripTrace.tla.
use std::{
    collections::BTreeMap,
    ffi::OsString,
    os::unix::{
        ffi::{OsStrExt, OsStringExt},
        fs::{MetadataExt, PermissionsExt, symlink},
    },
    path::{Path, PathBuf},
};

use bytesize::ByteSize;
use rustic_core::{
    BackupOptions, ConfigOptions, PathList, RestoreOptions,
    repofile::{Chunker, MasterKey, SnapshotFile},
};
use serde_json::{Value, json};

use crate::{
    abs::{RepoAbs, sha256},
    scn::{self, Outcome},
    store::MemStore,
    util::{Args, Out, Rng},
};

fn hexs(b: &[u8]) -> String {
    hex::encode(b)
}

/// projection of a directory tree: relative path (hex of bytes) -> attributes
fn project(root: &Path, with_meta: bool) -> BTreeMap<String, Value> {
    fn walk(base: &Path, dir: &Path, out: &mut BTreeMap<String, Value>, with_meta: bool, inodes: &mut BTreeMap<(u64, u64), String>) {
        let Ok(rd) = std::fs::read_dir(dir) else { return };
        let mut ents: Vec<_> = rd.flatten().map(|e| e.path()).collect();
        ents.sort();
        for p in ents {
            let rel = p.strip_prefix(base).unwrap().as_os_str().as_bytes().to_vec();
            let Ok(md) = std::fs::symlink_metadata(&p) else { continue };
            let ft = md.file_type();
            let mut v = json!({});
            if ft.is_symlink() {
                v["t"] = json!("symlink");
                v["target"] = json!(hexs(std::fs::read_link(&p).unwrap().as_os_str().as_bytes()));
            } else if ft.is_dir() {
                v["t"] = json!("dir");
            } else {
                v["t"] = json!("file");
                let data = std::fs::read(&p).unwrap_or_default();
                v["size"] = json!(data.len().to_string());
                v["sha"] = json!(sha256(&data).to_hex().as_str()[..16]);
                if md.nlink() > 1 {
                    let key = (md.dev(), md.ino());
                    let label = inodes.entry(key).or_insert_with(|| hexs(&rel)).clone();
                    v["link"] = json!(label);
                }
            }
            if with_meta {
                if !ft.is_symlink() {
                    v["mode"] = json!(format!("{:o}", md.permissions().mode() & 0o7777));
                }
                v["mtime"] = json!(format!("{}.{:09}", md.mtime(), md.mtime_nsec()));
            }
            _ = out.insert(hexs(&rel), v);
            if ft.is_dir() {
                walk(base, &p, out, with_meta, inodes);
            }
        }
    }
    let mut out = BTreeMap::new();
    let mut inodes = BTreeMap::new();
    walk(root, root, &mut out, with_meta, &mut inodes);
    out
}

fn weird_name(rng: &mut Rng, k: u64) -> OsString {
    let b: Vec<u8> = match k % 9 {
        0 => b"plain".to_vec(),
        1 => b"with space and \"quote\"".to_vec(),
        2 => b"back\\slash\\x41".to_vec(),
        3 => b"new\nline\ttab".to_vec(),
        4 => vec![0xff, 0xfe, b'x', 0x80, 0xc3],       // invalid UTF-8
        5 => "ünïcödé-日本語".as_bytes().to_vec(),
        6 => vec![b'n'; 255],                           // longest name
        7 => b"\x01\x02ctrl\x7f".to_vec(),
        _ => {
            let mut v = rng.bytes(rng.clone().range(1, 20) as usize);
            for c in &mut v {
                if *c == 0 || *c == b'/' {
                    *c = b'_';
                }
            }
            if v == b"." || v == b".." {
                v = b"dots".to_vec();
            }
            v
        }
    };
    OsString::from_vec(b)
}

fn content(rng: &mut Rng, kind: u64, chunk: usize, maxc: usize, pack: usize) -> Vec<u8> {
    let len = match kind % 10 {
        0 => 0,
        1 => 1,
        2 => chunk - 1,
        3 => chunk,
        4 => chunk + 1,
        5 => 3 * maxc,
        6 => pack + 17,
        7 => rng.range(2, 2 * chunk as i64) as usize,
        8 => 2 * maxc + 5,
        _ => rng.range(0, 4 * maxc as i64) as usize,
    };
    match (kind / 10) % 3 {
        0 => rng.bytes(len),
        1 => vec![0u8; len],
        _ => {
            let p = rng.rbytes(1, 50);
            (0..len).map(|i| p[i % p.len()]).collect()
        }
    }
}

struct Cfg {
    name: &'static str,
    version: u32,
    opts: ConfigOptions,
    chunk: usize,
    maxc: usize,
    pack: usize,
}

fn configs() -> Vec<Cfg> {
    let base = ConfigOptions::default;
    let bs = ByteSize;
    vec![
        Cfg { name: "rabin-256-64-1024 pack2000", version: 2, chunk: 256, maxc: 1024, pack: 2000,
              opts: base().set_chunk_size(bs(256)).set_chunk_min_size(bs(64)).set_chunk_max_size(bs(1024)).set_datapack_size(bs(2000)).set_treepack_size(bs(2000)).set_datapack_growfactor(0u32).set_treepack_growfactor(0u32) },
        Cfg { name: "fixed-64 pack1 compression0", version: 2, chunk: 64, maxc: 64, pack: 1,
              opts: base().set_chunker(Chunker::FixedSize).set_chunk_size(bs(64)).set_compression(0).set_datapack_size(bs(1)).set_treepack_size(bs(1)).set_datapack_growfactor(0u32).set_treepack_growfactor(0u32) },
        Cfg { name: "rabin-1024-512-4096 zstd19 pack10000", version: 2, chunk: 1024, maxc: 4096, pack: 10000,
              opts: base().set_chunk_size(bs(1024)).set_chunk_min_size(bs(512)).set_chunk_max_size(bs(4096)).set_compression(19).set_datapack_size(bs(10000)).set_treepack_size(bs(500)).set_datapack_growfactor(0u32).set_treepack_growfactor(0u32) },
        Cfg { name: "v1 fixed-100", version: 1, chunk: 100, maxc: 100, pack: 700,
              opts: base().set_chunker(Chunker::FixedSize).set_chunk_size(bs(100)).set_datapack_size(bs(700)).set_treepack_size(bs(700)).set_datapack_growfactor(0u32).set_treepack_growfactor(0u32) },
        Cfg { name: "rabin-64-64-64 zstd-5", version: 2, chunk: 64, maxc: 64, pack: 300,
              opts: base().set_chunk_size(bs(64)).set_chunk_min_size(bs(64)).set_chunk_max_size(bs(64)).set_compression(-5).set_datapack_size(bs(300)).set_treepack_size(bs(300)).set_datapack_growfactor(0u32).set_treepack_growfactor(0u32) },
        Cfg { name: "defaults", version: 2, chunk: 512 * 1024, maxc: 2048, pack: 5000, opts: base() },
        Cfg { name: "rabin-2048-64-2048 extra_verify off", version: 2, chunk: 2048, maxc: 2048, pack: 100,
              opts: base().set_chunk_size(bs(2048)).set_chunk_min_size(bs(64)).set_chunk_max_size(bs(2048)).set_extra_verify(false).set_datapack_size(bs(100)).set_treepack_size(bs(100)) },
        Cfg { name: "fixed-1 tiny", version: 2, chunk: 1, maxc: 1, pack: 50,
              opts: base().set_chunker(Chunker::FixedSize).set_chunk_size(bs(1)).set_datapack_size(bs(50)).set_treepack_size(bs(50)).set_datapack_growfactor(0u32).set_treepack_growfactor(0u32) },
    ]
}

fn build_tree(root: &Path, rng: &mut Rng, c: &Cfg, tree_no: u64) {
    std::fs::create_dir_all(root).unwrap();
    let small = c.chunk == 1; // keep the one-byte-chunk config cheap
    let nfiles = if small { 4 } else { rng.range(3, 9) as u64 };
    // directories: a deep chain, an empty one, one with a weird name
    let mut dirs: Vec<PathBuf> = vec![root.to_path_buf()];
    let mut deep = root.join("deep");
    for i in 0..(if tree_no % 3 == 0 { 12 } else { 2 }) {
        deep = deep.join(format!("l{i}"));
    }
    std::fs::create_dir_all(&deep).unwrap();
    dirs.push(deep);
    std::fs::create_dir_all(root.join("empty")).unwrap();
    let wd = root.join(weird_name(rng, tree_no + 4));
    std::fs::create_dir_all(&wd).unwrap();
    dirs.push(wd);
    std::fs::create_dir_all(root.join("cdir")).unwrap();
    dirs.push(root.join("cdir"));
    let mut files: Vec<PathBuf> = Vec::new();
    for i in 0..nfiles {
        let d = dirs[(i as usize) % dirs.len()].clone();
        let name = weird_name(rng, tree_no * 7 + i);
        let p = d.join(&name);
        if p.exists() {
            continue;
        }
        let data = if small { rng.rbytes(0, 40) } else { content(rng, tree_no * 3 + i, c.chunk.min(4096), c.maxc, c.pack.min(20000)) };
        std::fs::write(&p, data).unwrap();
        files.push(p);
    }
    // identical content in two files (dedup inside one run)
    if let Some(f) = files.first() {
        let p = root.join("twin-of-first");
        std::fs::copy(f, &p).unwrap();
        files.push(p);
    }
    // symlinks: plain, dangling, non-UTF-8 target
    _ = symlink("plain-target", root.join("sl-plain"));
    _ = symlink(OsString::from_vec(vec![0xff, b'/', 0xfe, b't']), root.join("sl-nonutf8"));
    _ = symlink("../outside/../x", root.join("cdir").join("sl-up"));
    // hard links
    if let Some(f) = files.get(1) {
        _ = std::fs::hard_link(f, root.join("hardlink-a"));
        _ = std::fs::hard_link(f, root.join("cdir").join("hardlink-b"));
    }
    // modes and times (after the content exists); directories last
    let modes = [0o644u32, 0o600, 0o755, 0o4755, 0o2750, 0o1777, 0o000, 0o7777, 0o444];
    let times: [(i64, u32); 7] = [(1_600_000_000, 123_456_789), (0, 0), (-86_400, 500), (4_102_444_800, 999_999_999), (1, 1), (946_684_800, 0), (2_147_483_648, 7)];
    let mut all: Vec<PathBuf> = files.clone();
    all.extend(dirs.iter().skip(1).cloned());
    all.push(root.join("empty"));
    for (i, p) in all.iter().enumerate() {
        let (s, ns) = times[(i + tree_no as usize) % times.len()];
        let ft = filetime::FileTime::from_unix_time(s, ns);
        if p.is_file() {
            _ = std::fs::set_permissions(p, std::fs::Permissions::from_mode(modes[(i + tree_no as usize) % modes.len()]));
        } else {
            _ = std::fs::set_permissions(p, std::fs::Permissions::from_mode([0o755u32, 0o700, 0o1777, 0o555][(i + tree_no as usize) % 4]));
        }
        _ = filetime::set_file_times(p, ft, ft);
    }
    for l in ["sl-plain", "sl-nonutf8"] {
        let ft = filetime::FileTime::from_unix_time(1_234_567_890, 42);
        _ = filetime::set_symlink_file_times(root.join(l), ft, ft);
    }
}

fn init_repo(store: &MemStore, key: &MasterKey, c: &Cfg) -> rustic_core::RusticResult<()> {
    let h = store.handle(0);
    if c.version == 1 {
        let mut cf = rustic_core::repofile::ConfigFile::new(1, rustic_core::Id::random().into(), 0x3DA3_358B_4DC1_73);
        c.opts.apply(&mut cf)?;
        rustic_core::Repository::new(&scn::repo_opts(), &scn::backends(h.arc(), None))?
            .init_with_config(&rustic_core::Credentials::Masterkey(key.clone()), &rustic_core::KeyOptions::default(), cf)
            .map(|_| ())
    } else {
        scn::init(&h, key, &c.opts).map(|_| ())
    }
}

fn backup_dir(store: &MemStore, key: &MasterKey, dir: &Path, proc_: u32) -> rustic_core::RusticResult<SnapshotFile> {
    let h = store.handle(proc_);
    let repo = scn::open(&h, key)?.to_indexed_ids()?;
    let opts = BackupOptions::default().as_path(PathBuf::from("s"));
    repo.backup(&opts, &PathList::from_string(dir.to_str().unwrap())?, scn::snap_at(1_700_000_000))
}

fn tojson(m: &BTreeMap<String, Value>) -> Value {
    Value::Array(m.iter().map(|(k, v)| json!({"p": k, "a": v})).collect())
}

pub fn run(a: &Args) {
    scn::silence_panics();
    let mut out = Out::create(&a.str("out", "roundtrip.ndjson"));
    let seed = a.num("seed", 1);
    let mut rng = Rng::new(seed ^ 0xC01);
    let ntrees = a.num("trees", 6);
    let ncfg = a.num("configs", 3) as usize;
    let cfgs = configs();
    let work = PathBuf::from(a.str("work", "/verif/out/C01/tmp"));
    _ = std::fs::remove_dir_all(&work);
    std::fs::create_dir_all(&work).unwrap();
    let mut n = 0;
    for t in 0..ntrees {
        for k in 0..ncfg {
            let c = &cfgs[(t as usize * ncfg + k) % cfgs.len()];
            let id = format!("t{t}c{k}");
            let srcdir = work.join(format!("{id}-src"));
            let mut trng = Rng::new(seed.wrapping_mul(7919).wrapping_add(t));
            build_tree(&srcdir, &mut trng, c, t);
            let key = MasterKey::new();
            // collision file: the serialisation of directory cdir, learned from a throw-away backup
            if t % 2 == 0 {
                let st = MemStore::new();
                if init_repo(&st, &key, c).is_ok() {
                    if let Ok(sn) = backup_dir(&st, &key, &srcdir, 1) {
                        let abs = RepoAbs::from_map(&st.snapshot(), &scn::repo_key(&key));
                        let found = abs.needs(&sn.tree).iter().filter(|b| b.tree).find_map(|b| {
                            let pl = abs.blob_plain(b)?;
                            let nodes = crate::abs::parse_tree(&pl)?;
                            nodes.iter().any(|n| n.name == "sl-up").then(|| pl.to_vec())
                        });
                        if let Some(bytes) = found {
                            std::fs::write(srcdir.join("zz-copy-of-cdir-tree"), bytes).unwrap();
                        }
                    }
                }
            }
            let src_proj = project(&srcdir, true);
            let store = MemStore::new();
            let mut rec = json!({"kind":"roundtrip","id":id,"seed":seed,"cfg":c.name,"src":tojson(&src_proj)});
            let res = scn::guard(|| {
                init_repo(&store, &key, c)?;
                backup_dir(&store, &key, &srcdir, 1)
            });
            match res {
                Outcome::Ok(sn) => {
                    rec["backup"] = json!("ok");
                    let h = store.handle(2);
                    // (1) restore to disk
                    let dest = work.join(format!("{id}-dst"));
                    let r = scn::guard(|| {
                        let repo = scn::open(&h, &key)?.to_indexed()?;
                        scn::restore_to(&repo, &sn, &dest, &RestoreOptions::default())
                    });
                    rec["restore"] = json!(r.class());
                    rec["restore_msg"] = json!(r.msg());
                    rec["restored"] = tojson(&project(&dest.join("s"), true));
                    // (1b) restore once more over the restored copy after part of every larger file was overwritten
                    // (same size, new mtime: the leading chunks are still right, the trailing ones are not) and one file removed
                    let mut damaged = 0;
                    let mut rd = Rng::new(seed ^ t ^ 0xD0);
                    fn damage(dir: &Path, rd: &mut Rng, n: &mut usize) {
                        let Ok(rdir) = std::fs::read_dir(dir) else { return };
                        for e in rdir.flatten() {
                            let p = e.path();
                            let Ok(md) = std::fs::symlink_metadata(&p) else { continue };
                            if md.is_dir() {
                                damage(&p, rd, n);
                            } else if md.is_file() && md.nlink() == 1 && md.len() >= 2 && md.permissions().mode() & 0o200 != 0 {
                                if let Ok(mut d) = std::fs::read(&p) {
                                    let from = match rd.below(3) { 0 => d.len() / 2, 1 => d.len() - 1, _ => rd.below(d.len() as u64) as usize };
                                    for b in &mut d[from..] {
                                        *b = b.wrapping_add(1);
                                    }
                                    if std::fs::write(&p, &d).is_ok() {
                                        *n += 1;
                                    }
                                }
                            }
                        }
                    }
                    if r.is_ok() {
                        damage(&dest.join("s"), &mut rd, &mut damaged);
                        let r1b = scn::guard(|| {
                            let repo = scn::open(&h, &key)?.to_indexed()?;
                            scn::restore_to(&repo, &sn, &dest, &RestoreOptions::default())
                        });
                        rec["restore2"] = json!(r1b.class());
                        rec["restore2_msg"] = json!(r1b.msg());
                        rec["restored2"] = tojson(&project(&dest.join("s"), true));
                    } else {
                        rec["restore2"] = json!("skipped");
                        rec["restore2_msg"] = json!("");
                        rec["restored2"] = json!([]);
                    }
                    rec["damaged_before_restore2"] = json!(damaged);
                    // (2) ls + dump + ranged reads
                    let r2 = scn::guard(|| {
                        let repo = scn::open(&h, &key)?.to_indexed()?;
                        let node = repo.node_from_snapshot_and_path(&sn, "s")?;
                        let mut ls = BTreeMap::new();
                        let mut ranged_bad = Vec::new();
                        let mut rr = Rng::new(seed ^ t);
                        for item in repo.ls(&node, &rustic_core::LsOptions::default())? {
                            let (path, node) = item?;
                            let rel = path.as_os_str().as_bytes().to_vec();
                            let mut v = json!({"t": if node.is_dir() { "dir" } else if node.is_symlink() { "symlink" } else if node.is_file() { "file" } else { "other" }});
                            if node.is_file() {
                                let mut data = Vec::new();
                                repo.dump(&node, &mut data)?;
                                v["size"] = json!(data.len().to_string());
                                v["lssize"] = json!(node.meta.size.to_string());
                                v["sha"] = json!(sha256(&data).to_hex().as_str()[..16]);
                                // ranged reads incl. across chunk borders and past the end
                                let of = repo.open_file(&node)?;
                                // every chunk start (from the index) +-1 with short and long lengths, then random ranges
                                let mut ranges: Vec<(usize, usize)> = Vec::new();
                                let mut start = 0usize;
                                for id in node.content.iter().flatten().take(40) {
                                    let l = repo.get_index_entry(id)?.data_length() as usize;
                                    for off in [start.saturating_sub(1), start, start + 1] {
                                        ranges.push((off, 1));
                                        ranges.push((off, l + 1));
                                    }
                                    start += l;
                                }
                                ranges.push((start, 1));
                                for _ in 0..6 {
                                    ranges.push((rr.range(0, data.len() as i64 + 3) as usize, rr.range(0, data.len() as i64 + 10) as usize));
                                }
                                for (off, len) in ranges {
                                    let got = repo.read_file_at(&of, off, len)?;
                                    let want: &[u8] = if off >= data.len() { &[] } else { &data[off..(off + len).min(data.len())] };
                                    if got.as_ref() != want {
                                        ranged_bad.push(format!("{}@{off}+{len}", hexs(&rel)));
                                    }
                                }
                            }
                            if node.is_symlink() {
                                v["target"] = json!(hexs(node.node_type.to_link().as_os_str().as_bytes()));
                            }
                            if !node.is_symlink() {
                                // the repository stores Go's os.FileMode: permission bits + setuid (bit 23), setgid (22), sticky (20)
                                let g = node.meta.mode.unwrap_or(0);
                                let unix = (g & 0o777) | if g & (1 << 23) != 0 { 0o4000 } else { 0 } | if g & (1 << 22) != 0 { 0o2000 } else { 0 }
                                    | if g & (1 << 20) != 0 { 0o1000 } else { 0 };
                                v["mode"] = json!(format!("{unix:o}"));
                            }
                            if let Some(m) = node.meta.mtime {
                                // normalise to (floor seconds, non-negative nanoseconds) as stat(2) reports it
                                let total = i128::from(m.as_second()) * 1_000_000_000 + i128::from(m.subsec_nanosecond());
                                v["mtime"] = json!(format!("{}.{:09}", total.div_euclid(1_000_000_000), total.rem_euclid(1_000_000_000)));
                            }
                            _ = ls.insert(hexs(&rel), v);
                        }
                        Ok((ls, ranged_bad))
                    });
                    match r2 {
                        Outcome::Ok((ls, bad)) => {
                            rec["read"] = json!("ok");
                            rec["ls"] = tojson(&ls);
                            rec["ranged_bad"] = json!(bad);
                        }
                        o => {
                            rec["read"] = json!(o.class());
                            rec["read_msg"] = json!(o.msg());
                            rec["ls"] = json!([]);
                            rec["ranged_bad"] = json!([]);
                        }
                    }
                    // (3) check
                    let ck = scn::guard(|| scn::open(&h, &key).and_then(|r| scn::check_errors(&r)));
                    rec["check"] = match ck {
                        Outcome::Ok(v) if v.is_empty() => json!("clean"),
                        Outcome::Ok(v) => json!(format!("error: {}", v[0])),
                        o => json!(format!("{}: {}", o.class(), o.msg())),
                    };
                    _ = std::fs::remove_dir_all(&dest);
                }
                o => {
                    rec["backup"] = json!(o.class());
                    rec["backup_msg"] = json!(o.msg());
                }
            }
            out.rec(&rec);
            n += 1;
            _ = std::fs::remove_dir_all(&srcdir);
        }
    }
    _ = std::fs::remove_dir_all(&work);
    _ = out.finish();
    println!("{}", json!({"records": n}));
}
