//! C11 driver: parent-based backup against a forced backup of the same source.
//!
//! A program gives up to two parent source states and the current one (explicit entries: kind, content seed, size,
//! mtime, ctime, inode, link target), the parent options and a damage mode.  The driver backs the parent states up
//! (forced), optionally loses the blobs of chosen parent files from the index (their packs are removed, the index is
//! repaired) or the parents' tree packs, then backs the current state up with the parents and once more with --force.
//! Recorded: for every path the real nodes of the parents, of the result and of the forced backup (from `ls`), which
//! blobs the index held before the backup (independent decoder), which files the archiver opened, both tree ids, the
//! read-back of the result, whether the snapshot was saved.  ParentTrace.tla evaluates the formulas.
use std::collections::{BTreeMap, BTreeSet};

use rustic_core::{
    BackupOptions, FileType, Id, IndexedFullStatus, LsOptions, ParentOptions, RepairIndexOptions, Repository,
    repofile::{MasterKey, NodeType, SnapshotFile},
};
use serde_json::{Value, json};

use crate::{
    abs::{RepoKey, parse_index, parse_pack},
    scn::{self, Entry, Kind, MemSource, Outcome},
    store::MemStore,
    util::{Args, Out, Rng},
};

fn content(seed: u64, len: usize) -> Vec<u8> {
    Rng::new(seed.wrapping_mul(0x9E37_79B9).wrapping_add(77)).bytes(len)
}

pub fn source(entries: &Value) -> MemSource {
    let mut v = Vec::new();
    for e in entries.as_array().unwrap() {
        let path = e["path"].as_str().unwrap();
        let kind = match e["kind"].as_str().unwrap() {
            "dir" => Kind::Dir,
            "link" => Kind::Symlink(e["target"].as_str().unwrap_or("t").as_bytes().to_vec()),
            _ => match e.get("raw").and_then(Value::as_str) {
                Some(h) => Kind::File(hex::decode(h).unwrap()),
                None => Kind::File(content(e["seed"].as_u64().unwrap_or(0), e["size"].as_u64().unwrap_or(0) as usize)),
            },
        };
        v.push(Entry {
            path: path.to_string(),
            kind,
            mtime: e["mtime"].as_i64().unwrap_or(1_600_000_000),
            ctime: e["ctime"].as_i64().unwrap_or(1_600_000_000),
            mode: 0o644,
            inode: e["inode"].as_u64().unwrap_or(0),
        });
    }
    MemSource::new(v)
}

fn short(id: &Id) -> String {
    id.to_hex().as_str()[..10].to_string()
}

/// path -> node facts, through the real ls
fn flatten(repo: &Repository<IndexedFullStatus>, snap: &SnapshotFile) -> Outcome<BTreeMap<String, Value>> {
    scn::guard(|| {
        let node = repo.node_from_snapshot_and_path(snap, "")?;
        let mut m = BTreeMap::new();
        for item in repo.ls(&node, &LsOptions::default())? {
            let (path, n) = item?;
            let (kind, target) = match &n.node_type {
                NodeType::File => ("file", String::new()),
                NodeType::Dir => ("dir", String::new()),
                NodeType::Symlink { .. } => ("link", n.node_type.to_link().to_string_lossy().to_string()),
                _ => ("other", String::new()),
            };
            let ts = |t: Option<rustic_core::jiff::Timestamp>| t.map_or(-1, |t| t.as_second());
            _ = m.insert(
                path.to_string_lossy().to_string(),
                json!({"kind":kind,"target":target,"size":n.meta.size,"mtime":ts(n.meta.mtime),"ctime":ts(n.meta.ctime),"inode":n.meta.inode,
                       "content":n.content.as_ref().map_or(vec![], |c| c.iter().map(|i| short(i)).collect::<Vec<_>>()),
                       "subtree":n.subtree.map_or(String::new(), |t| short(&t))}),
            );
        }
        Ok(m)
    })
}

/// data and tree blobs listed by the index files (not marked for deletion), independently decoded
fn indexed(store: &MemStore, rk: &RepoKey) -> BTreeSet<String> {
    let mut s = BTreeSet::new();
    for (k, v) in store.snapshot().iter().filter(|(k, _)| k.0 == 1) {
        if let Some(ix) = parse_index(rk, k.1, v) {
            for p in &ix.packs {
                for b in &p.blobs {
                    _ = s.insert(short(&b.id));
                }
            }
        }
    }
    s
}

fn packs_of(store: &MemStore) -> BTreeSet<Id> {
    store.ids(FileType::Pack).into_iter().collect()
}

fn run_one(prog: &Value, out: &mut Out) {
    let id = prog["id"].as_str().unwrap().to_string();
    let o = &prog["opts"];
    let b = |k: &str| o.get(k).and_then(Value::as_bool).unwrap_or(false);
    let damage = o.get("damage").and_then(Value::as_str).unwrap_or("none").to_string();
    let store = MemStore::new();
    let h = store.handle(0);
    let key = MasterKey::new();
    let rk = RepoKey::from_master(&key);
    let mut rec = json!({"e":"parent","id":id,"opts":o,"damage":damage});
    let fail = |rec: &mut Value, out: &mut Out, what: &str, msg: String| {
        rec["e"] = json!("toolerr");
        rec["what"] = json!(what);
        rec["msg"] = json!(msg);
        out.rec(rec);
    };
    let cfg = scn::small_config(64, prog.get("pack").and_then(Value::as_u64).unwrap_or(400));
    if let Outcome::Err(e) | Outcome::Panic(e) = scn::guard(|| scn::init(&h, &key, &cfg).map(|_| ())) {
        return fail(&mut rec, out, "init", e);
    }
    let backup = |src: &MemSource, po: ParentOptions, t: i64| -> Outcome<SnapshotFile> {
        scn::guard(|| {
            let r = scn::open(&h, &key)?.to_indexed_ids()?;
            scn::backup_mem(&r, src, &BackupOptions::default().parent_opts(po), scn::snap_at(t))
        })
    };
    // ---- parents
    let mut parents: Vec<SnapshotFile> = Vec::new();
    let mut lost_packs: BTreeSet<Id> = BTreeSet::new();
    let mut tree_packs: BTreeSet<Id> = BTreeSet::new();
    for (i, ps) in prog["parents"].as_array().unwrap().iter().enumerate() {
        // the files whose blobs are to be lost go in first, alone: their blobs land in packs of their own
        let lose: Vec<Value> = ps.as_array().unwrap().iter().filter(|e| e.get("lose").and_then(Value::as_bool).unwrap_or(false)).cloned().collect();
        let mut pre: Option<SnapshotFile> = None;
        if damage == "data" && !lose.is_empty() {
            let before = packs_of(&store);
            match backup(&source(&json!(lose)), ParentOptions::default().force(true), 1_000 + i as i64) {
                Outcome::Ok(s) => pre = Some(s),
                x => return fail(&mut rec, out, "pre-backup", x.msg()),
            }
            for p in packs_of(&store).difference(&before) {
                let data = store.get_raw(FileType::Pack, p).unwrap();
                let pa = parse_pack(&rk, *p, &data);
                if pa.hdr.as_ref().is_some_and(|h| h.iter().all(|b| !b.tree)) {
                    _ = lost_packs.insert(*p);
                }
            }
        }
        let before = packs_of(&store);
        match backup(&source(ps), ParentOptions::default().force(true), 2_000 + i as i64) {
            Outcome::Ok(s) => parents.push(s),
            x => return fail(&mut rec, out, "parent backup", x.msg()),
        }
        for p in packs_of(&store).difference(&before) {
            let data = store.get_raw(FileType::Pack, p).unwrap();
            if parse_pack(&rk, *p, &data).hdr.as_ref().is_some_and(|h| h.iter().any(|b| b.tree)) {
                _ = tree_packs.insert(*p);
            }
        }
        if let Some(s) = pre {
            _ = scn::guard(|| scn::open(&h, &key)?.delete_snapshots(&[s.id]));
        }
    }
    // facts about the parents, before anything is lost
    let full = match scn::guard(|| scn::open(&h, &key)?.to_indexed()) {
        Outcome::Ok(r) => r,
        x => return fail(&mut rec, out, "open", x.msg()),
    };
    let mut pfacts = Vec::new();
    for p in &parents {
        match flatten(&full, p) {
            Outcome::Ok(m) => pfacts.push(json!({"tree": short(&p.tree), "nodes": m})),
            x => return fail(&mut rec, out, "ls parent", x.msg()),
        }
    }
    drop(full);
    // ---- damage
    let gone: Vec<Id> = match damage.as_str() {
        "data" => lost_packs.iter().copied().collect(),
        "tree" => tree_packs.iter().copied().collect(),
        // only sub-trees are lost: the parents' root trees stay loadable
        "subtree" => tree_packs
            .iter()
            .copied()
            .filter(|p| {
                let data = store.get_raw(FileType::Pack, p).unwrap();
                !parse_pack(&rk, *p, &data).hdr.unwrap_or_default().iter().any(|b| parents.iter().any(|sn| *sn.tree == b.id))
            })
            .collect(),
        _ => vec![],
    };
    if !gone.is_empty() {
        for p in &gone {
            _ = store.del_raw(FileType::Pack, p);
        }
        if let Outcome::Err(e) | Outcome::Panic(e) = scn::guard(|| scn::open(&h, &key)?.repair_index(&RepairIndexOptions::default(), false)) {
            return fail(&mut rec, out, "repair_index", e);
        }
    }
    let idx_before = indexed(&store, &rk);
    // ---- the backup under test
    let cur = source(&prog["cur"]);
    let po = ParentOptions::default()
        .parents(parents.iter().map(|p| p.id.to_hex().to_string()).collect::<Vec<_>>())
        .ignore_ctime(b("ignore_ctime"))
        .ignore_inode(b("ignore_inode"))
        .skip_if_unchanged(b("skip_if_unchanged"));
    let nsnap_before = store.ids(FileType::Snapshot).len();
    let res = backup(&cur, po, 3_000);
    let opened: Vec<String> = cur.opened.lock().unwrap().clone();
    let result = match res {
        Outcome::Ok(s) => s,
        x => {
            rec["result"] = json!(x.class());
            rec["msg"] = json!(x.msg());
            rec["parents"] = json!(pfacts);
            out.rec(&rec);
            return;
        }
    };
    let saved = store.ids(FileType::Snapshot).len() > nsnap_before;
    // ---- the reference: the same source, every file read
    let cur2 = source(&prog["cur"]);
    let forced = match backup(&cur2, ParentOptions::default().force(true), 4_000) {
        Outcome::Ok(s) => s,
        x => return fail(&mut rec, out, "forced backup", x.msg()),
    };
    let full = match scn::guard(|| scn::open(&h, &key)?.to_indexed()) {
        Outcome::Ok(r) => r,
        x => return fail(&mut rec, out, "open", x.msg()),
    };
    let ffacts = match flatten(&full, &forced) {
        Outcome::Ok(m) => m,
        x => return fail(&mut rec, out, "ls forced", x.msg()),
    };
    // the result's tree may be unreadable - that is data
    let mut r2 = result.clone();
    r2.id = forced.id; // (only the tree matters for ls)
    let (rfacts, rls) = match flatten(&full, &r2) {
        Outcome::Ok(m) => (json!(m), "ok".to_string()),
        x => (json!({}), format!("{}: {}", x.class(), x.msg())),
    };
    // read-back of the result against the source
    let want: BTreeMap<String, Vec<u8>> = cur
        .entries
        .iter()
        .filter_map(|e| match &e.kind {
            Kind::File(d) => Some((format!("src/{}", e.path), d.clone())),
            _ => None,
        })
        .collect();
    let readback = match scn::guard(|| scn::read_back(&full, &r2)) {
        Outcome::Ok(entries) => {
            let got: BTreeMap<String, Vec<u8>> = entries.into_iter().filter(|e| e.1 == "file").map(|e| (e.0, e.2)).collect();
            if got == want { "ok".to_string() } else { "differs".to_string() }
        }
        x => format!("{}: {}", x.class(), x.msg().chars().take(100).collect::<String>()),
    };
    let sm = result.summary.as_ref();
    rec["parents"] = json!(pfacts);
    rec["indexed"] = json!(idx_before);
    rec["opened"] = json!(opened.iter().map(|p| format!("src/{p}")).collect::<Vec<_>>());
    rec["result"] = json!("ok");
    rec["rtree"] = json!(short(&result.tree));
    rec["ftree"] = json!(short(&forced.tree));
    rec["rnodes"] = rfacts;
    rec["rls"] = json!(rls);
    rec["fnodes"] = json!(ffacts);
    rec["readback"] = json!(readback);
    rec["saved"] = json!(saved);
    rec["lost_packs"] = json!(gone.len());
    rec["summary"] = json!({"unmodified": sm.map_or(0, |s| s.files_unmodified), "changed": sm.map_or(0, |s| s.files_changed), "new": sm.map_or(0, |s| s.files_new)});
    out.rec(&rec);
}

pub fn run(a: &Args) {
    scn::silence_panics();
    let mut out = Out::create(&a.str("out", "parent.ndjson"));
    for line in std::fs::read_to_string(a.str("programs", "")).unwrap().lines() {
        if line.trim().is_empty() {
            continue;
        }
        let prog: Value = serde_json::from_str(line).unwrap();
        run_one(&prog, &mut out);
    }
    let n = out.finish();
    println!("{}", json!({"records": n}));
}
