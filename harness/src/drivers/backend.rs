//! C20 driver: random operation sequences on the locally runnable back ends, every call logged with
//! arguments and result for BackendTrace.tla; pre-publish hook observations and interruptions on the
//! directory back end; stray files planted in the directories.
use std::{collections::BTreeMap, path::Path, sync::Arc};

use bytes::Bytes;
use rustic_backend::{LocalBackend, OpenDALBackend};
use rustic_core::{FileType, Id, ReadBackend, WriteBackend};
use serde_json::{Value, json};

use crate::{
    abs::sha256,
    store::tname,
    util::{Args, Out, Rng},
};

const TYPES: [FileType; 5] = [FileType::Pack, FileType::Index, FileType::Snapshot, FileType::Key, FileType::Config];

fn key_name(t: FileType, id: &Id, names: &mut BTreeMap<Id, usize>) -> String {
    if t == FileType::Config {
        return "config".into();
    }
    let n = names.len();
    let k = *names.entry(*id).or_insert(n + 1);
    format!("{}:{}", tname(crate::store::tnum(t)), k)
}

struct Vals {
    /// value id -> bytes
    v: Vec<Bytes>,
}

impl Vals {
    /// ids of all values whose range [off, off+n) equals `got` (n = whole length for full reads)
    fn matching(&self, got: &[u8], off: usize, full: bool) -> Vec<usize> {
        let d = sha256(got);
        self.v
            .iter()
            .enumerate()
            .filter(|(_, b)| {
                if full {
                    b.len() == got.len() && sha256(b) == d
                } else {
                    off + got.len() <= b.len() && b[off..off + got.len()] == *got
                }
            })
            .map(|(i, _)| i + 1)
            .collect()
    }
}

fn list_event(be: &dyn WriteBackend, t: FileType, names: &mut BTreeMap<Id, usize>, wher: &str) -> Value {
    match be.list_with_size(t) {
        Ok(items) => {
            let its: Vec<Value> = items.iter().map(|(id, len)| json!({"k": key_name(t, id, names), "len": len})).collect();
            json!({"e":"list","tpe":tname(crate::store::tnum(t)),"ok":true,"items":its,"where":wher})
        }
        Err(_) => json!({"e":"list","tpe":tname(crate::store::tnum(t)),"ok":false,"items":[],"where":wher}),
    }
}

fn read_event(be: &dyn WriteBackend, t: FileType, id: &Id, names: &mut BTreeMap<Id, usize>, vals: &Vals, wher: &str) -> Value {
    let k = key_name(t, id, names);
    match be.read_full(t, id) {
        Ok(b) => json!({"e":"read","k":k,"ok":true,"len":b.len(),"match":vals.matching(&b, 0, true),"where":wher}),
        Err(_) => json!({"e":"read","k":k,"ok":false,"len":0,"match":[],"where":wher}),
    }
}

pub fn scenario(kind: &str, sid: &str, nops: usize, maxlen: usize, rng: &mut Rng, out: &mut Out) {
    let dir = tempfile::tempdir().unwrap();
    let root = dir.path().join("repo");
    let be: Arc<dyn WriteBackend> = match kind {
        "local" => Arc::new(LocalBackend::new(root.to_str().unwrap(), Vec::<(String, String)>::new()).unwrap()),
        "opendal-fs" => {
            let mut o = BTreeMap::new();
            _ = o.insert("root".to_string(), root.to_str().unwrap().to_string());
            Arc::new(OpenDALBackend::new("fs", o).unwrap())
        }
        _ => Arc::new(OpenDALBackend::new("memory", BTreeMap::new()).unwrap()),
    };
    out.rec(&json!({"e":"reset","id":sid,"be":kind}));
    be.create().unwrap();
    let mut names: BTreeMap<Id, usize> = BTreeMap::new();
    let mut vals = Vals { v: Vec::new() };
    // a few ids per type, so that overwrites / re-writes / removes of the same key happen
    let ids: Vec<Id> = (0..6).map(|_| Id::new(rng.bytes(32).try_into().unwrap())).collect();
    let mut stray_done = false;
    let mut last_len: std::collections::BTreeMap<String, usize> = std::collections::BTreeMap::new();
    for opn in 0..nops {
        let nt = if rng.chance(1, 10) { 5 } else { 4 };
        let t = *rng.pick(&TYPES[..nt]);
        let id = if t == FileType::Config { Id::default() } else { *rng.pick(&ids) };
        let k = key_name(t, &id, &mut names);
        match rng.below(10) {
            0..=3 => {
                // every third write to a key that was written before has the length of that earlier write (other bytes)
                let len = match (last_len.get(&k), rng.below(3)) {
                    (Some(l), 0) => *l,
                    _ => match rng.below(6) {
                        0 => 0,
                        1 => rng.range(1, 64) as usize,
                        2 => 4096,
                        _ => rng.range(1, maxlen as i64) as usize,
                    },
                };
                _ = last_len.insert(k.clone(), len);
                let data = Bytes::from(rng.bytes(len));
                vals.v.push(data.clone());
                let vid = vals.v.len();
                // on the directory back end: observe the pre-publish point, sometimes interrupt there
                let interrupt = kind == "local" && rng.chance(1, 6);
                let mut pre: Vec<Value> = Vec::new();
                if kind == "local" {
                    let be2 = LocalBackend::new(root.to_str().unwrap(), Vec::<(String, String)>::new()).unwrap();
                    let evs: Arc<std::sync::Mutex<Vec<Value>>> = Arc::default();
                    let evs2 = evs.clone();
                    let names_snapshot = Arc::new(std::sync::Mutex::new(names.clone()));
                    let ns2 = names_snapshot.clone();
                    let vals_copy = Vals { v: vals.v.clone() };
                    rustic_backend::local::verif_hooks::set_pre_publish(Some(Box::new(move |tmp: &Path, _fin: &Path| {
                        let mut nm = ns2.lock().unwrap();
                        let mut e = evs2.lock().unwrap();
                        e.push(json!({"e":"note","what":"pre-publish","tmp_exists":tmp.exists()}));
                        e.push(list_event(&be2, t, &mut nm, "pre-publish"));
                        e.push(read_event(&be2, t, &id, &mut nm, &vals_copy, "pre-publish"));
                        !interrupt
                    })));
                    let res = be.write_bytes(t, &id, false, as_list(&data, rng, kind == "local"));
                    rustic_backend::local::verif_hooks::set_pre_publish(None);
                    pre = evs.lock().unwrap().clone();
                    names = names_snapshot.lock().unwrap().clone();
                    for e in pre {
                        out.rec(&e);
                    }
                    out.rec(&json!({"e":"write","k":k,"tpe":tname(crate::store::tnum(t)),"v":vid,"len":len,"ok":res.is_ok(),"interrupted":interrupt}));
                    if interrupt {
                        // after an interrupted write nothing partial may be listed or readable as new content
                        out.rec(&list_event(be.as_ref(), t, &mut names, "after-interruption"));
                        out.rec(&read_event(be.as_ref(), t, &id, &mut names, &vals, "after-interruption"));
                    }
                } else {
                    let res = be.write_bytes(t, &id, false, as_list(&data, rng, kind == "local"));
                    out.rec(&json!({"e":"write","k":k,"tpe":tname(crate::store::tnum(t)),"v":vid,"len":len,"ok":res.is_ok(),"interrupted":false}));
                }
                _ = pre;
            }
            4 => {
                let res = be.remove(t, &id, false);
                out.rec(&json!({"e":"remove","k":k,"ok":res.is_ok()}));
            }
            5 | 6 => out.rec(&read_event(be.as_ref(), t, &id, &mut names, &vals, "op")),
            7 | 8 => {
                // ranged read inside the current length of whatever is stored (probe the length by listing)
                let cur = be.list_with_size(t).ok().and_then(|l| l.into_iter().find(|(i, _)| *i == id || t == FileType::Config).map(|x| x.1));
                let len = cur.unwrap_or(10) as usize;
                let (off, n) = match rng.below(5) {
                    0 => (0, len),
                    1 => (len, 0),
                    2 => (len.saturating_sub(1), usize::from(len > 0)),
                    _ => {
                        let off = rng.range(0, len as i64) as usize;
                        (off, rng.range(0, (len - off) as i64) as usize)
                    }
                };
                match be.read_partial(t, &id, false, off as u32, n as u32) {
                    Ok(b) => out.rec(&json!({"e":"readp","k":k,"off":off,"n":n,"ok":true,"len":b.len(),"match":vals.matching(&b, off, false)})),
                    Err(_) => out.rec(&json!({"e":"readp","k":k,"off":off,"n":n,"ok":false,"len":0,"match":[]})),
                }
            }
            _ => {
                out.rec(&list_event(be.as_ref(), t, &mut names, "op"));
            }
        }
        if !stray_done && opn == nops / 3 && kind != "opendal-memory" {
            // foreign and temporary files in the directories must be ignored by listings
            stray_done = true;
            for (d, f) in [("snapshots", "README"), ("index", "0123-tmp-"), ("keys", ".DS_Store"), ("data/00", "notanid"),
                           ("snapshots", "00112233445566778899aabbccddeeff00112233445566778899aabbccddeeff-tmp-")] {
                let p = root.join(d);
                _ = std::fs::create_dir_all(&p);
                _ = std::fs::write(p.join(f), b"stray");
            }
            out.rec(&json!({"e":"stray"}));
        }
    }
    for t in TYPES {
        out.rec(&list_event(be.as_ref(), t, &mut names, "final"));
    }
}

/// the content as the library hands it to a back end: a list of chunks - one, or several with empty ones in between
fn as_list(data: &bytes::Bytes, rng: &mut Rng, empties: bool) -> rustic_core::BytesList {
    let mut l = rustic_core::BytesList::default();
    match rng.below(4) {
        0 => l.add(data.clone()),
        _ => {
            let mut pos = 0usize;
            let parts = 1 + rng.below(4);
            for k in 0..=parts {
                if empties && rng.chance(1, 3) {
                    l.add(bytes::Bytes::new()); // an empty chunk before / between / after the others
                }
                let end = if k == parts { data.len() } else { pos + rng.below((data.len() - pos) as u64 + 1) as usize };
                if empties || end > pos || data.is_empty() {
                    l.add(data.slice(pos..end));
                }
                pos = end;
            }
            if empties && rng.chance(1, 3) {
                l.add(bytes::Bytes::new());
            }
        }
    }
    l
}

pub fn run(a: &Args) {
    let mut out = Out::create(&a.str("out", "backend.ndjson"));
    let mut rng = Rng::new(a.num("seed", 1) ^ 0xC20);
    let nseq = a.num("seqs", 5);
    let nops = a.num("ops", 60) as usize;
    let maxlen = a.num("maxlen", 65536) as usize;
    let mut n = 0;
    for kind in ["local", "opendal-fs", "opendal-memory"] {
        for s in 0..nseq {
            scenario(kind, &format!("{kind}-{s}"), nops, maxlen, &mut rng, &mut out);
            n += 1;
        }
    }
    let ev = out.finish();
    println!("{}", json!({"scenarios": n, "events": ev}));
}
