//! C06 driver: real chunk lists (cfg-gated chunk iterator and full backups) for streams x parameters x read
//! fragmentations, with hit positions from a from-definition GF(2) reference, for ChunkerTrace.tla.
use std::io::{Cursor, Read};

use rustic_core::{
    BackupOptions, Id,
    repofile::{Chunker, ConfigFile, MasterKey},
    verif_hooks::chunk_iter,
};
use serde_json::{Value, json};

use crate::{
    scn::{self, Entry, MemSource, Outcome},
    store::MemStore,
    util::{Args, Out, Rng},
};

// ---------------------------------------------------------------- reference: GF(2) from the definition
fn deg(p: u128) -> i32 {
    127 - p.leading_zeros() as i32
}
/// (h * x^8 + b) mod poly, bit by bit
fn push_byte(h: u64, b: u8, poly: u64) -> u64 {
    let mut v: u128 = (u128::from(h) << 8) | u128::from(b);
    let dp = deg(u128::from(poly));
    while deg(v) >= dp {
        v ^= u128::from(poly) << (deg(v) - dp);
    }
    v as u64
}
pub fn fp(window: &[u8], poly: u64) -> u64 {
    window.iter().fold(0u64, |h, b| push_byte(h, *b, poly))
}
fn exps(p: u64) -> Vec<u32> {
    (0..64).filter(|i| p >> i & 1 == 1).collect()
}

/// fragmenting reader (same patterns as MemSource's)
struct Frag {
    cur: Cursor<Vec<u8>>,
    mode: u8,
    state: u64,
}
impl Read for Frag {
    fn read(&mut self, buf: &mut [u8]) -> std::io::Result<usize> {
        if buf.is_empty() {
            return Ok(0);
        }
        match self.mode {
            0 => self.cur.read(buf),
            1 => self.cur.read(&mut buf[..1]),
            _ => {
                self.state = self.state.wrapping_mul(6_364_136_223_846_793_005).wrapping_add(1_442_695_040_888_963_407) | 1;
                let r = (self.state >> 33) % 16;
                if r == 0 {
                    return Err(std::io::Error::new(std::io::ErrorKind::Interrupted, "interrupted"));
                }
                let n = match r {
                    1..=4 => 1,
                    5..=8 => 1 + ((self.state >> 40) as usize % 7),
                    9..=12 => 1 + ((self.state >> 40) as usize % 5000),
                    _ => buf.len(),
                }
                .min(buf.len());
                self.cur.read(&mut buf[..n])
            }
        }
    }
}

fn config(poly: u64, avg: usize, min: usize, max: usize) -> ConfigFile {
    let mut c = ConfigFile::new(2, Id::random().into(), poly);
    c.chunk_size = Some(avg);
    c.chunk_min_size = Some(min);
    c.chunk_max_size = Some(max);
    c
}

fn real_chunks(cfg: &ConfigFile, data: &[u8], mode: u8, seed: u64, hint: usize) -> Outcome<Vec<usize>> {
    let rd = Frag { cur: Cursor::new(data.to_vec()), mode, state: seed | 1 };
    let cfg = cfg.clone();
    let want = data.to_vec();
    scn::guard(move || {
        let mut lens = Vec::new();
        let mut cat = Vec::new();
        for c in chunk_iter(&cfg, rd, hint)? {
            let c = c?;
            lens.push(c.len());
            cat.extend(c);
        }
        if cat != want {
            // not lossless: report as an impossible length list so that Partition fails (unless only the order differs)
            lens.push(usize::MAX / 2);
        }
        Ok(lens)
    })
}

/// hit offsets (chunk lengths n in [min, len]) for a chunk starting at st: literal 64-byte window, and the
/// variant the code uses right after the minimum size (63 bytes before the last byte of the minimum prefix)
fn hits(data: &[u8], st: usize, len: usize, min: usize, mask: u64, poly: u64) -> (Vec<usize>, Vec<usize>) {
    let mut lit = Vec::new();
    let mut d1 = Vec::new();
    if min < 64 {
        return (lit, d1);
    }
    for n in min..=len {
        let end = st + n;
        if fp(&data[end - 64..end], poly) & mask == 0 {
            lit.push(n);
        }
        if n < min + 64 {
            let mut w = data[st + min - 64..st + min - 1].to_vec();
            w.extend_from_slice(&data[st + min..end]);
            // the window holds 64 bytes: older ones have slid out
            let w = &w[w.len().saturating_sub(64)..];
            if fp(w, poly) & mask == 0 {
                d1.push(n);
            }
        }
    }
    (lit, d1)
}

/// the chunk lengths Chunker.tla gives (CutLen with the D1 hit set): the first hit >= min, else max, else the rest
pub fn ref_chunk_lens(data: &[u8], min: usize, max: usize, mask: u64, poly: u64) -> Vec<usize> {
    let mut out = Vec::new();
    let mut st = 0;
    while st < data.len() {
        let rem = data.len() - st;
        if rem <= min {
            out.push(rem);
            break;
        }
        let lim = rem.min(max);
        let (lit, d1) = hits(data, st, lim, min, mask, poly);
        let cut = d1.iter().filter(|n| **n < min + 64).chain(lit.iter().filter(|n| **n >= min + 64)).min().copied().unwrap_or(lim);
        out.push(cut);
        st += cut;
    }
    out
}

fn gen_stream(rng: &mut Rng, kind: u64, len: usize, poly: u64, mask: u64) -> Vec<u8> {
    match kind {
        0 => rng.bytes(len),
        1 => vec![0u8; len],
        2 => {
            let pl = rng.range(1, 97) as usize;
            let p = rng.bytes(pl);
            (0..len).map(|i| p[i % p.len()]).collect()
        }
        3 => {
            // boundary-dense: repeat a 64-byte window whose fingerprint hits
            let mut w = rng.bytes(64);
            for _ in 0..200_000 {
                if fp(&w, poly) & mask == 0 {
                    break;
                }
                w = rng.bytes(64);
            }
            let mut v = Vec::with_capacity(len);
            while v.len() < len {
                if rng.chance(1, 3) {
                    let gl = rng.range(1, 200) as usize;
                    v.extend(rng.bytes(gl));
                }
                v.extend_from_slice(&w);
            }
            v.truncate(len);
            v
        }
        _ => {
            let mut v = rng.bytes(len);
            let z = rng.range(0, len as i64) as usize;
            for b in v.iter_mut().skip(z).take(len / 3) {
                *b = 0;
            }
            v
        }
    }
}

fn starts_of(lens: &[usize]) -> Vec<usize> {
    let mut acc = 0usize;
    lens.iter()
        .map(|l| {
            let s = acc;
            acc = acc.saturating_add(*l);
            s
        })
        .collect()
}

const POLYS: [u64; 3] = [0x003D_A335_8B4D_C173, 0x0035_4F2C_0F5A_E1EB | (1 << 53) | 1, 0x0028_9B3D_6E1C_77A5 | (1 << 53) | 1];

pub fn run(a: &Args) {
    scn::silence_panics();
    let mut out = Out::create(&a.str("out", "chunker.ndjson"));
    let seed = a.num("seed", 1);
    let mut rng = Rng::new(seed ^ 0xC06);
    let nstreams = a.num("streams", 20);
    let maxlen_factor = a.num("lenfactor", 4) as usize;
    // (avg, min, max)
    let params: Vec<(usize, usize, usize)> = vec![
        (64, 64, 64), (64, 64, 256), (128, 64, 1000), (256, 100, 300), (1024, 64, 4096), (1024, 512, 8192),
        (4096, 4096, 16384), (4096, 1000, 5000), (16384, 4097, 65536), (8192, 8192, 8192),
    ];
    let mut rec_n = 0;
    // fingerprint samples: ties the reference to Rabin.tla
    for i in 0..a.num("fpsamples", 24) {
        let poly = POLYS[(i % 3) as usize];
        let wl = if i % 4 == 3 { 63 } else { 64 };
        let w = rng.bytes(wl);
        let f = fp(&w, poly);
        out.rec(&json!({"kind":"fp","id":format!("fp{i}"),"w":w,"poly":exps(poly),"fp":exps(f)}));
        rec_n += 1;
    }
    for sidx in 0..nstreams {
        let (avg, min, max) = params[(sidx as usize) % params.len()];
        let poly = POLYS[(sidx as usize / params.len()) % 3];
        let mask = avg as u64 - 1;
        let len = match rng.below(6) {
            0 => rng.range(0, 70) as usize,
            1 => min,
            2 => rng.range(0, max as i64) as usize,
            _ => rng.range(0, (maxlen_factor * max) as i64) as usize,
        };
        let skind = rng.below(5);
        let data = gen_stream(&mut rng, skind, len, poly, mask);
        let cfg = config(poly, avg, min, max);
        let mut runs = Vec::new();
        let mut outcome = "ok".to_string();
        let mut msg = String::new();
        for (mode, hint) in [(0u8, len), (1, 0), (2, len / 2), (2, len * 3 + 7)] {
            match real_chunks(&cfg, &data, mode, rng.u64(), hint) {
                Outcome::Ok(l) => runs.push(l),
                o => {
                    outcome = o.class().to_string();
                    msg = o.msg();
                    break;
                }
            }
        }
        let mut rec = json!({"kind":"chunks","id":format!("s{sidx}"),"seed":seed,"N":len,"avg":avg,"min":min,"max":max,
                             "outcome":outcome,"msg":msg,"runs":runs,"starts":runs.iter().map(|l| starts_of(l)).collect::<Vec<_>>()});
        if outcome == "ok" {
            let lens = &runs[0];
            let mut st = 0usize;
            let mut hl = Vec::new();
            let mut hd = Vec::new();
            for l in lens {
                if st + l > len {
                    break;
                }
                let (a1, b1) = hits(&data, st, *l, min, mask, poly);
                hl.push(a1);
                hd.push(b1);
                st += l;
            }
            rec["hl"] = json!(hl);
            rec["hd"] = json!(hd);
        }
        out.rec(&rec);
        rec_n += 1;

        // locality: another stream sharing a suffix with this one
        if outcome == "ok" && len > 2 * min + 200 && sidx % 2 == 0 {
            let k = rng.range(1, (len / 2) as i64) as usize;
            let ol = rng.range(0, (2 * max) as i64) as usize;
            let mut other = rng.bytes(ol);
            other.extend_from_slice(&data[k..]);
            if let Outcome::Ok(l2) = real_chunks(&cfg, &other, 0, 1, other.len()) {
                let ends = |lens: &[usize], total: usize| -> Vec<usize> {
                    let mut acc = 0;
                    lens.iter().map(|l| { acc += l; total.saturating_sub(acc) }).collect()
                };
                out.rec(&json!({"kind":"local","id":format!("loc{sidx}"),"shared":len - k,
                    "a":ends(&runs[0], len),"b":ends(&l2, other.len())}));
                rec_n += 1;
            }
        }
        // fixed-size chunker on the same stream
        if sidx % 3 == 0 {
            let size = (*rng.pick(&[1usize, 7, 64, 1000, 4096, 100_000])).max(len / 400);
            let mut c = ConfigFile::new(2, Id::random().into(), poly);
            c.chunker = Some(Chunker::FixedSize);
            c.chunk_size = Some(size);
            let mut fr = Vec::new();
            let mut oc = "ok".to_string();
            for mode in [0u8, 2] {
                match real_chunks(&c, &data, mode, rng.u64(), len) {
                    Outcome::Ok(l) => fr.push(l),
                    o => oc = o.class().to_string(),
                }
            }
            out.rec(&json!({"kind":"fixed","id":format!("fx{sidx}"),"N":len,"size":size,"outcome":oc,
                            "starts":fr.iter().map(|l| starts_of(l)).collect::<Vec<_>>(),"runs":fr}));
            rec_n += 1;
        }
    }
    // public path: a full backup chunks a file exactly like the iterator does
    for b in 0..a.num("backups", 3) {
        let (avg, min, max) = params[(1 + b as usize * 2) % params.len()];
        let poly = POLYS[0];
        let len = rng.range((2 * min) as i64, (3 * max) as i64) as usize;
        let data = rng.bytes(len);
        let cfg = config(poly, avg, min, max);
        let store = MemStore::new();
        let key = MasterKey::new();
        let h = store.handle(0);
        let res = scn::guard(|| {
            let repo = rustic_core::Repository::new(&scn::repo_opts(), &scn::backends(h.clone().arc(), None))?.init_with_config(
                &rustic_core::Credentials::Masterkey(key.clone()),
                &rustic_core::KeyOptions::default(),
                cfg.clone(),
            )?;
            let mut src = MemSource::new(vec![Entry::file("f", data.clone())]);
            src.frag = 77 + b;
            let repo = repo.to_indexed_ids()?;
            let snap = scn::backup_mem(&repo, &src, &BackupOptions::default(), scn::snap_at(1))?;
            let repo = scn::open(&h, &key)?.to_indexed()?;
            let node = repo.node_from_snapshot_and_path(&snap, "src/f")?;
            let mut lens = Vec::new();
            for id in node.content.iter().flatten() {
                lens.push(repo.get_index_entry(id)?.data_length() as usize);
            }
            Ok(lens)
        });
        let direct = real_chunks(&cfg, &data, 0, 1, len);
        let (oc, l1, l2) = match (&res, &direct) {
            (Outcome::Ok(a1), Outcome::Ok(b1)) => ("ok", a1.clone(), b1.clone()),
            _ => ("fail", vec![], vec![]),
        };
        out.rec(&json!({"kind":"backup","id":format!("bk{b}"),"outcome":oc,"msg":res.msg(),"backup":l1,"iter":l2,"N":len,
                        "starts":starts_of(&l1)}));
        rec_n += 1;
    }
    _ = out.finish();
    println!("{}", json!({"records": rec_n}));
}
