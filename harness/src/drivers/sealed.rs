//! C04 drivers.
//!   sealed-msg   : the sealing primitive itself (hook verif_hooks::encrypt_data / decrypt_data): every single-bit flip,
//!                  every truncation, extensions, splices and wrong keys on messages of many lengths; nonce draws.
//!   sealed-store : repositories whose names / contents / metadata carry markers: every file ever written is scanned
//!                  for plaintext, decoded with the independent decoder (sealed under the master key, packs covered
//!                  without gaps), its nonces collected; then every stored file x fault grid with the *affected reads*
//!                  (cat_file for snapshot / index / config, cat_blob for every blob of a pack) classified
//!                  same / diff / err against the undamaged repository.
//!   keys         : behaviours of Keys.tla replayed: open with right / wrong passwords and master keys, add / remove key.
use std::collections::BTreeMap;

use bytes::Bytes;
use rustic_core::{
    BackupOptions, ConfigOptions, Credentials, FileType, Id, KeyOptions, Repository, SnapshotOptions,
    repofile::{KeyId, MasterKey, SnapshotFile},
    verif_hooks,
};
use serde_json::{Value, json};

use crate::{
    abs::{RepoKey, parse_pack},
    scn::{self, Entry, Kind, MemSource, Outcome},
    store::{Map, MemStore, OpKind, tfrom, tname},
    util::{Args, Out, Rng},
};

fn hex(b: &[u8]) -> String {
    hex::encode(b)
}

// ------------------------------------------------------------------------------------------------ sealed-msg
fn class(key: &MasterKey, msg: &[u8], pt: &[u8]) -> &'static str {
    match std::panic::catch_unwind(std::panic::AssertUnwindSafe(|| verif_hooks::decrypt_data(key, msg))) {
        Ok(Ok(p)) if p == pt => "same",
        Ok(Ok(_)) => "diff",
        Ok(Err(_)) => "err",
        Err(_) => "panic",
    }
}

pub fn run_msg(a: &Args) {
    scn::silence_panics();
    let mut out = Out::create(&a.str("out", "sealed-msg.ndjson"));
    let seed = a.num("seed", 1);
    let full = a.has("full");
    let mut rng = Rng::new(seed ^ 0xC04);
    let key = MasterKey::new();
    let rk = RepoKey::from_master(&key);
    out.rec(&json!({"e":"reset","id":format!("msg-{seed}")}));
    let mut lens: Vec<usize> = vec![0, 1, 2, 15, 16, 17, 31, 32, 33, 47, 48, 63, 64, 65, 100, 255, 256, 1000];
    if full {
        lens.extend((3..200).step_by(7));
        lens.extend([4095, 4096, 4097, 70_000]);
    }
    for len in lens {
        let pt = rng.bytes(len);
        let msg = verif_hooks::encrypt_data(&key, &pt).expect("encrypt");
        let mut tally: BTreeMap<&'static str, BTreeMap<&'static str, u64>> = BTreeMap::new();
        let mut add = |kind: &'static str, c: &'static str| *tally.entry(kind).or_default().entry(c).or_default() += 1;
        // format and interoperability with the independent implementation, both directions
        let fmt_ok = msg.len() == len + 32 && rk.open(&msg).as_deref() == Some(&pt[..]);
        let n2: [u8; 16] = rng.bytes(16).try_into().unwrap();
        let theirs = rk.seal(&n2, &pt);
        let interop = class(&key, &theirs, &pt) == "same" && class(&key, &msg, &pt) == "same";
        // every single-bit flip (long messages: every bit of nonce and tag, sampled bits of the body)
        let nbits = msg.len() * 8;
        let bits: Vec<usize> = if nbits <= 20_000 {
            (0..nbits).collect()
        } else {
            let mut v: Vec<usize> = (0..128).chain(nbits - 128..nbits).collect();
            v.extend((0..4000).map(|_| rng.below(nbits as u64) as usize));
            v
        };
        for b in bits {
            let mut m = msg.clone();
            m[b / 8] ^= 1 << (b % 8);
            add("flip", class(&key, &m, &pt));
        }
        // every truncation (long messages: sampled)
        let cuts: Vec<usize> = if msg.len() <= 3000 { (0..msg.len()).collect() } else { (0..64).chain((0..500).map(|_| rng.below(msg.len() as u64) as usize)).collect() };
        for c in cuts {
            add("truncate", class(&key, &msg[..c], &pt));
        }
        // extensions: zeros, random bytes, the message's own tag again
        for n in [1usize, 2, 15, 16, 17, 32] {
            for fill in 0..3 {
                let mut m = msg.clone();
                match fill {
                    0 => m.extend(std::iter::repeat_n(0u8, n)),
                    1 => m.extend(rng.bytes(n)),
                    _ => m.extend(msg[msg.len() - 16..].iter().cycle().take(n)),
                }
                add("extend", class(&key, &m, &pt));
            }
        }
        // bytes dropped at the front / in the middle
        if msg.len() > 33 {
            add("cut-front", class(&key, &msg[1..], &pt));
            add("cut-front", class(&key, &msg[16..], &pt));
            let mut m = msg.clone();
            _ = m.remove(16 + (msg.len() - 32) / 2);
            add("cut-middle", class(&key, &m, &pt));
        }
        // splices with a second message of the same length under the same key
        let pt2 = rng.bytes(len);
        let msg2 = verif_hooks::encrypt_data(&key, &pt2).expect("encrypt");
        if len > 0 {
            let l = msg.len();
            for (what, m) in [
                ("nonce of A, rest of B", [&msg[..16], &msg2[16..]].concat()),
                ("tag of A, rest of B", [&msg2[..l - 16], &msg[l - 16..]].concat()),
                ("body of A in B", [&msg2[..16], &msg[16..l - 16], &msg2[l - 16..]].concat()),
            ] {
                let _ = what;
                let c = match class(&key, &m, &pt2) {
                    "same" => "same",
                    x => x,
                };
                add("splice", c);
            }
        }
        // wrong keys: unrelated, and differing from the right one in one bit of each component
        add("wrongkey", class(&MasterKey::new(), &msg, &pt));
        for part in 0..3 {
            let mut k2 = key.clone();
            match part {
                0 => k2.encrypt[rng.below(32) as usize] ^= 1 << rng.below(8),
                1 => k2.mac.k[rng.below(16) as usize] ^= 1 << rng.below(8),
                _ => k2.mac.r[rng.below(16) as usize] ^= 1,
            }
            // (r is clamped by Poly1305: only the result matters - a key that still opens the message must return it unchanged)
            let c = class(&k2, &msg, &pt);
            // a key that differs only in the AES part passes the MAC (encrypt-then-MAC with separate keys) and yields
            // garbage: recorded, not judged - it is no key an attacker has, and a repository does not open with it
            add(["wrongkey-enc", "wrongkey", "wrongkey-r"][part], c);
        }
        out.rec(&json!({"e":"msg","len":len,"fmt_ok":fmt_ok,"interop":interop,"tally":tally}));
    }
    // nonce draws: the same plaintext and different plaintexts, sealed many times
    let n = if full { 20_000 } else { 3000 };
    let same = b"the same plaintext every time".to_vec();
    let mut nonces = Vec::with_capacity(n);
    let mut cts = std::collections::BTreeSet::new();
    for i in 0..n {
        let pt = if i % 2 == 0 { same.clone() } else { rng.bytes(29) };
        let m = verif_hooks::encrypt_data(&key, &pt).expect("encrypt");
        if i % 2 == 0 {
            _ = cts.insert(m[16..].to_vec());
        }
        nonces.push(hex(&m[..16]));
    }
    let mut bytevar = Vec::new();
    for pos in 0..16 {
        let s: std::collections::BTreeSet<&str> = nonces.iter().map(|h| &h[2 * pos..2 * pos + 2]).collect();
        bytevar.push(s.len());
    }
    out.rec(&json!({"e":"draws","n":n,"nonces":nonces,"bytevar":bytevar,"same_plain_distinct_ct":cts.len(),"same_plain_n":n.div_ceil(2)}));
    _ = out.finish();
    println!("{}", json!({"ok": true}));
}

// ------------------------------------------------------------------------------------------------ sealed-store
const STRUCT_MARKS: [&str; 12] = [
    "\"nodes\"", "\"subtree\"", "\"content\"", "\"hostname\"", "\"paths\"", "\"packs\"", "\"blobs\"", "\"chunker_polynomial\"",
    "\"tree\"", "\"mtime\"", "\"program_version\"", "\"supersedes\"",
];

struct Built {
    store: MemStore,
    key: MasterKey,
    marks: Vec<String>,
}

fn source(r: u64, gen_: u64, rng: &mut Rng, marks: &mut Vec<String>) -> MemSource {
    let mut m = |s: String| -> String {
        marks.push(s.clone());
        s
    };
    let dir = m(format!("DIRMARK{r}-private-papers"));
    let mut entries = vec![Entry::dir(&dir)];
    for i in 0..4u64 {
        let name = m(format!("NAMEMARK{r}x{i}-secret-report.txt"));
        let cm = m(format!("CONTENTMARK{r}g{gen_}f{i}-do-not-leak"));
        let data = match i {
            0 => cm.repeat(12).into_bytes(),                                      // compressible text
            1 => [rng.bytes(150), cm.clone().into_bytes(), rng.bytes(90)].concat(), // marker inside incompressible data
            2 => cm.clone().into_bytes(),                                          // short
            _ => [cm.clone().into_bytes(), vec![0u8; 200], cm.clone().into_bytes()].concat(),
        };
        let path = if i % 2 == 0 { name.clone() } else { format!("{dir}/{name}") };
        let mut e = Entry::file(&path, data);
        e.mtime += gen_ as i64;
        entries.push(e);
    }
    // incompressible files of whole chunks: equal-sized blobs, hence packs of identical layout
    for i in 0..2u64 {
        let name = m(format!("NAMEMARK{r}x{i}-twin.bin"));
        let mut e = Entry::file(&name, rng.bytes(256 * (6 + i as usize)));
        e.mtime += gen_ as i64;
        entries.push(e);
    }
    let link = m(format!("LINKMARK{r}-target-of-link"));
    entries.push(Entry { path: m(format!("SYMMARK{r}-link")), kind: Kind::Symlink(link.into_bytes()), mtime: 1_600_000_000, ctime: 1_600_000_000, mode: 0o777, inode: 0 });
    let mut s = MemSource::new(entries);
    s.root = std::path::PathBuf::from(m(format!("/ROOTMARK{r}-source-root")));
    s
}

fn snap(r: u64, gen_: u64, marks: &mut Vec<String>) -> SnapshotFile {
    let mut m = |s: String| -> String {
        marks.push(s.clone());
        s
    };
    let opts = SnapshotOptions::default()
        .host(m(format!("HOSTMARK{r}-workstation")))
        .label(m(format!("LABELMARK{r}-weekly")))
        .description(m(format!("DESCMARK{r}g{gen_}-description of the snapshot")));
    let mut s = SnapshotFile::from_options(&opts).expect("snapshot options");
    _ = s.add_tags(vec![std::str::FromStr::from_str(&m(format!("TAGMARK{r}-confidential"))).unwrap()]);
    s.time = rustic_core::jiff::Timestamp::from_second(1_700_000_000 + gen_ as i64 * 86_400).unwrap().to_zoned(rustic_core::jiff::tz::TimeZone::UTC);
    s
}

fn build(r: u64, rng: &mut Rng) -> Option<Built> {
    let store = MemStore::new();
    let h = store.handle(0);
    let key = MasterKey::new();
    let mut marks = Vec::new();
    let mut cfg = scn::small_config(*rng.pick(&[64u64, 128, 256]), *rng.pick(&[300u64, 600, 2000]));
    match r % 3 {
        0 => cfg = cfg.set_compression(0i32),
        1 => cfg = cfg.set_compression(3i32),
        _ => {}
    }
    let res = scn::guard(|| {
        let repo = scn::init(&h, &key, &cfg)?;
        // key files (not part of the claim, but present as in every real repository)
        let _ = repo.add_key("correct horse", &KeyOptions::default().hostname("KEYHOST".to_string()).username("KEYUSER".to_string()))?;
        for g in 0..3u64 {
            let repo = scn::open(&h, &key)?.to_indexed_ids()?;
            let src = source(r, g.min(1 + (r % 2)), rng, &mut marks);
            let _ = scn::backup_mem(&repo, &src, &BackupOptions::default(), snap(r, g, &mut marks))?;
            if g == 0 && r % 2 == 0 {
                // a config change rewrites the config file: same name, new message
                let mut r2 = scn::open(&h, &key)?;
                let _ = r2.apply_config(&ConfigOptions::default().set_compression(5i32))?;
            }
        }
        // forget the first snapshot and repack
        let repo = scn::open(&h, &key)?;
        let snaps = repo.get_all_snapshots()?;
        if let Some(first) = snaps.iter().min_by_key(|s| s.time.clone()) {
            repo.delete_snapshots(&[first.id])?;
        }
        let po = crate::drivers::repo::prune_opts(&json!({"instant": true, "max_unused": "0%", "max_repack": "unlimited", "repack_all": r % 2 == 1}));
        let plan = repo.prune_plan(&po)?;
        repo.prune(&po, plan)?;
        Ok(())
    });
    if !res.is_ok() {
        eprintln!("sealed-store: building repository {r} failed: {}", res.msg());
        return None;
    }
    marks.sort();
    marks.dedup();
    Some(Built { store, key, marks })
}

fn find(hay: &[u8], needle: &[u8]) -> bool {
    !needle.is_empty() && hay.windows(needle.len()).any(|w| w == needle)
}

/// plaintext of the affected reads on the repository held in `map`
fn reads(map: &Map, key: &MasterKey, tpe: u8, id: &Id, blobs: &[(bool, Id)]) -> Vec<Outcome<Bytes>> {
    let st = MemStore::from_map(map.clone());
    st.0.log_reads.store(false, std::sync::atomic::Ordering::Relaxed);
    let h = st.handle(1);
    match tpe {
        0 => vec![scn::guard(|| {
            let r = scn::open(&h, key)?;
            Ok(Bytes::from(serde_json::to_vec(r.config()).unwrap()))
        })],
        4 => {
            let repo = scn::guard(|| scn::open(&h, key)?.to_indexed());
            blobs
                .iter()
                .map(|(tree, bid)| match &repo {
                    Outcome::Ok(r) => scn::guard(|| {
                        r.cat_blob(if *tree { rustic_core::repofile::BlobType::Tree } else { rustic_core::repofile::BlobType::Data }, bid.to_hex().as_str())
                    }),
                    Outcome::Err(e) => Outcome::Err(e.clone()),
                    Outcome::Panic(p) => Outcome::Panic(p.clone()),
                })
                .collect()
        }
        // snapshot files are also read by the listing calls, index files by loading the index
        3 => vec![
            scn::guard(|| scn::open(&h, key)?.cat_file(tfrom(3), id.to_hex().as_str())),
            scn::guard(|| {
                let mut v: Vec<String> = scn::open(&h, key)?.get_all_snapshots()?.iter().map(|s| format!("{}:{}", s.id, s.tree)).collect();
                v.sort();
                Ok(Bytes::from(v.join(",")))
            }),
        ],
        1 => vec![
            scn::guard(|| scn::open(&h, key)?.cat_file(tfrom(1), id.to_hex().as_str())),
            scn::guard(|| {
                let r = scn::open(&h, key)?.to_indexed()?;
                let mut v: Vec<String> = blobs
                    .iter()
                    .map(|(tree, bid)| {
                        let tp = if *tree { rustic_core::repofile::BlobType::Tree } else { rustic_core::repofile::BlobType::Data };
                        format!("{bid}:{}", r.cat_blob(tp, bid.to_hex().as_str()).map_or_else(|_| "unreadable".to_string(), |b| b.len().to_string()))
                    })
                    .collect();
                v.sort();
                Ok(Bytes::from(v.join(",")))
            }),
        ],
        t => vec![scn::guard(|| scn::open(&h, key)?.cat_file(tfrom(t), id.to_hex().as_str()))],
    }
}

/// every snapshot of the repository held in `map` really restored to disk: snapshot id -> (relative path -> (type, content))
fn restore_all(map: &Map, key: &MasterKey) -> Outcome<BTreeMap<String, BTreeMap<String, (String, Vec<u8>)>>> {
    let st = MemStore::from_map(map.clone());
    st.0.log_reads.store(false, std::sync::atomic::Ordering::Relaxed);
    let h = st.handle(1);
    scn::guard(|| {
        let repo = scn::open(&h, key)?.to_indexed()?;
        let mut out = BTreeMap::new();
        for sn in repo.get_all_snapshots()? {
            let dir = tempfile::tempdir().map_err(|e| rustic_core::RusticError::new(rustic_core::ErrorKind::InputOutput, e.to_string()))?;
            scn::restore_to(&repo, &sn, &dir.path().join("d"), &rustic_core::RestoreOptions::default())?;
            _ = out.insert(sn.id.to_hex().to_string(), scn::read_dir_tree(&dir.path().join("d")));
        }
        Ok(out)
    })
}

pub fn run_store(a: &Args) {
    scn::silence_panics();
    let mut out = Out::create(&a.str("out", "sealed-store.ndjson"));
    let seed = a.num("seed", 1);
    let full = a.has("full");
    let nrepos = a.num("repos", 2);
    let mut rng = Rng::new(seed ^ 0x5EA1ED);
    for r in 0..nrepos {
        let Some(b) = build(r + seed * 100, &mut rng) else {
            out.rec(&json!({"e":"buildfail","repo":r}));
            continue;
        };
        let rk = RepoKey::from_master(&b.key);
        out.rec(&json!({"e":"reset","id":format!("store-{seed}-{r}")}));
        // ---- every file ever written (key files excluded)
        let mut in_plain = 0usize;
        let mut nfile = 0usize;
        for op in b.store.log().iter().filter(|o| o.kind == OpKind::Write && o.ok && o.tpe != 2) {
            let data = op.data.as_ref().unwrap();
            let mut nonces = Vec::new();
            let mut plains: Vec<Vec<u8>> = Vec::new();
            let sealed = if op.tpe == 4 {
                let p = parse_pack(&rk, op.id, data);
                match &p.hdr {
                    Some(h) => {
                        for hb in h {
                            nonces.push(hex(&data[hb.off as usize..hb.off as usize + 16]));
                        }
                        let hl = u32::from_le_bytes(data[data.len() - 4..].try_into().unwrap()) as usize;
                        nonces.push(hex(&data[data.len() - 4 - hl..data.len() - 4 - hl + 16]));
                        plains.extend(p.plain.iter().flatten().map(|x| x.to_vec()));
                        p.layout_ok && p.plain.iter().all(Option::is_some) && p.name_ok
                    }
                    None => false,
                }
            } else {
                nonces.push(hex(&data[..16.min(data.len())]));
                match rk.open_file(data) {
                    Some(p) => {
                        plains.push(p);
                        crate::abs::sha256(data) == op.id || op.tpe == 0
                    }
                    None => false,
                }
            };
            let hits: Vec<&str> = b.marks.iter().map(String::as_str).chain(STRUCT_MARKS).filter(|m| find(data, m.as_bytes())).collect();
            in_plain += b.marks.iter().filter(|m| plains.iter().any(|p| find(p, m.as_bytes()))).count();
            nfile += 1;
            out.rec(&json!({"e":"stored","seq":op.seq,"tpe":tname(op.tpe),"file":op.id.to_hex().as_str()[..8],"len":data.len(),
                            "sealed":sealed,"plain_hits":hits,"nonces":nonces}));
        }
        // the scan is meaningful only if the markers really are inside what was sealed
        out.rec(&json!({"e":"scan","files":nfile,"marks":b.marks.len(),"marks_in_plaintext":in_plain}));

        // ---- tamper grid on the final state
        let base = b.store.snapshot();
        let files: Vec<((u8, Id), Bytes)> = base.iter().filter(|(k, _)| k.0 != 2).map(|(k, v)| (*k, v.clone())).collect();
        let restored0 = match restore_all(&base, &b.key) {
            Outcome::Ok(r) => r,
            x => {
                out.rec(&json!({"e":"toolerr","what":"undamaged restore failed","tpe":"all","msg":[x.msg()]}));
                continue;
            }
        };
        for ((t, id), data) in &files {
            let len = data.len();
            let (layout, blobs, hstart): (Vec<(u32, u32)>, Vec<(bool, Id)>, usize) = if *t == 4 {
                let p = parse_pack(&rk, *id, data);
                let h = p.hdr.unwrap_or_default();
                let hl = u32::from_le_bytes(data[len - 4..].try_into().unwrap()) as usize;
                (h.iter().map(|x| (x.off, x.len)).collect(), h.iter().map(|x| (x.tree, x.id)).collect(), len - 4 - hl)
            } else if *t == 1 {
                // the blobs this index file lists: loading the index must give them all, or fail
                let bl = crate::abs::parse_index(&rk, *id, data)
                    .map(|ix| ix.packs.iter().filter(|p| !p.marked).flat_map(|p| p.blobs.iter().map(|x| (x.tree, x.id))).take(12).collect())
                    .unwrap_or_default();
                (vec![], bl, 0)
            } else {
                (vec![], vec![], 0)
            };
            let orig = reads(&base, &b.key, *t, id, &blobs);
            if orig.iter().any(|o| !o.is_ok()) {
                out.rec(&json!({"e":"toolerr","what":"undamaged read failed","tpe":tname(*t),"msg":orig.iter().map(Outcome::msg).collect::<Vec<_>>()}));
                continue;
            }
            let orig: Vec<Bytes> = orig.into_iter().map(|o| o.ok().unwrap()).collect();
            let mut faults: Vec<(Value, Bytes)> = Vec::new();
            let mut flips: Vec<usize> = vec![0, 7, 15, 16, 17, len / 2, len.saturating_sub(17), len.saturating_sub(16), len.saturating_sub(1)];
            let mut cuts: Vec<usize> = vec![0, 1, 15, 16, 17, 31, 32, 33, len / 2, len.saturating_sub(16), len.saturating_sub(1)];
            if *t == 4 {
                for (off, l) in &layout {
                    let (off, l) = (*off as usize, *l as usize);
                    flips.extend([off, off + 15, off + 16, off + l / 2, off + l - 16, off + l - 1]);
                    cuts.extend([off, off + 1, off + l - 1, off + l]);
                }
                flips.extend([hstart, hstart + 16, hstart + 20, len - 5, len - 4, len - 1]);
                cuts.extend([hstart, hstart + 1, len - 4, len - 5]);
            }
            for _ in 0..(if full { 24 } else { 4 }) {
                flips.push(rng.below(len as u64) as usize);
                cuts.push(rng.below(len as u64) as usize);
            }
            flips.sort_unstable();
            flips.dedup();
            cuts.sort_unstable();
            cuts.dedup();
            for f in flips.into_iter().filter(|f| *f < len) {
                let mut v = data.to_vec();
                let bit = rng.below(8);
                v[f] ^= 1 << bit;
                faults.push((json!({"fault":"flip","pos":f,"bit":bit}), Bytes::from(v)));
            }
            for c in cuts.into_iter().filter(|c| *c < len) {
                faults.push((json!({"fault":"truncate","pos":c}), data.slice(0..c)));
            }
            for n in [1usize, 16, 32] {
                let mut v = data.to_vec();
                v.extend(rng.bytes(n));
                faults.push((json!({"fault":"extend","pos":n}), Bytes::from(v)));
            }
            // substitution by every sibling of the same type (capped), same-layout siblings first
            let mut sibs: Vec<&((u8, Id), Bytes)> = files.iter().filter(|((t2, id2), _)| t2 == t && id2 != id).collect();
            sibs.sort_by_key(|(_, d)| (d.len() as i64 - len as i64).abs());
            for ((_, oid), od) in sibs.into_iter().take(if full { 6 } else { 3 }) {
                let olayout: Vec<(u32, u32)> = if *t == 4 { parse_pack(&rk, *oid, od).hdr.unwrap_or_default().iter().map(|x| (x.off, x.len)).collect() } else { vec![] };
                faults.push((json!({"fault":"swap","pos":0,"other":oid.to_hex().as_str()[..8],"olayout":olayout,"olen":od.len()}), od.clone()));
            }
            for (mut desc, newdata) in faults {
                let mut m = base.clone();
                _ = m.insert((*t, *id), newdata);
                let res = reads(&m, &b.key, *t, id, &blobs);
                let classes: Vec<Value> = res
                    .iter()
                    .zip(&orig)
                    .enumerate()
                    .map(|(i, (r, o))| {
                        let c = match r {
                            Outcome::Ok(x) if x == o => "same",
                            Outcome::Ok(_) => "diff",
                            Outcome::Err(_) => "err",
                            Outcome::Panic(_) => "panic",
                        };
                        json!({"i": i + 1, "res": c})
                    })
                    .collect();
                // the restore read path (its own code: commands/restore.rs reads the packs directly), for pack faults
                let restore = if *t == 4 {
                    match restore_all(&m, &b.key) {
                        Outcome::Ok(r) if r == restored0 => "same",
                        Outcome::Ok(_) => "diff",
                        Outcome::Err(_) => "err",
                        Outcome::Panic(_) => "panic",
                    }
                } else {
                    "skipped"
                };
                let d = desc.as_object_mut().unwrap();
                _ = d.insert("restore".into(), json!(restore));
                _ = d.insert("e".into(), json!("tamper"));
                _ = d.insert("tpe".into(), json!(tname(*t)));
                _ = d.insert("file".into(), json!(id.to_hex().as_str()[..8]));
                _ = d.insert("len".into(), json!(len));
                _ = d.insert("layout".into(), json!(layout));
                _ = d.insert("hstart".into(), json!(hstart));
                _ = d.insert("reads".into(), json!(classes));
                out.rec(&desc);
            }
        }
    }
    _ = out.finish();
    println!("{}", json!({"ok": true}));
}

// ------------------------------------------------------------------------------------------------ keys
fn password(p: &str, step: usize) -> String {
    match p {
        "pa" => "correct horse".into(),
        "pb" => "correct horse ".into(), // differs by a trailing blank
        "pc" => "battery staple \u{00e9}\u{4e2d}".into(),
        // never added: different case / prefix / extension / empty
        _ => ["Correct horse", "correct hors", "correct horse  ", "", "correct horse\n"][step % 5].into(),
    }
}

fn replay_keys(prog: &Value, idx: usize) -> Vec<Value> {
    let mut ev = vec![json!({"e":"reset","id":format!("keys-{idx}")})];
    let store = MemStore::new();
    let h = store.handle(0);
    let steps = prog.as_array().unwrap();
    let mut ids: BTreeMap<KeyId, u64> = BTreeMap::new();
    let mut next = 1u64;
    let mut master: Option<MasterKey> = None;
    let mut cur: Option<scn::Repo> = None;
    let new_repo = || Repository::new(&scn::repo_opts(), &scn::backends(h.clone().arc(), None));
    for (si, st) in steps.iter().enumerate() {
        let op = st[0].as_str().unwrap();
        let mut rec = json!({"e":"op","op":op,"model_res":st[2],"model_kid":st[3]});
        let (res, msg): (String, String) = match op {
            "init" => {
                let pw = password(st[1].as_str().unwrap(), si);
                rec["pw"] = json!(st[1]);
                match scn::guard(|| new_repo()?.init(&Credentials::password(pw.clone()), &KeyOptions::default(), &scn::small_config(64, 300))) {
                    Outcome::Ok(r) => {
                        if let Some(k) = r.key_id() {
                            _ = ids.insert(*k, next);
                            rec["kid"] = json!(next);
                            next += 1;
                        }
                        master = Some(r.key());
                        cur = Some(r);
                        ("ok".into(), String::new())
                    }
                    o => (o.class().into(), o.msg()),
                }
            }
            "open" => {
                let pw = password(st[1].as_str().unwrap(), si);
                rec["pw"] = json!(st[1]);
                rec["pwlen"] = json!(pw.len());
                // every second open takes the password from a password file (one line, as the CLI passes it)
                let via_file = si % 2 == 1 && !pw.contains(['\n', '\r']);
                rec["via_file"] = json!(via_file);
                let creds = if via_file {
                    let dir = tempfile::tempdir().unwrap();
                    let f = dir.path().join("pw");
                    std::fs::write(&f, format!("{pw}\n")).unwrap();
                    let mut o = rustic_core::CredentialOptions::default();
                    o.password_file = Some(f);
                    match o.credentials() {
                        Ok(Some(c)) => c,
                        _ => Credentials::password(pw.clone()),
                    }
                } else {
                    Credentials::password(pw.clone())
                };
                match scn::guard(|| new_repo()?.open(&creds)) {
                    Outcome::Ok(r) => {
                        rec["kid"] = json!(r.key_id().and_then(|k| ids.get(&k).copied()).unwrap_or(0));
                        // the session must really work: the master key it holds is the repository's
                        let good = master.as_ref().is_some_and(|m| RepoKey::from_master(m).0 == RepoKey::from_master(&r.key()).0);
                        rec["right_master"] = json!(good);
                        cur = Some(r);
                        ("ok".into(), String::new())
                    }
                    o => {
                        rec["kid"] = json!(0);
                        (o.class().into(), o.msg())
                    }
                }
            }
            "openmaster" => {
                let good = st[1].as_bool().unwrap();
                rec["good"] = json!(good);
                let k = if good {
                    master.clone().unwrap()
                } else {
                    // differs from the master key in one bit
                    let mut k = master.clone().unwrap();
                    k.encrypt[si % 32] ^= 1 << (si % 8);
                    k
                };
                match scn::guard(|| new_repo()?.open(&Credentials::Masterkey(k.clone()))) {
                    Outcome::Ok(r) => {
                        cur = Some(r);
                        ("ok".into(), String::new())
                    }
                    o => (o.class().into(), o.msg()),
                }
            }
            "add" => {
                let pw = password(st[1].as_str().unwrap(), si);
                rec["pw"] = json!(st[1]);
                match cur.as_ref().map(|r| scn::guard(|| r.add_key(&pw, &KeyOptions::default()))) {
                    Some(Outcome::Ok(k)) => {
                        _ = ids.insert(k, next);
                        rec["kid"] = json!(next);
                        next += 1;
                        ("ok".into(), String::new())
                    }
                    Some(o) => (o.class().into(), o.msg()),
                    None => ("nosession".into(), String::new()),
                }
            }
            "remove" => {
                let n = st[1].as_u64().unwrap();
                rec["kid"] = json!(n);
                let kid = ids.iter().find(|(_, v)| **v == n).map(|(k, _)| *k);
                match (cur.as_ref(), kid) {
                    (Some(r), Some(k)) => {
                        let o = scn::guard(|| r.delete_key(&k));
                        (o.class().into(), o.msg())
                    }
                    _ => ("nosession".into(), String::new()),
                }
            }
            "close" => {
                cur = None;
                ("ok".into(), String::new())
            }
            _ => ("skip".into(), String::new()),
        };
        rec["res"] = json!(res);
        rec["msg"] = json!(msg.chars().take(120).collect::<String>());
        ev.push(rec);
        let stored: Vec<u64> = store.ids(FileType::Key).iter().map(|i| ids.get(&KeyId::from(*i)).copied().unwrap_or(0)).collect();
        ev.push(json!({"e":"keys","ids":stored}));
    }
    ev
}

pub fn run_keys(a: &Args) {
    scn::silence_panics();
    let mut out = Out::create(&a.str("out", "keys.ndjson"));
    let progs: Vec<Value> = std::fs::read_to_string(a.str("programs", "")).unwrap().lines().filter(|l| !l.trim().is_empty()).map(|l| serde_json::from_str(l).unwrap()).collect();
    let nthreads = a.num("threads", 8) as usize;
    let results: Vec<Vec<Value>> = std::thread::scope(|s| {
        let chunks: Vec<Vec<(usize, &Value)>> = (0..nthreads).map(|t| progs.iter().enumerate().filter(|(i, _)| i % nthreads == t).collect()).collect();
        let hs: Vec<_> = chunks.into_iter().map(|c| s.spawn(move || c.into_iter().map(|(i, p)| (i, replay_keys(p, i))).collect::<Vec<_>>())).collect();
        let mut all: Vec<(usize, Vec<Value>)> = hs.into_iter().flat_map(|h| h.join().unwrap()).collect();
        all.sort_by_key(|x| x.0);
        all.into_iter().map(|x| x.1).collect()
    });
    for evs in results {
        for e in evs {
            out.rec(&e);
        }
    }
    _ = out.finish();
    println!("{}", json!({"behaviours": progs.len()}));
}
