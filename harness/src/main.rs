//! vh — verification harness for rustic_core (drivers emit ndjson for TLC, or replay TLC behaviours)
mod abs;
mod drivers;
mod scn;
mod store;
mod util;
mod world;

fn main() {
    let argv: Vec<String> = std::env::args().collect();
    if argv.len() < 2 {
        eprintln!("usage: vh <driver> [--key value]...");
        std::process::exit(2);
    }
    let a = util::Args::parse(&argv[2..]);
    // every driver: if nothing is written for fifteen minutes the process ends with exit code 3 and <out>.hang
    util::watch::start(format!("{}.hang", a.str("out", "vh-out")));
    match argv[1].as_str() {
        "forget" => drivers::forget::run(&a),
        "probe" => drivers::probe::run(&a),
        "damage" => drivers::damage::run(&a),
        "sealed-msg" => drivers::sealed::run_msg(&a),
        "sealed-store" => drivers::sealed::run_store(&a),
        "keys" => drivers::sealed::run_keys(&a),
        "parent" => drivers::parent::run(&a),
        "trees" => drivers::trees::run(&a),
        "prunedecide" => drivers::prunedecide::run(&a),
        "bigpack" => drivers::bigpack::run(&a),
        "restore" => drivers::restore::run(&a),
        "roundtrip" => drivers::roundtrip::run(&a),
        "sched" => drivers::sched::run(&a),
        "dedup" => drivers::dedup::run(&a),
        "cache" => drivers::cache::run(&a),
        "hotcold" => drivers::hotcold::run(&a),
        "chunker" => drivers::chunker::run(&a),
        "config" => drivers::config::run(&a),
        "backend" => drivers::backend::run(&a),
        "index" => drivers::index::run(&a),
        "repo" => drivers::repo::run(&a),
        d => {
            eprintln!("unknown driver {d}");
            std::process::exit(2);
        }
    }
}
