fn main() { println!("vh"); }
