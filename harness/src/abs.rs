//! Abstraction function: an *independent* decoder of the restic/rustic repository
//! format (envelope, repo files, pack trailer, index, snapshot, tree), written from
//! the format description and not using rustic_core's codecs, plus the projection of
//! a whole store onto the abstract state the TLA+ specifications talk about, and a
//! minimal independent *encoder* used to plant hand-made packs / index files.
use std::collections::{BTreeMap, BTreeSet};

use aes256ctr_poly1305aes::{
    Aes256CtrPoly1305Aes,
    aead::{Aead, Nonce},
};
use bytes::Bytes;
use rustic_core::{Id, repofile::MasterKey};
use serde_json::{Value, json};
use sha2::{Digest, Sha256};

use crate::store::Map;

pub fn sha256(data: &[u8]) -> Id {
    let d = Sha256::digest(data);
    let mut a = [0u8; 32];
    a.copy_from_slice(&d[..]);
    Id::new(a)
}

pub fn id_bytes(id: &Id) -> [u8; 32] {
    let mut a = [0u8; 32];
    hex::decode_to_slice(id.to_hex().as_str(), &mut a).unwrap();
    a
}

#[derive(Clone)]
pub struct RepoKey(pub [u8; 64]);

impl RepoKey {
    pub fn from_master(m: &MasterKey) -> Self {
        let mut k = [0u8; 64];
        k[0..32].copy_from_slice(&m.encrypt);
        k[32..48].copy_from_slice(&m.mac.k);
        k[48..64].copy_from_slice(&m.mac.r);
        Self(k)
    }
    fn cipher(&self) -> Aes256CtrPoly1305Aes {
        Aes256CtrPoly1305Aes::new(aes256ctr_poly1305aes::Key::from_slice(&self.0))
    }
    /// nonce(16) || ciphertext || tag(16)
    pub fn open(&self, data: &[u8]) -> Option<Vec<u8>> {
        if data.len() < 32 {
            return None;
        }
        let nonce = Nonce::<Aes256CtrPoly1305Aes>::clone_from_slice(&data[0..16]);
        self.cipher().decrypt(&nonce, &data[16..]).ok()
    }
    pub fn seal(&self, nonce: &[u8; 16], pt: &[u8]) -> Vec<u8> {
        let n = Nonce::<Aes256CtrPoly1305Aes>::clone_from_slice(nonce);
        let mut out = nonce.to_vec();
        out.extend(self.cipher().encrypt(&n, pt).unwrap());
        out
    }
    /// repository file: envelope around JSON, optionally 0x02 + zstd
    pub fn open_file(&self, data: &[u8]) -> Option<Vec<u8>> {
        let pt = self.open(data)?;
        match pt.first() {
            Some(b'{' | b'[') => Some(pt),
            Some(2) => zstd::stream::decode_all(&pt[1..]).ok(),
            _ => None,
        }
    }
}

#[derive(Clone, Debug, PartialEq, Eq, PartialOrd, Ord)]
pub struct BlobRef {
    pub tree: bool,
    pub id: Id,
}

#[derive(Clone, Debug, PartialEq, Eq)]
pub struct HdrBlob {
    pub tree: bool,
    pub id: Id,
    pub off: u32,
    pub len: u32,
    pub ulen: Option<u32>,
}

#[derive(Clone, Debug)]
pub struct PackAbs {
    pub id: Id,
    pub size: u32,
    pub name_ok: bool,
    /// None: trailer unreadable
    pub hdr: Option<Vec<HdrBlob>>,
    /// per header entry: plaintext if the region opens, decompresses, has the declared
    /// uncompressed length and hashes to its id
    pub plain: Vec<Option<Bytes>>,
    /// header covers the file exactly (blobs contiguous from 0, then header, then length)
    pub layout_ok: bool,
}

pub fn parse_pack(key: &RepoKey, id: Id, bytes: &[u8]) -> PackAbs {
    let size = bytes.len() as u32;
    let mut p = PackAbs {
        id,
        size,
        name_ok: sha256(bytes) == id,
        hdr: None,
        plain: vec![],
        layout_ok: false,
    };
    if bytes.len() < 4 + 32 {
        return p;
    }
    let hl = u32::from_le_bytes(bytes[bytes.len() - 4..].try_into().unwrap()) as usize;
    if hl + 4 > bytes.len() {
        return p;
    }
    let hstart = bytes.len() - 4 - hl;
    let Some(h) = key.open(&bytes[hstart..bytes.len() - 4]) else {
        return p;
    };
    let mut blobs = Vec::new();
    let mut i = 0usize;
    let mut off = 0u32;
    while i < h.len() {
        let t = h[i];
        let need = if t < 2 { 37 } else { 41 };
        if t > 3 || i + need > h.len() {
            return p;
        }
        let len = u32::from_le_bytes(h[i + 1..i + 5].try_into().unwrap());
        let (ulen, idoff) = if t < 2 {
            (None, i + 5)
        } else {
            (Some(u32::from_le_bytes(h[i + 5..i + 9].try_into().unwrap())), i + 9)
        };
        let mut a = [0u8; 32];
        a.copy_from_slice(&h[idoff..idoff + 32]);
        blobs.push(HdrBlob {
            tree: t == 1 || t == 3,
            id: Id::new(a),
            off,
            len,
            ulen,
        });
        off = off.saturating_add(len);
        i += need;
    }
    p.layout_ok = off as usize == hstart;
    for b in &blobs {
        let (s, e) = (b.off as usize, b.off as usize + b.len as usize);
        let plain = if e <= hstart {
            key.open(&bytes[s..e]).and_then(|pt| match b.ulen {
                None => Some(pt),
                Some(u) => zstd::stream::decode_all(&pt[..]).ok().filter(|d| d.len() == u as usize),
            })
        } else {
            None
        };
        p.plain.push(plain.filter(|d| sha256(d) == b.id).map(Bytes::from));
    }
    p.hdr = Some(blobs);
    p
}

#[derive(Clone, Debug)]
pub struct IdxPack {
    pub id: Id,
    pub blobs: Vec<HdrBlob>,
    pub time: Option<String>,
    pub size: Option<u32>,
    pub marked: bool,
}

#[derive(Clone, Debug)]
pub struct IndexAbs {
    pub id: Id,
    pub packs: Vec<IdxPack>,
}

fn id_of(v: &Value) -> Option<Id> {
    v.as_str()?.parse().ok()
}

fn idx_pack(v: &Value, marked: bool) -> Option<IdxPack> {
    let mut blobs = Vec::new();
    for b in v.get("blobs")?.as_array()? {
        blobs.push(HdrBlob {
            tree: b.get("type")?.as_str()? == "tree",
            id: id_of(b.get("id")?)?,
            off: b.get("offset")?.as_u64()? as u32,
            len: b.get("length")?.as_u64()? as u32,
            ulen: b.get("uncompressed_length").and_then(Value::as_u64).map(|x| x as u32),
        });
    }
    Some(IdxPack {
        id: id_of(v.get("id")?)?,
        blobs,
        time: v.get("time").and_then(Value::as_str).map(ToString::to_string),
        size: v.get("size").and_then(Value::as_u64).map(|x| x as u32),
        marked,
    })
}

pub fn parse_index(key: &RepoKey, id: Id, bytes: &[u8]) -> Option<IndexAbs> {
    let pt = key.open_file(bytes)?;
    let v: Value = serde_json::from_slice(&pt).ok()?;
    let mut packs = Vec::new();
    for p in v.get("packs")?.as_array()? {
        packs.push(idx_pack(p, false)?);
    }
    if let Some(a) = v.get("packs_to_delete").and_then(Value::as_array) {
        for p in a {
            packs.push(idx_pack(p, true)?);
        }
    }
    Some(IndexAbs { id, packs })
}

#[derive(Clone, Debug)]
pub struct SnapAbs {
    pub id: Id,
    pub tree: Id,
    pub raw: Value,
}

pub fn parse_snapshot(key: &RepoKey, id: Id, bytes: &[u8]) -> Option<SnapAbs> {
    let pt = key.open_file(bytes)?;
    let v: Value = serde_json::from_slice(&pt).ok()?;
    Some(SnapAbs {
        id,
        tree: id_of(v.get("tree")?)?,
        raw: v,
    })
}

#[derive(Clone, Debug)]
pub struct NodeAbs {
    pub name: String,
    pub tpe: String,
    pub content: Vec<Id>,
    pub subtree: Option<Id>,
    pub raw: Value,
}

pub fn parse_tree(plain: &[u8]) -> Option<Vec<NodeAbs>> {
    let v: Value = serde_json::from_slice(plain).ok()?;
    let mut out = Vec::new();
    let nodes = v.get("nodes")?;
    if nodes.is_null() {
        return Some(out);
    }
    for n in nodes.as_array()? {
        let mut content = Vec::new();
        if let Some(c) = n.get("content").and_then(Value::as_array) {
            for x in c {
                content.push(id_of(x)?);
            }
        }
        out.push(NodeAbs {
            name: n.get("name")?.as_str()?.to_string(),
            tpe: n.get("type")?.as_str()?.to_string(),
            content,
            subtree: n.get("subtree").and_then(id_of),
            raw: n.clone(),
        });
    }
    Some(out)
}

/// short stable names for ids, by first appearance
#[derive(Default, Debug, Clone)]
pub struct Namer {
    map: BTreeMap<(char, Id), String>,
    count: BTreeMap<char, usize>,
}

impl Namer {
    pub fn name(&mut self, kind: char, id: &Id) -> String {
        if let Some(n) = self.map.get(&(kind, *id)) {
            return n.clone();
        }
        let c = self.count.entry(kind).or_insert(0);
        *c += 1;
        let n = format!("{kind}{c}");
        _ = self.map.insert((kind, *id), n.clone());
        n
    }
    /// give `id` an existing name (a file re-encoded by the harness keeps its identity)
    pub fn force(&mut self, kind: char, id: &Id, name: &str) {
        _ = self.map.insert((kind, *id), name.to_string());
    }
    pub fn blob(&mut self, b: &BlobRef) -> Value {
        json!([if b.tree { "tree" } else { "data" }, self.name('b', &b.id)])
    }
    pub fn blobs<'a>(&mut self, bs: impl IntoIterator<Item = &'a BlobRef>) -> Value {
        Value::Array(bs.into_iter().map(|b| self.blob(b)).collect())
    }
}

/// the whole store, decoded
pub struct RepoAbs {
    pub packs: BTreeMap<Id, PackAbs>,
    pub indexes: BTreeMap<Id, Option<IndexAbs>>,
    pub snaps: BTreeMap<Id, Option<SnapAbs>>,
    /// blobs physically present and intact: (typed blob) -> packs holding it
    pub held: BTreeMap<BlobRef, Vec<Id>>,
}

impl RepoAbs {
    pub fn from_map(map: &Map, key: &RepoKey) -> Self {
        let mut r = Self {
            packs: BTreeMap::new(),
            indexes: BTreeMap::new(),
            snaps: BTreeMap::new(),
            held: BTreeMap::new(),
        };
        for ((t, id), bytes) in map {
            match t {
                4 => {
                    let p = parse_pack(key, *id, bytes);
                    if let Some(h) = &p.hdr {
                        for (i, b) in h.iter().enumerate() {
                            if p.plain[i].is_some() {
                                r.held.entry(BlobRef { tree: b.tree, id: b.id }).or_default().push(*id);
                            }
                        }
                    }
                    _ = r.packs.insert(*id, p);
                }
                1 => {
                    _ = r.indexes.insert(*id, parse_index(key, *id, bytes));
                }
                3 => {
                    _ = r.snaps.insert(*id, parse_snapshot(key, *id, bytes));
                }
                _ => {}
            }
        }
        r
    }

    /// plaintext of a blob taken from any pack that physically holds it
    pub fn blob_plain(&self, b: &BlobRef) -> Option<Bytes> {
        let pid = self.held.get(b)?.first()?;
        let p = &self.packs[pid];
        let h = p.hdr.as_ref()?;
        let i = h.iter().position(|x| x.tree == b.tree && x.id == b.id)?;
        p.plain[i].clone()
    }

    /// typed blobs listed by an unmarked (marked) index entry whose pack is present and holds
    /// the blob intact at the listed position
    pub fn indexed(&self, marked: bool) -> BTreeSet<BlobRef> {
        let mut s = BTreeSet::new();
        for ix in self.indexes.values().flatten() {
            for ip in ix.packs.iter().filter(|p| p.marked == marked) {
                let Some(p) = self.packs.get(&ip.id) else { continue };
                let Some(h) = &p.hdr else { continue };
                for b in &ip.blobs {
                    if let Some(i) = h.iter().position(|x| x == b) {
                        if p.plain[i].is_some() {
                            _ = s.insert(BlobRef { tree: b.tree, id: b.id });
                        }
                    }
                }
            }
        }
        s
    }

    /// typed closure of a root tree, reading tree blobs from the packs present; a tree that cannot
    /// be read still appears in the result (so that Readable fails rather than the decoder)
    pub fn needs(&self, root: &Id) -> BTreeSet<BlobRef> {
        let mut out = BTreeSet::new();
        let mut stack = vec![*root];
        while let Some(t) = stack.pop() {
            let b = BlobRef { tree: true, id: t };
            if !out.insert(b.clone()) {
                continue;
            }
            let Some(plain) = self.blob_plain(&b) else { continue };
            let Some(nodes) = parse_tree(&plain) else { continue };
            for n in nodes {
                for c in n.content {
                    _ = out.insert(BlobRef { tree: false, id: c });
                }
                if let Some(st) = n.subtree {
                    stack.push(st);
                }
            }
        }
        out
    }

    pub fn readable(&self, s: &SnapAbs) -> bool {
        let ix = self.indexed(false);
        self.needs(&s.tree).iter().all(|b| ix.contains(b))
    }
}

// ---------------------------------------------------------------- independent encoder
pub struct Enc<'a> {
    pub key: &'a RepoKey,
    pub rng: &'a mut crate::util::Rng,
}

impl Enc<'_> {
    fn nonce(&mut self) -> [u8; 16] {
        let mut n = [0u8; 16];
        n.copy_from_slice(&self.rng.bytes(16));
        n
    }
    pub fn file(&mut self, json: &Value) -> (Id, Bytes) {
        let pt = serde_json::to_vec(json).unwrap();
        let n = self.nonce();
        let data = self.key.seal(&n, &pt);
        (sha256(&data), Bytes::from(data))
    }
    /// blobs: (is_tree, plaintext, compress)
    pub fn pack(&mut self, blobs: &[(bool, Vec<u8>, bool)]) -> (Id, Bytes, Vec<HdrBlob>) {
        let mut out = Vec::new();
        let mut hdr = Vec::new();
        let mut entries = Vec::new();
        for (tree, plain, compress) in blobs {
            let id = sha256(plain);
            let n = self.nonce();
            let (payload, ulen) = if *compress {
                (zstd::stream::encode_all(&plain[..], 0).unwrap(), Some(plain.len() as u32))
            } else {
                (plain.clone(), None)
            };
            let sealed = self.key.seal(&n, &payload);
            let off = out.len() as u32;
            let len = sealed.len() as u32;
            out.extend(sealed);
            let t: u8 = match (tree, ulen.is_some()) {
                (false, false) => 0,
                (true, false) => 1,
                (false, true) => 2,
                (true, true) => 3,
            };
            hdr.push(t);
            hdr.extend(len.to_le_bytes());
            if let Some(u) = ulen {
                hdr.extend(u.to_le_bytes());
            }
            hdr.extend(id_bytes(&id));
            entries.push(HdrBlob { tree: *tree, id, off, len, ulen });
        }
        let n = self.nonce();
        let sealed = self.key.seal(&n, &hdr);
        let hl = sealed.len() as u32;
        out.extend(sealed);
        out.extend(hl.to_le_bytes());
        (sha256(&out), Bytes::from(out), entries)
    }
    pub fn index_json(packs: &[IdxPack]) -> Value {
        let conv = |p: &IdxPack| {
            let mut v = json!({"id": p.id.to_hex().as_str(), "blobs": p.blobs.iter().map(|b| {
                let mut x = json!({"id": b.id.to_hex().as_str(), "type": if b.tree {"tree"} else {"data"},
                                   "offset": b.off, "length": b.len});
                if let Some(u) = b.ulen { x["uncompressed_length"] = json!(u); }
                x }).collect::<Vec<_>>()});
            if let Some(t) = &p.time {
                v["time"] = json!(t);
            }
            if let Some(s) = p.size {
                v["size"] = json!(s);
            }
            v
        };
        let mut v = json!({"packs": packs.iter().filter(|p| !p.marked).map(conv).collect::<Vec<_>>()});
        let del: Vec<Value> = packs.iter().filter(|p| p.marked).map(conv).collect();
        if !del.is_empty() {
            v["packs_to_delete"] = json!(del);
        }
        v
    }
}
