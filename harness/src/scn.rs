//! Scenario helpers: repositories on a MemStore, in-memory sources, commands with
//! panics turned into data.
use std::{
    io::{Cursor, Read},
    panic::{AssertUnwindSafe, catch_unwind},
    path::PathBuf,
    sync::Arc,
};

use bytesize::ByteSize;
use rustic_core::{
    BackupOptions, CheckOptions, ConfigOptions, Credentials, IndexedFullStatus, IndexedIdsStatus, KeyOptions,
    OpenStatus, ReadSource, ReadSourceEntry, Repository, RepositoryBackends, RepositoryOptions,
    RusticResult, WriteBackend,
    repofile::{Chunker, MasterKey, Metadata, Node, NodeType, SnapshotFile},
};

use crate::{abs::RepoKey, store::Handle};

pub type Repo = Repository<OpenStatus>;

/// outcome classes of a command
#[derive(Debug, Clone, PartialEq, Eq)]
pub enum Outcome<T> {
    Ok(T),
    Err(String),
    Panic(String),
}

impl<T> Outcome<T> {
    pub fn class(&self) -> &'static str {
        match self {
            Self::Ok(_) => "ok",
            Self::Err(_) => "err",
            Self::Panic(_) => "panic",
        }
    }
    pub fn msg(&self) -> String {
        match self {
            Self::Ok(_) => String::new(),
            Self::Err(e) | Self::Panic(e) => e.clone(),
        }
    }
    pub fn ok(self) -> Option<T> {
        match self {
            Self::Ok(v) => Some(v),
            _ => None,
        }
    }
    pub fn is_ok(&self) -> bool {
        matches!(self, Self::Ok(_))
    }
}

pub fn silence_panics() {
    std::panic::set_hook(Box::new(|_| {}));
}

/// run a command; a panic (also of a worker thread surfacing through the pipeline) is data
pub fn guard<T>(f: impl FnOnce() -> RusticResult<T>) -> Outcome<T> {
    match catch_unwind(AssertUnwindSafe(f)) {
        Ok(Ok(v)) => Outcome::Ok(v),
        Ok(Err(e)) => Outcome::Err(format!("{}", e.display_log()).chars().take(400).collect()),
        Err(p) => {
            let msg = p
                .downcast_ref::<String>()
                .cloned()
                .or_else(|| p.downcast_ref::<&str>().map(|s| (*s).to_string()))
                .unwrap_or_else(|| "panic".into());
            Outcome::Panic(msg.chars().take(300).collect())
        }
    }
}

pub fn repo_opts() -> RepositoryOptions {
    RepositoryOptions::default().no_cache(true)
}

/// small-scale configuration: fixed-size chunks of `chunk` bytes, packs of about `pack` bytes
pub fn small_config(chunk: u64, pack: u64) -> ConfigOptions {
    ConfigOptions::default()
        .set_chunker(Chunker::FixedSize)
        .set_chunk_size(ByteSize(chunk))
        .set_datapack_size(ByteSize(pack))
        .set_treepack_size(ByteSize(pack))
        .set_datapack_growfactor(0u32)
        .set_treepack_growfactor(0u32)
}

pub fn backends(be: Arc<dyn WriteBackend>, hot: Option<Arc<dyn WriteBackend>>) -> RepositoryBackends {
    RepositoryBackends::new(be, hot)
}

pub fn init(h: &Handle, key: &MasterKey, cfg: &ConfigOptions) -> RusticResult<Repo> {
    Repository::new(&repo_opts(), &backends(h.clone().arc(), None))?.init(
        &Credentials::Masterkey(key.clone()),
        &KeyOptions::default(),
        cfg,
    )
}

pub fn open(h: &Handle, key: &MasterKey) -> RusticResult<Repo> {
    Repository::new(&repo_opts(), &backends(h.clone().arc(), None))?.open(&Credentials::Masterkey(key.clone()))
}

pub fn repo_key(key: &MasterKey) -> RepoKey {
    RepoKey::from_master(key)
}

// ---------------------------------------------------------------- in-memory source
#[derive(Clone, Debug)]
pub enum Kind {
    Dir,
    File(Vec<u8>),
    Symlink(Vec<u8>),
}

#[derive(Clone, Debug)]
pub struct Entry {
    /// path relative to the source root, components separated by '/'
    pub path: String,
    pub kind: Kind,
    pub mtime: i64,
    pub ctime: i64,
    pub mode: u32,
    pub inode: u64,
}

impl Entry {
    pub fn file(path: &str, data: Vec<u8>) -> Self {
        Self { path: path.into(), kind: Kind::File(data), mtime: 1_600_000_000, ctime: 1_600_000_000, mode: 0o644, inode: 0 }
    }
    pub fn dir(path: &str) -> Self {
        Self { path: path.into(), kind: Kind::Dir, mtime: 1_600_000_000, ctime: 1_600_000_000, mode: 0o755, inode: 0 }
    }
}

/// a source tree held in memory; `opened` records which files the archiver opened
#[derive(Clone, Debug, Default)]
pub struct MemSource {
    pub root: PathBuf,
    pub entries: Vec<Entry>,
    pub opened: Arc<std::sync::Mutex<Vec<String>>>,
    /// 0 = whole reads, otherwise seed of the fragmentation pattern
    pub frag: u64,
}

impl MemSource {
    pub fn new(mut entries: Vec<Entry>) -> Self {
        // depth-first order with directories before their content, as a walker yields them
        entries.sort_by(|a, b| {
            let ka: Vec<&str> = a.path.split('/').collect();
            let kb: Vec<&str> = b.path.split('/').collect();
            ka.cmp(&kb)
        });
        Self { root: PathBuf::from("/src"), entries, opened: Arc::default(), frag: 0 }
    }
}

pub struct MemOpen {
    data: Vec<u8>,
    path: String,
    opened: Arc<std::sync::Mutex<Vec<String>>>,
    frag: u64,
}

pub struct FragReader {
    cur: Cursor<Vec<u8>>,
    state: u64,
}

impl Read for FragReader {
    fn read(&mut self, buf: &mut [u8]) -> std::io::Result<usize> {
        if self.state == 0 || buf.is_empty() {
            return self.cur.read(buf);
        }
        self.state = self.state.wrapping_mul(6_364_136_223_846_793_005).wrapping_add(1_442_695_040_888_963_407) | 1;
        let r = (self.state >> 33) % 16;
        if r == 0 {
            return Err(std::io::Error::new(std::io::ErrorKind::Interrupted, "interrupted"));
        }
        let n = match r {
            1..=4 => 1,
            5..=8 => 1 + ((self.state >> 40) as usize % 7),
            9..=12 => 1 + ((self.state >> 40) as usize % 300),
            _ => buf.len(),
        }
        .min(buf.len());
        self.cur.read(&mut buf[..n])
    }
}

impl rustic_core::ReadSourceOpen for MemOpen {
    type Reader = FragReader;
    fn open(self) -> RusticResult<Self::Reader> {
        self.opened.lock().unwrap().push(self.path);
        Ok(FragReader { cur: Cursor::new(self.data), state: self.frag })
    }
}

impl ReadSource for MemSource {
    type Open = MemOpen;
    type Iter = std::vec::IntoIter<RusticResult<ReadSourceEntry<MemOpen>>>;

    fn size(&self) -> RusticResult<Option<u64>> {
        Ok(None)
    }

    fn entries(&self) -> Self::Iter {
        let mut v = Vec::new();
        for (i, e) in self.entries.iter().enumerate() {
            let path = self.root.join(&e.path);
            let name = path.file_name().unwrap().to_os_string();
            let ts = |s: i64| rustic_core::jiff::Timestamp::from_second(s).ok();
            let mut meta = Metadata::default();
            meta.mode = Some(e.mode);
            meta.mtime = ts(e.mtime);
            meta.ctime = ts(e.ctime);
            meta.inode = e.inode;
            let (nt, open) = match &e.kind {
                Kind::Dir => (NodeType::Dir, None),
                Kind::File(d) => {
                    meta.size = d.len() as u64;
                    (
                        NodeType::File,
                        Some(MemOpen {
                            data: d.clone(),
                            path: e.path.clone(),
                            opened: self.opened.clone(),
                            frag: if self.frag == 0 { 0 } else { self.frag.wrapping_add(i as u64) | 1 },
                        }),
                    )
                }
                Kind::Symlink(t) => {
                    use std::os::unix::ffi::OsStrExt;
                    (NodeType::from_link(std::path::Path::new(std::ffi::OsStr::from_bytes(t))), None)
                }
            };
            let node = Node::new_node(&name, nt, meta);
            v.push(Ok(ReadSourceEntry { path, node, open }));
        }
        v.into_iter()
    }
}

/// backup of an in-memory source through the public `archive` entry point
pub fn backup_mem(
    repo: &Repository<IndexedIdsStatus>,
    src: &MemSource,
    opts: &BackupOptions,
    snap: SnapshotFile,
) -> RusticResult<SnapshotFile> {
    repo.archive(opts, src, snap, std::slice::from_ref(&src.root))
}

pub fn snap_at(sec: i64) -> SnapshotFile {
    let mut s = SnapshotFile::default();
    s.time = rustic_core::jiff::Timestamp::from_second(sec)
        .unwrap()
        .to_zoned(rustic_core::jiff::tz::TimeZone::UTC);
    s.hostname = "h".into();
    s
}

/// full check (read data) -> Ok(true) if clean
pub fn check_clean(repo: &Repo) -> RusticResult<bool> {
    Ok(check_errors(repo)?.is_empty())
}

/// messages of the error-level findings of a full check
pub fn check_errors(repo: &Repo) -> RusticResult<Vec<String>> {
    check_errors_opts(repo, false)
}

/// as check_errors; `trust_cache` only says that cached copies need no verification, so on a repository
/// opened without a cache it must not change any verdict
pub fn check_errors_opts(repo: &Repo, trust_cache: bool) -> RusticResult<Vec<String>> {
    let res = repo.check(CheckOptions::default().read_data(true).trust_cache(trust_cache))?;
    Ok(res
        .0
        .iter()
        .filter(|(lvl, _)| format!("{lvl:?}") == "Error")
        .map(|(_, e)| format!("{e:?}").chars().take(160).collect())
        .collect())
}

/// all files of a snapshot with their content, through the real read path (ls + dump)
pub fn read_back(repo: &Repository<IndexedFullStatus>, snap: &SnapshotFile) -> RusticResult<Vec<(String, String, Vec<u8>)>> {
    let node = repo.node_from_snapshot_and_path(snap, "")?;
    let mut out = Vec::new();
    for item in repo.ls(&node, &rustic_core::LsOptions::default())? {
        let (path, node) = item?;
        let mut data = Vec::new();
        if node.is_file() {
            repo.dump(&node, &mut data)?;
        }
        out.push((path.to_string_lossy().to_string(), node.node_type.to_string(), data));
    }
    Ok(out)
}

/// restore a snapshot into `dest` (created if needed) with the real restore command
pub fn restore_to(
    repo: &Repository<IndexedFullStatus>,
    snap: &SnapshotFile,
    dest: &std::path::Path,
    opts: &rustic_core::RestoreOptions,
) -> RusticResult<()> {
    let node = repo.node_from_snapshot_and_path(snap, "")?;
    let ls = repo.ls(&node, &rustic_core::LsOptions::default())?;
    let d = rustic_core::LocalDestination::new(dest.to_str().unwrap(), true, !node.is_dir())?;
    let plan = repo.prepare_restore(opts, ls.clone(), &d, false)?;
    repo.restore(plan, opts, ls, &d)
}

/// the regular files, directories and symlinks below `root`: relative path -> (type, content / link target)
pub fn read_dir_tree(root: &std::path::Path) -> std::collections::BTreeMap<String, (String, Vec<u8>)> {
    fn walk(base: &std::path::Path, dir: &std::path::Path, out: &mut std::collections::BTreeMap<String, (String, Vec<u8>)>) {
        let Ok(rd) = std::fs::read_dir(dir) else { return };
        for e in rd.flatten() {
            let p = e.path();
            let rel = p.strip_prefix(base).unwrap().to_string_lossy().to_string();
            let Ok(md) = std::fs::symlink_metadata(&p) else { continue };
            if md.file_type().is_symlink() {
                use std::os::unix::ffi::OsStrExt;
                let t = std::fs::read_link(&p).map(|t| t.as_os_str().as_bytes().to_vec()).unwrap_or_default();
                _ = out.insert(rel, ("symlink".into(), t));
            } else if md.is_dir() {
                _ = out.insert(rel, ("dir".into(), vec![]));
                walk(base, &p, out);
            } else {
                _ = out.insert(rel, ("file".into(), std::fs::read(&p).unwrap_or_default()));
            }
        }
    }
    let mut out = std::collections::BTreeMap::new();
    walk(root, root, &mut out);
    out
}
