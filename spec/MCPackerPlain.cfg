SPECIFICATION Spec
CONSTANTS
  Input <- InputPlain
  Cap = 1
  Typed = TRUE
INVARIANTS NothingDropped NoOrphan
PROPERTY Termination
