---------------------------- MODULE MCPruneDecide ----------------------------
(***************************************************************************)
(* All configurations with up to NPacks packs over two data blobs and one   *)
(* tree blob (blob lists of length 1..2, duplicates inside a pack included), *)
(* every mark / age combination, every subset of the blobs as used set       *)
(* (including blobs in no pack), every option combination: the lemmas of     *)
(* PruneDecide hold; each configuration with its decisions is printed for    *)
(* replay on the real planner.                                               *)
(***************************************************************************)
EXTENDS PruneDecide
CONSTANTS NPacks, Emitting

DataLists == {<<a>> : a \in {"d1", "d2"}} \cup {<<a, b>> : a, b \in {"d1", "d2"}}
TreeLists == {<<"t1">>, <<"t1", "t1">>}
PackSet == {[tpe |-> "data", blobs |-> bl, mark |-> m, age |-> a] : bl \in DataLists, m \in BOOLEAN, a \in {"none", "old", "young"}}
           \cup {[tpe |-> "tree", blobs |-> bl, mark |-> m, age |-> a] : bl \in TreeLists, m \in BOOLEAN, a \in {"none", "old", "young"}}
Opts == [keepPack : BOOLEAN, keepDelete : BOOLEAN, cacheableOnly : BOOLEAN, uncompressed : BOOLEAN, all : BOOLEAN,
         noResize : BOOLEAN, lim : {"all", "none", "unusedok"}]

VARIABLE c
Init == \E n \in 1 .. NPacks :
          c \in [packs : [1 .. n -> PackSet], used : SUBSET {"d1", "d2", "t1"}, opt : Opts]
Next == UNCHANGED c
Spec == Init /\ [][Next]_c

SafeI == Safe(c)
TimelyI == Timely(c)
ThriftyI == Thrifty(c)
AccountedI == Accounted(c)
Emit == ~Emitting \/ PrintT(<<"REPLAY", c.packs, c.used, c.opt, Todo(c)>>)
=============================================================================
