---------------------------- MODULE RestoreTrace ----------------------------
(***************************************************************************)
(* C14 trace validation.  restore records: snapshot projection, the        *)
(* destination before and after the real restore, the options.  jail       *)
(* records: a tree with a hostile node name restored into jail/dest; the   *)
(* projection of everything outside dest before and after.                 *)
(***************************************************************************)
EXTENDS Restore, TLC, Json, IOUtils

Rec == ndJsonDeserialize(IOEnv.TRACE)
VARIABLE l
Init == l = 1
Next == l < Len(Rec) /\ l' = l + 1
Spec == Init /\ [][Next]_l

Map(seq) == [p \in {seq[i].p : i \in DOMAIN seq} |-> seq[CHOOSE i \in DOMAIN seq : seq[i].p = p].a]

\* hex paths: "/" is "2f"; q lies below p iff q starts with p followed by 2f
Below(p, q) == Len(q) > Len(p) + 2 /\ SubSeq(q, 1, Len(p)) = p /\ SubSeq(q, Len(p) + 1, Len(p) + 2) = "2f"

RestoreVerdict(r) ==
  LET snap == Map(r.snap)  pre == Map(r.pre)  post == Map(r.post)
      \* extras below a path where the snapshot holds a non-directory are removed together with the replaced directory
      under == [p \in DOMAIN pre |-> \E s \in DOMAIN snap : snap[s].t # "dir" /\ Below(s, p)]
  IN (IF r.outcome # "ok" THEN {<<"RestoreFailed", r.outcome, r.msg>>} ELSE {})
     \cup {<<"Exact", p>> : p \in Exact(snap, pre, post, r.opts)}
     \cup {<<"ExtrasKept", p>> : p \in ExtrasChanged(snap, pre, post, r.opts, under)}
     \cup {<<"ExtrasGone", p>> : p \in ExtrasLeft(snap, post, r.opts)}
     \* what pre-existing symlinks of the destination point to, outside of it, is never touched
     \cup (IF r.outside_pre # r.outside_post THEN {<<"Confined", "entries outside the destination changed">>} ELSE {})

JailVerdict(r) ==
  (IF r.outside_before # r.outside_after THEN {<<"Confined", "entries outside the destination changed", r.name>>} ELSE {})
  \cup (IF r.abs_created THEN {<<"Confined", "absolute path created", r.name>>} ELSE {})

Verdict(r) == IF r.kind = "restore" THEN RestoreVerdict(r) ELSE JailVerdict(r)
Conforms == Verdict(Rec[l]) = {} \/ PrintT(<<"NONCONF", l, Rec[l].id, Verdict(Rec[l])>>)
AllConsumed == TLCGet("stats").diameter = Len(Rec)
                 \/ PrintT(<<"TOOLERR", "trace not consumed", TLCGet("stats").diameter, Len(Rec)>>)
=============================================================================
