SPECIFICATION Spec
CONSTANTS
  MaxLen = 5
  BufSize = 5
  W = 2
  CarryAll = FALSE
INVARIANTS Locality
CHECK_DEADLOCK FALSE
