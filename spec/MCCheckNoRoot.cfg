SPECIFICATION Spec
CONSTANTS
  ReadData = TRUE
  ReadRootPacks = FALSE
  VerifyFileHash = TRUE
INVARIANTS Sound Undamaged
CHECK_DEADLOCK FALSE
