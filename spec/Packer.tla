-------------------------------- MODULE Packer --------------------------------
(***************************************************************************)
(* The in-process pipeline of a backup (C01 / C07 / C13): two packers      *)
(* (data, tree) fed by the archiver, each with                              *)
(*   filter 1  "already indexed?"  (shared indexer, read lock)              *)
(*   filter 2  "already in the open pack?"                                  *)
(*   filter 3  "already indexed?" again, after processing                   *)
(*   add_raw   append to the open pack; when full: hand it to the writer    *)
(* and one writer actor per packer (queue of capacity 1) that writes the   *)
(* pack file and only then adds it to the shared indexer.  finalize flushes *)
(* the open pack, waits for the writer, and the archiver finally writes the *)
(* index.  Blob identity inside the indexer is Key(b): the id alone when    *)
(* Typed = FALSE (the behaviour before the fix), <<type, id>> when TRUE.    *)
(***************************************************************************)
EXTENDS Integers, Sequences, FiniteSets, TLC

CONSTANTS Input,      \* [type -> sequence of ids submitted to that packer]
          Cap,        \* blobs per pack
          Typed

Types == {"data", "tree"}
VARIABLES inq,        \* [type -> remaining input]
          stage,      \* [type -> <<>> or the blob between filter 1/2 and filter 3]
          open,       \* [type -> sequence of ids in the open pack]
          wq,         \* [type -> sequence of packs waiting for the writer (length <= 1)]
          wbusy,      \* [type -> <<>> or the pack written but not yet indexed]
          packs,      \* set of written packs: [t, ids]
          indexed,    \* the indexer's "already indexed" set (of keys)
          ents,       \* index entries collected by the indexer: set of [t, ids]
          idxfile,    \* index file written at the end (set of entries)
          idxdone,    \* the index file has been written
          fin         \* [type -> finalize called]
vars == <<inq, stage, open, wq, wbusy, packs, indexed, ents, idxfile, idxdone, fin>>

Key(t, id) == IF Typed THEN <<t, id>> ELSE id

Init == /\ inq = Input /\ stage = [t \in Types |-> <<>>] /\ open = [t \in Types |-> <<>>]
        /\ wq = [t \in Types |-> <<>>] /\ wbusy = [t \in Types |-> <<>>]
        /\ packs = {} /\ indexed = {} /\ ents = {} /\ idxfile = {} /\ idxdone = FALSE /\ fin = [t \in Types |-> FALSE]

InOpen(t, id) == \E i \in DOMAIN open[t] : open[t][i] = id

\* filters 1 and 2: take the next submitted blob
Take(t) ==
  /\ inq[t] # <<>> /\ stage[t] = <<>>
  /\ LET id == Head(inq[t]) IN
     /\ inq' = [inq EXCEPT ![t] = Tail(@)]
     /\ stage' = IF Key(t, id) \in indexed \/ InOpen(t, id) THEN stage ELSE [stage EXCEPT ![t] = <<id>>]
  /\ UNCHANGED <<open, wq, wbusy, packs, indexed, ents, idxfile, idxdone, fin>>

\* filter 3 and add_raw (under the packer's write lock); a full pack goes to the writer queue (blocks while full)
Add(t) ==
  /\ stage[t] # <<>>
  /\ LET id == stage[t][1]
         keep == ~(Key(t, id) \in indexed) /\ ~InOpen(t, id)
         o2 == IF keep THEN Append(open[t], id) ELSE open[t]
     IN IF Len(o2) >= Cap
        THEN /\ Len(wq[t]) < 1
             /\ wq' = [wq EXCEPT ![t] = Append(@, o2)]
             /\ open' = [open EXCEPT ![t] = <<>>]
        ELSE /\ open' = [open EXCEPT ![t] = o2] /\ wq' = wq
  /\ stage' = [stage EXCEPT ![t] = <<>>]
  /\ UNCHANGED <<inq, wbusy, packs, indexed, ents, idxfile, idxdone, fin>>

\* writer actor: write the pack file ...
WWrite(t) ==
  /\ wq[t] # <<>> /\ wbusy[t] = <<>>
  /\ packs' = packs \cup {[t |-> t, ids |-> Head(wq[t])]}
  /\ wbusy' = [wbusy EXCEPT ![t] = <<Head(wq[t])>>]
  /\ wq' = [wq EXCEPT ![t] = Tail(@)]
  /\ UNCHANGED <<inq, stage, open, indexed, ents, idxfile, idxdone, fin>>
\* ... and only then add it to the indexer
WIndex(t) ==
  /\ wbusy[t] # <<>>
  /\ LET p == wbusy[t][1] IN
     /\ indexed' = indexed \cup {Key(t, p[i]) : i \in DOMAIN p}
     /\ ents' = ents \cup {[t |-> t, ids |-> p]}
  /\ wbusy' = [wbusy EXCEPT ![t] = <<>>]
  /\ UNCHANGED <<inq, stage, open, wq, packs, idxfile, idxdone, fin>>

\* finalize of a packer: everything submitted has been consumed; flush the open pack
Finalize(t) ==
  /\ inq[t] = <<>> /\ stage[t] = <<>> /\ ~fin[t]
  /\ IF open[t] = <<>> THEN wq' = wq /\ open' = open
     ELSE /\ Len(wq[t]) < 1 /\ wq' = [wq EXCEPT ![t] = Append(@, open[t])] /\ open' = [open EXCEPT ![t] = <<>>]
  /\ fin' = [fin EXCEPT ![t] = TRUE]
  /\ UNCHANGED <<inq, stage, wbusy, packs, indexed, ents, idxfile, idxdone>>

\* the archiver writes the index once both packers and writers are done
Done == idxdone
AllQuiet == \A t \in Types : fin[t] /\ wq[t] = <<>> /\ wbusy[t] = <<>>
WriteIndex ==
  /\ AllQuiet /\ ~idxdone
  /\ idxfile' = ents /\ idxdone' = TRUE
  /\ UNCHANGED <<inq, stage, open, wq, wbusy, packs, indexed, ents, fin>>

\* (stuttering when done, so that TLC's deadlock check reports only real deadlocks of the pipeline)
Next == (\E t \in Types : Take(t) \/ Add(t) \/ WWrite(t) \/ WIndex(t) \/ Finalize(t)) \/ WriteIndex \/ (idxdone /\ UNCHANGED vars)
Spec == Init /\ [][Next]_vars /\ WF_vars(Next)


\* every submitted typed blob ends up in a written pack that the index file lists
AllSubmitted == UNION {{<<t, Input[t][i]>> : i \in DOMAIN Input[t]} : t \in Types}
IndexedBlobs == UNION {{<<e.t, e.ids[i]>> : i \in DOMAIN e.ids} : e \in {x \in idxfile : [t |-> x.t, ids |-> x.ids] \in packs}}
NothingDropped == Done => AllSubmitted \subseteq IndexedBlobs
\* every written pack is listed by the index (no orphans)
NoOrphan == Done => \A p \in packs : p \in idxfile
\* no blob is stored twice by one run: NOT an invariant of the pipeline (a blob submitted again while its pack is
\* queued for writing is packed a second time; the statement of C07 only promises dedup after the index is reloaded)
NoDuplicates == Done => \A p, q \in packs : \A i \in DOMAIN p.ids, j \in DOMAIN q.ids :
                   (p.t = q.t /\ p.ids[i] = q.ids[j]) => (p = q /\ i = j)
Termination == <>Done
=============================================================================
