SPECIFICATION Spec
CONSTANTS
  Name = {"a", "b"}
  MT = {1}
  Depth = 2
  Mode = "merge"
INVARIANTS Sane MergeOK RewriteOK RepairOK
CHECK_DEADLOCK FALSE
