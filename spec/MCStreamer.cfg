SPECIFICATION Spec
CONSTANTS
  N = 4
  Roots <- RootsA
  W = 2
  InCap = 0
  OutCap = 1
  Shapes <- AllShapes
INVARIANTS AtMostOnce DoneRight Counted
PROPERTIES Terminates
CHECK_DEADLOCK TRUE
