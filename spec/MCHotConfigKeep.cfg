SPECIFICATION Spec
CONSTANTS
  MaxVersion = 3
  HotRule = "keep-existing"
INVARIANTS SeenIsCurrent HotNotAhead
CHECK_DEADLOCK FALSE
