----------------------------- MODULE KeysTrace -----------------------------
(***************************************************************************)
(* C04 trace validation, access part: the results of the real key / open    *)
(* operations (replayed behaviours of Keys.tla, plus extra randomised ones) *)
(* against the key-file set maintained from the recorded successes.         *)
(*   OnlyRight : open(p) = ok  <=>  some key file present now has password p *)
(*               (and the reported key id is one of those);                 *)
(*               openmaster(k) = ok <=> k is the master key;                *)
(*   Stored    : the key files listed in storage are exactly the model's.    *)
(***************************************************************************)
EXTENDS Integers, Sequences, FiniteSets, TLC, Json, IOUtils

Rec == ndJsonDeserialize(IOEnv.TRACE)
VARIABLES l, sc, keys, viol
vars == <<l, sc, keys, viol>>
Ev == Rec[l + 1]
Matching(p) == {k[1] : k \in {x \in keys : x[2] = p}}

Init == l = 0 /\ sc = "" /\ keys = {} /\ viol = {}
Step ==
  /\ l < Len(Rec) /\ l' = l + 1
  /\ CASE Ev.e = "reset" -> sc' = Ev.id /\ keys' = {} /\ viol' = {}
       [] Ev.e = "op" /\ Ev.op = "init" ->
            /\ keys' = {<<Ev.kid, Ev.pw>>} /\ UNCHANGED sc
            /\ viol' = IF Ev.res # "ok" THEN {<<"InitFailed", Ev.msg>>} ELSE {}
       [] Ev.e = "op" /\ Ev.op = "open" ->
            /\ UNCHANGED <<sc, keys>>
            /\ viol' = (IF Ev.res = "ok" /\ Ev.kid \notin Matching(Ev.pw) THEN {<<"OnlyRight", "opened", Ev.pw, Ev.kid, keys>>} ELSE {})
                       \cup (IF Ev.res # "ok" /\ Matching(Ev.pw) # {} THEN {<<"OnlyRight", "refused", Ev.pw, Ev.res, Ev.msg>>} ELSE {})
       [] Ev.e = "op" /\ Ev.op = "openmaster" ->
            /\ UNCHANGED <<sc, keys>>
            /\ viol' = IF (Ev.res = "ok") # Ev.good THEN {<<"OnlyRight", "master", Ev.good, Ev.res>>} ELSE {}
       [] Ev.e = "op" /\ Ev.op = "add" ->
            /\ keys' = (IF Ev.res = "ok" THEN keys \cup {<<Ev.kid, Ev.pw>>} ELSE keys) /\ UNCHANGED sc
            /\ viol' = IF Ev.res = "panic" THEN {<<"Panic", Ev.msg>>} ELSE {}
       [] Ev.e = "op" /\ Ev.op = "remove" ->
            /\ keys' = (IF Ev.res = "ok" THEN {k \in keys : k[1] # Ev.kid} ELSE keys) /\ UNCHANGED sc
            /\ viol' = IF Ev.res = "panic" THEN {<<"Panic", Ev.msg>>} ELSE {}
       [] Ev.e = "keys" ->
            /\ UNCHANGED <<sc, keys>>
            /\ viol' = IF {k[1] : k \in keys} # {Ev.ids[i] : i \in DOMAIN Ev.ids} THEN {<<"Stored", keys, Ev.ids>>} ELSE {}
       [] OTHER -> UNCHANGED <<sc, keys>> /\ viol' = {}
Spec == Init /\ [][Step]_vars

StepOK == viol = {} \/ PrintT(<<"NONCONF", l, sc, viol>>)
AllConsumed == TLCGet("stats").diameter - 1 = Len(Rec)
                 \/ PrintT(<<"TOOLERR", "trace not consumed", TLCGet("stats").diameter, Len(Rec)>>)
=============================================================================
