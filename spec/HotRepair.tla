------------------------------ MODULE HotRepair ------------------------------
(***************************************************************************)
(* C16, last clause: commands/repair/hotcold.rs as a step machine.          *)
(*                                                                          *)
(* For every file type (data packs excluded; tree packs by the index):      *)
(*   list hot and cold with sizes; `common` = ids present in both with the  *)
(*   SAME size; everything relevant that is not common and is listed in the *)
(*   hot store is copied hot -> cold, then everything relevant that is not  *)
(*   common and is listed in the cold store is copied cold -> hot (after    *)
(*   warm-up).                                                              *)
(* A file present in both stores with different sizes is therefore in both  *)
(* lists: it is first copied hot -> cold and then cold -> hot (observation   *)
(* O3 in DESIGN.md - the log line says "Ignoring").                          *)
(* Fault = "removed"  : hot files are missing (the property's quantifier)    *)
(*         "damaged"  : hot files may also have another size (truncated)     *)
(* Mismatch = "both-ways" (the library) | "ignore" (what the log line says)   *)
(***************************************************************************)
EXTENDS Integers, FiniteSets, TLC
CONSTANTS File, Fault, Mismatch

VARIABLES cold, hot, cold0, pc, toCold, toHot
vars == <<cold, hot, cold0, pc, toCold, toHot>>
\* a store maps file -> content; content 1 = what was written, 2 = a damaged (shorter) version

Init == /\ cold = [f \in File |-> 1]                            \* the cold store is complete and intact
        /\ \E present \in SUBSET File :
             hot \in [present -> IF Fault = "removed" THEN {1} ELSE {1, 2}]
        /\ cold0 = cold /\ pc = "list" /\ toCold = {} /\ toHot = {}

Common == {f \in DOMAIN hot \cap DOMAIN cold : hot[f] = cold[f]}
Differ == {f \in DOMAIN hot \cap DOMAIN cold : hot[f] # cold[f]}
List == /\ pc = "list" /\ pc' = "tocold"
        /\ toCold' = (DOMAIN hot \ Common) \ (IF Mismatch = "ignore" THEN Differ ELSE {})
        /\ toHot' = (DOMAIN cold \ Common) \ (IF Mismatch = "ignore" THEN Differ ELSE {})
        /\ UNCHANGED <<cold, hot, cold0>>
CopyToCold(f) == /\ pc = "tocold" /\ f \in toCold /\ toCold' = toCold \ {f}
                 /\ cold' = [x \in DOMAIN cold \cup {f} |-> IF x = f THEN hot[f] ELSE cold[x]]
                 /\ UNCHANGED <<hot, cold0, pc, toHot>>
Turn == pc = "tocold" /\ toCold = {} /\ pc' = "tohot" /\ UNCHANGED <<cold, hot, cold0, toCold, toHot>>
CopyToHot(f) == /\ pc = "tohot" /\ f \in toHot /\ toHot' = toHot \ {f}
                /\ hot' = [x \in DOMAIN hot \cup {f} |-> IF x = f THEN cold[f] ELSE hot[x]]
                /\ UNCHANGED <<cold, cold0, pc, toCold>>
Done == pc = "tohot" /\ toHot = {} /\ pc' = "done" /\ UNCHANGED <<cold, hot, cold0, toCold, toHot>>
Next == List \/ (\E f \in File : CopyToCold(f) \/ CopyToHot(f)) \/ Turn \/ Done
Spec == Init /\ [][Next]_vars

\* the hot store is recreated from the cold one: afterwards it holds every file the cold store lists, with the cold bytes
Recreated == pc = "done" => \A f \in DOMAIN cold : f \in DOMAIN hot /\ hot[f] = cold[f]
\* the cold store - the complete, authoritative one - is never overwritten with something else
ColdIntact == \A f \in DOMAIN cold0 : cold[f] = cold0[f]
=============================================================================
