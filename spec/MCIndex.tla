------------------------------ MODULE MCIndex ------------------------------
(***************************************************************************)
(* Enumerates every collection of at most MaxL pack listings over 2 pack  *)
(* ids, 2 blob ids under both types, 2 index files, marked or not (so:    *)
(* duplicate blobs across packs, the same id under both types, empty and  *)
(* marked packs, a pack listed twice).  Each collection is printed as a   *)
(* REPLAY line; the harness builds it in the real index and queries it.   *)
(* The invariant checks the specification's own consistency on the way.   *)
(***************************************************************************)
EXTENDS Index, TLC

CONSTANTS MaxL

Ids == {1, 2}
Listing == [p : {1, 2}, tpe : {"tree", "data"}, ids : SUBSET Ids, mark : BOOLEAN, file : {1, 2}]

VARIABLES ls, n
vars == <<ls, n>>

\* canonical order to avoid permutations of the same collection
Key(x) == <<x.file, x.p, IF x.tpe = "tree" THEN 0 ELSE 1, IF 1 \in x.ids THEN 1 ELSE 0, IF 2 \in x.ids THEN 1 ELSE 0, IF x.mark THEN 1 ELSE 0>>
RECURSIVE LexLe(_, _)
LexLe(a, b) == IF a = <<>> THEN TRUE ELSE IF a[1] < b[1] THEN TRUE ELSE IF a[1] > b[1] THEN FALSE ELSE LexLe(Tail(a), Tail(b))

Init == ls = <<>> /\ n = 0
Add == /\ n < MaxL
       /\ \E x \in Listing :
            /\ IF n = 0 THEN TRUE ELSE LexLe(Key(ls[n]), Key(x))
            \* the same pack file has one content
            /\ \A k \in 1..n : ls[k].p = x.p => (ls[k].tpe = x.tpe /\ ls[k].ids = x.ids)
            /\ ls' = Append(ls, x)
       /\ n' = n + 1
Next == Add
Spec == Init /\ [][Next]_vars

\* the abstract files of this collection (offsets: blob k of a pack starts at 100*k; len = 10 + id)
SeqOfSet(S) == IF S = {} THEN <<>> ELSE IF S = {1} THEN <<1>> ELSE IF S = {2} THEN <<2>> ELSE <<1, 2>>
BlobsOf(x) == LET q == SeqOfSet(x.ids) IN
              [k \in DOMAIN q |-> [t |-> x.tpe, id |-> q[k], off |-> 100 * (k - 1), len |-> 10 + q[k], ulen |-> 0]]
FileOf(f) == LET idxs == {k \in 1..n : ls[k].file = f} IN
             [j \in 1..Cardinality(idxs) |->
                LET k == CHOOSE k \in idxs : Cardinality({m \in idxs : m < k}) = j - 1
                IN [p |-> ls[k].p, mark |-> ls[k].mark, size |-> 1000 * ls[k].p + 7, blobs |-> BlobsOf(ls[k])]]
Files == <<FileOf(1), FileOf(2)>>

Consistent ==
  \A t \in {"tree", "data"}, id \in Ids :
     /\ Listed(Files, t, id) <=> (\E k \in 1..n : ~ls[k].mark /\ ls[k].tpe = t /\ id \in ls[k].ids)
     /\ \A a \in Answers(Files, t, id) : \E k \in 1..n : ~ls[k].mark /\ ls[k].p = a.p

Emit == n >= 1 => PrintT(<<"REPLAY", ls>>)
=============================================================================
