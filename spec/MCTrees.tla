------------------------------- MODULE MCTrees -------------------------------
(***************************************************************************)
(* All trees of depth 2 over Name (top level: file / link / dir with mtime; *)
(* second level: files) - and for them:                                      *)
(*   Mode = "merge"   : for every pair (and the triple with the first tree   *)
(*                      again) the level-by-level merge is a correct merge   *)
(*   Mode = "rewrite" : for every tree and every set of hit paths the        *)
(*                      level-by-level rewrite equals the property side,     *)
(*                      and is idempotent                                     *)
(*   Mode = "repair"  : nothing lost => repair is the identity; otherwise     *)
(*                      every path kept under its name has its original node  *)
(***************************************************************************)
EXTENDS Trees
CONSTANT Mode

Leaf == {<<"absent", 0, EmptyT>>} \cup {<<"file", m, EmptyT>> : m \in MT}
Assemble(f) ==
  LET present == {n \in Name : f[n][1] # "absent"}
      RECURSIVE Fold(_)
      Fold(S) == IF S = {} THEN EmptyT
                 ELSE LET n == CHOOSE x \in S : TRUE IN
                      Union(Union([x \in {<<n>>} |-> [k |-> f[n][1], mt |-> f[n][2], c |-> 0]], Graft(<<n>>, f[n][3])), Fold(S \ {n}))
  IN Fold(present)
LeafTrees == {Assemble(f) : f \in [Name -> Leaf]}
Top == {<<"absent", 0, EmptyT>>} \cup {<<k, m, EmptyT>> : k \in {"file", "link"}, m \in MT} \cup {<<"dir", m, S>> : m \in MT, S \in LeafTrees}
AllTrees == {Assemble(f) : f \in [Name -> Top]}
Tag(T, i) == [p \in DOMAIN T |-> [T[p] EXCEPT !.c = i]]

VARIABLES t1, t2, hit
vars == <<t1, t2, hit>>
Init == /\ t1 \in AllTrees
        /\ IF Mode = "merge" THEN t2 \in AllTrees /\ hit = {}
           ELSE t2 = EmptyT /\ hit \in SUBSET DOMAIN t1
Next == UNCHANGED vars
Spec == Init /\ [][Next]_vars

MergeOK == Mode = "merge" =>
  LET Ts == <<Tag(t1, 1), Tag(t2, 2)>> Tr == <<Tag(t1, 1), Tag(t2, 2), Tag(t1, 3)>> IN
  /\ IsMerge(MergeRec(Ts, Depth), Ts)
  /\ IsMerge(MergeRec(Tr, Depth), Tr)
  /\ MergeRec(<<t1>>, Depth) = t1 /\ MergeRec(<<t1, t1>>, Depth) = t1
RewriteOK == Mode = "rewrite" =>
  /\ RewriteRec(t1, hit, <<>>, Depth) = Rewrite(t1, hit)
  /\ Rewrite(Rewrite(t1, hit), hit) = Rewrite(t1, hit)
  /\ Rewrite(t1, {}) = t1
  /\ WellFormed(Rewrite(t1, hit))
RepairOK == Mode = "repair" =>
  LET lost == {p \in hit : t1[p].k = "file"} gone == {p \in hit : t1[p].k = "dir"} R == Repair(t1, lost, gone) IN
  /\ hit = {} => R = t1
  /\ \A p \in DOMAIN R \cap DOMAIN t1 : R[p] = t1[p] \/ (p \in gone)
  /\ \A p \in lost : p \notin DOMAIN R
Sane == WellFormed(t1) /\ WellFormed(t2)
=============================================================================
