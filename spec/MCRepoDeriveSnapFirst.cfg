SPECIFICATION Spec
CONSTANTS
  Proc = {p1}
  BackupProcs = {p1}
  PruneProcs = {p1}
  Version = {"v1", "m"}
  Needs <- NeedsDerive1
  KD = 1
  MaxTime = 1
  MaxPacks = 4
  MaxCmds = 4
  Concurrent = FALSE
  AllowInstant = TRUE
  AppendOnly = FALSE
  AllowDamage = FALSE
  AllowCrash = TRUE
  AllowEarly = FALSE
  TickInPrune = TRUE
  UntypedDedup = FALSE
  DeriveFrom <- DeriveM1
  DeriveForget = FALSE
  PartialFlush = FALSE
  SnapFirst = TRUE
VIEW View
INVARIANTS TypeOK AllReadable BroughtBack NoDangling
CHECK_DEADLOCK FALSE
