SPECIFICATION TSpec
INVARIANT Conforms
POSTCONDITION AllConsumed
CHECK_DEADLOCK FALSE
