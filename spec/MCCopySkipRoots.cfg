SPECIFICATION Spec
CONSTANTS
  N = 3
  MaxDat = 1
  Walk = "skip-known-roots"
  IndexerTyped = TRUE
INVARIANTS Complete NoRewrite BlobsFirst
CHECK_DEADLOCK FALSE
