SPECIFICATION Spec
CONSTANTS
  Proc = {p1, p2}
  BackupProcs = {p1}
  PruneProcs = {p2}
  Version = {"v1", "v2"}
  Needs <- NeedsB
  KD = 2
  MaxTime = 3
  MaxPacks = 4
  MaxCmds = 3
  Concurrent = TRUE
  AllowInstant = FALSE
  AppendOnly = FALSE
  AllowDamage = FALSE
  AllowCrash = FALSE
  AllowEarly = FALSE
  TickInPrune = FALSE
  UntypedDedup = FALSE
  DeriveFrom <- NoDerive
  DeriveForget = FALSE
  PartialFlush = FALSE
  SnapFirst = FALSE
VIEW View
INVARIANTS TypeOK AllRecoverable AfterCleanPrune
CHECK_DEADLOCK FALSE
