---------------------------- MODULE BackendTrace ----------------------------
(***************************************************************************)
(* C20 trace validation: every call on a real back end (directory back    *)
(* end, object-store adapter on fs / memory) with its arguments and its   *)
(* result is an event; the model is the exact map of Backend.tla.         *)
(* Values are named by the harness (value ids with lengths); a read event *)
(* reports which value ids are consistent with the bytes that came back.  *)
(* Events logged from inside the pre-publish hook are ordinary list/read  *)
(* events that precede the write event: they must still see the old map.  *)
(***************************************************************************)
EXTENDS Integers, Sequences, FiniteSets, TLC, Json, IOUtils

Rec == ndJsonDeserialize(IOEnv.TRACE)

VARIABLES l, sc, store, viol      \* store : [key -> [v, len]]
vars == <<l, sc, store, viol>>

Range(f) == {f[x] : x \in DOMAIN f}
Put(f, k, v) == [x \in DOMAIN f \cup {k} |-> IF x = k THEN v ELSE f[x]]
Drop(f, k) == [x \in DOMAIN f \ {k} |-> f[x]]
Empty == [x \in {} |-> 0]

Init == l = 0 /\ sc = "" /\ store = Empty /\ viol = {}
Ev == Rec[l + 1]
Consume == l < Len(Rec) /\ l' = l + 1

Reset == Ev.e = "reset" /\ sc' = Ev.id /\ store' = Empty /\ viol' = {}

Write == /\ Ev.e = "write"
         /\ store' = IF Ev.ok THEN Put(store, Ev.k, [v |-> Ev.v, len |-> Ev.len, tpe |-> Ev.tpe]) ELSE store
         /\ viol' = IF ~Ev.ok /\ ~Ev.interrupted THEN {<<"write failed", Ev.k>>} ELSE {}
         /\ UNCHANGED sc

Remove == /\ Ev.e = "remove"
          /\ store' = IF Ev.ok /\ Ev.k \in DOMAIN store THEN Drop(store, Ev.k) ELSE store
          \* removing an absent file may succeed (idempotent object stores) or fail; removing a stored one must succeed
          /\ viol' = IF ~Ev.ok /\ Ev.k \in DOMAIN store THEN {<<"remove of a stored file failed", Ev.k>>} ELSE {}
          /\ UNCHANGED sc

\* full read: succeeds exactly on stored keys, with the stored value
Read == /\ Ev.e = "read"
        /\ viol' = IF Ev.k \in DOMAIN store
                   THEN (IF Ev.ok /\ store[Ev.k].v \in Range(Ev.match) /\ Ev.len = store[Ev.k].len THEN {}
                         ELSE {<<"read differs from what was written", Ev.k, Ev.ok, Ev.len>>})
                   ELSE (IF Ev.ok THEN {<<"read of an absent file succeeded", Ev.k>>} ELSE {})
        /\ UNCHANGED <<sc, store>>

\* ranged read inside the file: exactly bytes [off, off+n) of the stored value
ReadP == /\ Ev.e = "readp"
         /\ viol' = IF Ev.k \in DOMAIN store /\ Ev.off + Ev.n <= store[Ev.k].len
                    THEN (IF Ev.ok /\ store[Ev.k].v \in Range(Ev.match) /\ Ev.len = Ev.n THEN {}
                          ELSE {<<"ranged read differs", Ev.k, Ev.off, Ev.n, Ev.ok>>})
                    \* (an empty range of an absent file may come back empty on object stores)
                    ELSE (IF Ev.k \notin DOMAIN store /\ Ev.ok /\ Ev.len > 0 THEN {<<"ranged read of an absent file returned data", Ev.k>>} ELSE {})
         /\ UNCHANGED <<sc, store>>

\* listing: exactly the stored keys of that type with their true sizes
List == /\ Ev.e = "list"
        /\ LET want == {<<k, store[k].len>> : k \in {x \in DOMAIN store : store[x].tpe = Ev.tpe}}
               got  == {<<Ev.items[i].k, Ev.items[i].len>> : i \in DOMAIN Ev.items}
           IN viol' = IF ~Ev.ok THEN {<<"list failed", Ev.tpe>>}
                      ELSE IF want = got /\ Len(Ev.items) = Cardinality(got) THEN {}
                      ELSE {<<"listing differs", Ev.tpe, "missing", want \ got, "extra", got \ want, Ev.where>>}
        /\ UNCHANGED <<sc, store>>

Note == Ev.e \in {"stray", "note"} /\ viol' = {} /\ UNCHANGED <<sc, store>>

Next == Consume /\ (Reset \/ Write \/ Remove \/ Read \/ ReadP \/ List \/ Note)
Spec == Init /\ [][Next]_vars

StepOK == viol = {} \/ PrintT(<<"NONCONF", l, sc, viol>>)
Accepted == TLCGet("stats").diameter - 1 = Len(Rec)
              \/ PrintT(<<"TOOLERR", "trace not consumed", TLCGet("stats").diameter - 1, Len(Rec)>>)
=============================================================================
