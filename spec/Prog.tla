-------------------------------- MODULE Prog --------------------------------
(***************************************************************************)
(* Generator of programs: every sequence of at most N operations over the *)
(* public operation alphabet (C15).  Printed once each as REPLAY lines.   *)
(***************************************************************************)
EXTENDS Integers, Sequences, TLC
CONSTANTS Alphabet, N
VARIABLE prog
Init == prog = <<>>
Next == Len(prog) < N /\ \E a \in Alphabet : prog' = Append(prog, a)
Spec == Init /\ [][Next]_prog
Emit == Len(prog) >= 1 => PrintT(<<"REPLAY", prog>>)
=============================================================================
