SPECIFICATION Spec
CONSTANTS
  Alphabet = {"backup", "forget", "prune", "prune_instant", "repair_index", "repair_snapshots", "repair_snapshots_delete", "rewrite", "rewrite_forget", "config", "config_ao_off", "add_key", "merge", "copy_into"}
  N = 2
INVARIANT Emit
CHECK_DEADLOCK FALSE
