SPECIFICATION Spec
CONSTANTS
  NPacks = 1
  Emitting = TRUE
INVARIANTS Emit
CHECK_DEADLOCK FALSE
