SPECIFICATION Spec
CONSTANTS
  File = {f1, f2, f3}
  Fault = "damaged"
  Mismatch = "ignore"
INVARIANTS ColdIntact
CHECK_DEADLOCK FALSE
