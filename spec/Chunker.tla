------------------------------- MODULE Chunker -------------------------------
(***************************************************************************)
(* C06: content-defined chunking as a function of the stream.              *)
(*                                                                         *)
(* For a chunk that starts at offset st of a stream of N bytes, with       *)
(* rem = N - st bytes left:                                                *)
(*   rem <= min                 : the chunk is the remainder (short tail); *)
(*   otherwise, M = Min(max, rem): the chunk ends at the smallest length   *)
(*     n in min..M at which the fingerprint of the window hits, else at M. *)
(* `hits` is the set of chunk lengths n (relative to st) with a hit.       *)
(***************************************************************************)
EXTENDS Integers, Sequences, FiniteSets

Min2(a, b) == IF a <= b THEN a ELSE b
MinOf(S) == CHOOSE x \in S : \A y \in S : x <= y

CutLen(rem, min, max, hits) ==
  IF rem <= min THEN rem
  ELSE LET M == Min2(max, rem) IN MinOf({n \in min..M : n \in hits} \cup {M})

\* fixed-size chunking: every `size` bytes
FixedLen(rem, size) == Min2(size, rem)

\* a list of chunk lengths partitions a stream of N bytes
RECURSIVE Sum(_)
Sum(s) == IF s = <<>> THEN 0 ELSE Head(s) + Sum(Tail(s))
Partition(lens, N) == Sum(lens) = N /\ \A i \in DOMAIN lens : lens[i] > 0
Starts(lens) == [i \in DOMAIN lens |-> Sum(SubSeq(lens, 1, i - 1))]
Bounded(lens, min, max) == \A i \in DOMAIN lens : lens[i] <= max /\ (i < Len(lens) => lens[i] >= min)
=============================================================================
