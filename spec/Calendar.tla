---------------------------- MODULE Calendar ----------------------------
(***************************************************************************)
(* Proleptic Gregorian / ISO-8601 calendar arithmetic on integers.        *)
(* Everything is a total function of (year, month, day) or of a day       *)
(* number (days since 1970-01-01).  No value exceeds 32 bits for years    *)
(* -9999..9999 (TLC integers are Java ints).                               *)
(***************************************************************************)
EXTENDS Integers

IsLeap(y) == (y % 4 = 0 /\ y % 100 # 0) \/ y % 400 = 0

DaysInMonth(y, m) ==
  CASE m \in {1, 3, 5, 7, 8, 10, 12} -> 31
    [] m \in {4, 6, 9, 11}           -> 30
    [] OTHER                         -> IF IsLeap(y) THEN 29 ELSE 28

\* days since 1970-01-01 of the civil date y-m-d  (\div is floor division)
DaysFromCivil(y, m, d) ==
  LET yy  == IF m <= 2 THEN y - 1 ELSE y
      era == yy \div 400
      yoe == yy - era * 400
      mp  == (m + 9) % 12
      doy == (153 * mp + 2) \div 5 + d - 1
      doe == yoe * 365 + yoe \div 4 - yoe \div 100 + doy
  IN  era * 146097 + doe - 719468

\* inverse: <<y, m, d>> of a day number
CivilFromDays(z) ==
  LET z0  == z + 719468
      era == z0 \div 146097
      doe == z0 - era * 146097
      yoe == (doe - doe \div 1460 + doe \div 36524 - doe \div 146096) \div 365
      doy == doe - (365 * yoe + yoe \div 4 - yoe \div 100)
      mp  == (5 * doy + 2) \div 153
      d   == doy - (153 * mp + 2) \div 5 + 1
      m   == IF mp < 10 THEN mp + 3 ELSE mp - 9
      y   == yoe + era * 400 + (IF m <= 2 THEN 1 ELSE 0)
  IN  <<y, m, d>>

\* 0 = Monday .. 6 = Sunday   (1970-01-01 was a Thursday)
Weekday(z) == (z + 3) % 7

DayOfYear(y, m, d) == DaysFromCivil(y, m, d) - DaysFromCivil(y, 1, 1) + 1

\* ISO-8601 week date: the week belongs to the year that holds its Thursday
IsoThursday(z) == z - Weekday(z) + 3
IsoYear(z)     == CivilFromDays(IsoThursday(z))[1]
IsoWeek(z)     == (IsoThursday(z) - DaysFromCivil(IsoYear(z), 1, 1)) \div 7 + 1

Min2(a, b) == IF a <= b THEN a ELSE b

\* civil date + (years, months) with day-of-month clamping, then + days; result: day number
AddYMD(y, m, d, dy, dm, dd) ==
  LET tot == y * 12 + (m - 1) + dy * 12 + dm
      y1  == tot \div 12
      m1  == (tot % 12) + 1
      d1  == Min2(d, DaysInMonth(y1, m1))
  IN  DaysFromCivil(y1, m1, d1) + dd
=============================================================================
