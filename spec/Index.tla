------------------------------- MODULE Index -------------------------------
(***************************************************************************)
(* What the in-memory index must answer for a given collection of index   *)
(* files (property C17).                                                   *)
(*                                                                         *)
(* files : sequence of index files; a file is a sequence of pack entries   *)
(*   [p, mark, size, blobs] with blobs a sequence of [t, id, off, len,    *)
(*   ulen] (t = "tree" | "data", ulen = 0 for "not compressed").           *)
(* Only unmarked entries (the `packs` section) are ever answered from;     *)
(* entries of `packs_to_delete` (mark = TRUE) never are.                   *)
(***************************************************************************)
EXTENDS Integers, Sequences, FiniteSets

Range(f) == {f[x] : x \in DOMAIN f}

\* all listings <<file index, entry index>> of unmarked pack entries
Listings(files) == UNION {{<<i, j>> : j \in {k \in DOMAIN files[i] : ~files[i][k].mark}} : i \in DOMAIN files}

Entry(files, x) == files[x[1]][x[2]]

\* every answer a lookup of (t, id) may give: one per unmarked listing of the blob
Answers(files, t, id) ==
  UNION {{[p |-> Entry(files, x).p, off |-> b.off, len |-> b.len, ulen |-> b.ulen] :
             b \in {c \in Range(Entry(files, x).blobs) : c.t = t /\ c.id = id}} : x \in Listings(files)}

Listed(files, t, id) == Answers(files, t, id) # {}

\* the type a pack is accounted under: that of its first blob, data if it lists none
PackType(e) == IF Len(e.blobs) = 0 THEN "data" ELSE e.blobs[1].t

RECURSIVE SumSizes(_, _)
SumSizes(S, files) == IF S = {} THEN 0
                      ELSE LET x == CHOOSE y \in S : TRUE IN Entry(files, x).size + SumSizes(S \ {x}, files)
Total(files, t) == SumSizes({x \in Listings(files) : PackType(Entry(files, x)) = t}, files)

\* which queries a mode retains
Retains(mode, what, t) ==
  CASE mode = "full"       -> TRUE
    [] mode = "data-ids"   -> t = "tree" \/ what = "has"
    [] mode = "only-trees" -> t = "tree"
    [] OTHER               -> FALSE
=============================================================================
