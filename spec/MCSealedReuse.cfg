SPECIFICATION Spec
CONSTANTS
  File <- FileMC
  Tpe <- TpeMC
  Layout <- LayoutMC
  Order <- OrderMC
  Nonce = {1, 2}
  FreshNonce = FALSE
  VerifyName <- AllTypes
  VerifyBlob = TRUE
  AllowSubst = TRUE
  MaxTamper = 2
INVARIANTS TypeOK Authentic Detected NonceFresh
CHECK_DEADLOCK FALSE
