SPECIFICATION Spec
CONSTANTS
  Input <- InputCollide
  Cap = 2
  Typed = TRUE
INVARIANTS NothingDropped NoOrphan
PROPERTY Termination
