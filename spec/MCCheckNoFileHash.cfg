SPECIFICATION Spec
CONSTANTS
  ReadData = TRUE
  ReadRootPacks = TRUE
  VerifyFileHash = FALSE
INVARIANTS Sound Undamaged
CHECK_DEADLOCK FALSE
