SPECIFICATION Spec
CONSTANTS
  ReadData = TRUE
  ReadRootPacks = TRUE
  VerifyFileHash = FALSE
  ReadAllCopies = TRUE
INVARIANTS Sound Undamaged
CHECK_DEADLOCK FALSE
