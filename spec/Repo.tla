-------------------------------- MODULE Repo --------------------------------
(***************************************************************************)
(* Layer B: operational model of the storage protocol of rustic_core.     *)
(* Every command is a process whose steps are single storage operations   *)
(* in the order the code issues them (Appendix A of DESIGN.md); a process *)
(* can crash between any two steps; logical time advances by Tick.        *)
(* Everything the properties do not constrain is a nondeterministic       *)
(* choice inside the action (partition of blobs into packs, which of the  *)
(* safe decisions prune takes for a pack).                                 *)
(*                                                                         *)
(* Sequential instances (MCRepoSeq..) allow one running command at a time;  *)
(* concurrent instances (MCRepoConc..) interleave two.                       *)
(***************************************************************************)
EXTENDS Integers, FiniteSets, Sequences, TLC

CONSTANTS Proc,          \* command processes
          BackupProcs,   \* processes that may run backups
          PruneProcs,    \* processes that may run forget / prune / repair-index
          Version,       \* source versions that can be backed up
          Needs,         \* [Version -> set of typed blobs]
          KD,            \* keep-delete time of every prune (ticks)
          MaxTime, MaxPacks, MaxCmds,
          Concurrent,    \* FALSE: at most one command runs at a time
          AllowInstant,  \* prune may run with instant-delete
          AppendOnly,    \* the repository is marked append-only
          AllowDamage,   \* index files may get lost (to be rebuilt by repair-index)
          AllowCrash,    \* a running command may stop between any two of its steps
          AllowEarly,    \* ... and with early-delete-index (documented as unsafe, excluded by C03)
          TickInPrune,   \* FALSE: assumption A2 - no time passes while a prune runs
          UntypedDedup,  \* TRUE: model the dedup sets as sets of ids (not typed blobs)
          DeriveFrom,    \* [Version -> SUBSET Version]: versions that are not backed up from a source but derived from
                         \* snapshots already in the repository (merge, rewrite, repair-snapshots): only trees are written
          DeriveForget,  \* a deriving command removes its source snapshots afterwards (rewrite --forget, repair --delete)
          PartialFlush,  \* TRUE: a command may write an index file with what it has indexed so far at any moment
                         \* (the indexer flushes after 50 000 blobs / 5 minutes; hook set_index_flush_count on the real side)
          SnapFirst      \* TRUE: the derived snapshot is saved BEFORE its trees are flushed (repair-snapshots before fix
                         \* 23166c4) - kept to show that AllReadable then fails at a crash point

VARIABLES packs, idx, snaps, now, nextp, nexti, ncmd, loc, hist

vars == <<packs, idx, snaps, now, nextp, nexti, ncmd, loc, hist>>

P == INSTANCE RepoProps

Blob == UNION {Needs[v] : v \in Version}
Empty == [x \in {} |-> {}]
Put(f, k, v) == [x \in DOMAIN f \cup {k} |-> IF x = k THEN v ELSE f[x]]
Drop(f, k) == [x \in DOMAIN f \ {k} |-> f[x]]

Idle == [pc |-> "idle"]
Running == {p \in Proc : loc[p].pc # "idle"}

Init == /\ packs = Empty /\ idx = Empty /\ snaps = Empty
        /\ now = 0 /\ nextp = 1 /\ nexti = 1 /\ ncmd = 0
        /\ loc = [p \in Proc |-> Idle]
        /\ hist = <<>>

CanStart(p) == /\ loc[p].pc = "idle" /\ ncmd < MaxCmds
               /\ (Concurrent \/ Running = {})

\* identity as the dedup filters see it
Key(b) == IF UntypedDedup THEN b[2] ELSE b
Keys(S) == {Key(b) : b \in S}

-----------------------------------------------------------------------------
(* backup *)

\* a command starting while a prune runs makes that prune "not clean" (it overlaps)
Overlap(l, p) == [q \in Proc |-> IF q # p /\ "clean" \in DOMAIN l[q] THEN [l[q] EXCEPT !.clean = FALSE] ELSE l[q]]

BStart(p, v) ==
  /\ CanStart(p) /\ p \in BackupProcs
  /\ DeriveFrom[v] = {}
  /\ loc' = Overlap([loc EXCEPT ![p] = [pc |-> "b_load", v |-> v, view |-> {}, up |-> {}, pend |-> {}, start |-> now, derive |-> FALSE]], p)
  /\ ncmd' = ncmd + 1
  /\ hist' = Append(hist, <<"backup", v>>)
  /\ UNCHANGED <<packs, idx, snaps, now, nextp, nexti>>

\* load the dedup index: everything listed in the `packs` section of any index file
BLoad(p) ==
  /\ loc[p].pc = "b_load"
  /\ loc' = [loc EXCEPT ![p].pc = "b_pack",
                        ![p].view = Keys(UNION {e.blobs : e \in {x \in P!Entries : ~x.mark}}),
                        ![p].start = now]
  /\ UNCHANGED <<packs, idx, snaps, now, nextp, nexti, ncmd, hist>>

\* a deriving command writes trees only: the data blobs it references are those of its sources
Missing(p) == {b \in Needs[loc[p].v] : /\ Key(b) \notin loc[p].view /\ Key(b) \notin Keys(loc[p].up)
                                       /\ (loc[p].derive => b[1] = "tree")}

BPack(p) ==
  /\ loc[p].pc = "b_pack"
  /\ nextp <= MaxPacks
  /\ \E S \in (SUBSET Missing(p)) \ {{}} :
       \* one pack holds blobs of one type only
       /\ \A a, b \in S : a[1] = b[1]
       /\ packs' = Put(packs, nextp, S)
       /\ loc' = [loc EXCEPT ![p].up = @ \cup S,
                             ![p].pend = @ \cup {[p |-> nextp, blobs |-> S, mark |-> FALSE, t |-> now]}]
  /\ nextp' = nextp + 1
  /\ UNCHANGED <<idx, snaps, now, nexti, ncmd, hist>>

\* the indexer flushes what it has so far
BFlushPartial(p) ==
  /\ PartialFlush /\ loc[p].pc = "b_pack" /\ loc[p].pend # {}
  /\ idx' = Put(idx, nexti, loc[p].pend) /\ nexti' = nexti + 1
  /\ loc' = [loc EXCEPT ![p].pend = {}]
  /\ UNCHANGED <<packs, snaps, now, nextp, ncmd, hist>>

BFlush(p) ==
  /\ loc[p].pc = "b_pack"
  /\ Missing(p) = {}
  /\ idx' = IF loc[p].pend = {} THEN idx ELSE Put(idx, nexti, loc[p].pend)
  /\ nexti' = IF loc[p].pend = {} THEN nexti ELSE nexti + 1
  /\ loc' = [loc EXCEPT ![p].pc = "b_snap"]
  /\ UNCHANGED <<packs, snaps, now, nextp, ncmd, hist>>

\* the statement of C10 assumes the backup is shorter than keep-delete
BSnap(p) ==
  /\ loc[p].pc = "b_snap"
  /\ now < loc[p].start + KD \/ ~Concurrent
  /\ snaps' = Put(snaps, loc[p].v, Needs[loc[p].v])
  /\ loc' = [loc EXCEPT ![p] = IF loc[p].derive /\ DeriveForget /\ ~AppendOnly THEN [pc |-> "d_forget", v |-> loc[p].v] ELSE Idle]
  /\ UNCHANGED <<packs, idx, now, nextp, nexti, ncmd, hist>>

-----------------------------------------------------------------------------
(* merge / rewrite / repair-snapshots: a snapshot derived from snapshots of the repository *)

DStart(p, v) ==
  /\ CanStart(p) /\ p \in BackupProcs
  /\ DeriveFrom[v] # {} /\ DeriveFrom[v] \subseteq DOMAIN snaps /\ v \notin DOMAIN snaps
  /\ loc' = Overlap([loc EXCEPT ![p] = [pc |-> "b_load", v |-> v, view |-> {}, up |-> {}, pend |-> {}, start |-> now, derive |-> TRUE]], p)
  /\ ncmd' = ncmd + 1
  /\ hist' = Append(hist, <<"derive", v>>)
  /\ UNCHANGED <<packs, idx, snaps, now, nextp, nexti>>

\* the unsafe order: snapshot first
DSnapFirst(p) ==
  /\ SnapFirst /\ loc[p].pc = "b_pack" /\ loc[p].derive /\ loc[p].v \notin DOMAIN snaps
  /\ snaps' = Put(snaps, loc[p].v, Needs[loc[p].v])
  /\ UNCHANGED <<packs, idx, now, nextp, nexti, ncmd, loc, hist>>

\* the sources are removed only after the derived snapshot is visible
DForget(p) ==
  /\ loc[p].pc = "d_forget"
  /\ snaps' = [s \in DOMAIN snaps \ DeriveFrom[loc[p].v] |-> snaps[s]]
  /\ loc' = [loc EXCEPT ![p] = Idle]
  /\ UNCHANGED <<packs, idx, now, nextp, nexti, ncmd, hist>>

-----------------------------------------------------------------------------
(* forget *)

Forget(p, s) ==
  /\ CanStart(p) /\ p \in PruneProcs
  /\ ~AppendOnly
  /\ s \in DOMAIN snaps
  /\ snaps' = Drop(snaps, s)
  /\ ncmd' = ncmd + 1
  /\ hist' = Append(hist, <<"forget", s>>)
  /\ UNCHANGED <<packs, idx, now, nextp, nexti, loc>>

-----------------------------------------------------------------------------
(* prune *)

PStart(p, instant, early) ==
  /\ CanStart(p) /\ p \in PruneProcs
  /\ ~AppendOnly
  /\ instant => AllowInstant
  /\ early => (instant /\ AllowEarly)
  /\ loc' = Overlap([loc EXCEPT ![p] = [pc |-> "p_index", instant |-> instant, early |-> early, iv |-> {}, ifiles |-> {}, used |-> {},
                                 newents |-> {}, repack |-> {}, repacked |-> {}, del |-> {}, unref |-> {}, time |-> 0,
                                 clean |-> (Running = {})]], p)
  /\ ncmd' = ncmd + 1
  /\ hist' = Append(hist, <<"prune", instant, early>>)
  /\ UNCHANGED <<packs, idx, snaps, now, nextp, nexti>>

PReadIndex(p) ==
  /\ loc[p].pc = "p_index"
  /\ loc' = [loc EXCEPT ![p].pc = "p_snaps", ![p].iv = P!Entries, ![p].ifiles = DOMAIN idx]
  /\ UNCHANGED <<packs, idx, snaps, now, nextp, nexti, ncmd, hist>>

\* walk all snapshots; a used blob that no index entry (marked or not) lists aborts the prune
PReadSnaps(p) ==
  /\ loc[p].pc = "p_snaps"
  /\ IF Keys(P!Used) \subseteq Keys(UNION {e.blobs : e \in loc[p].iv})
     THEN loc' = [loc EXCEPT ![p].pc = "p_list", ![p].used = P!Used]
     ELSE loc' = [loc EXCEPT ![p] = Idle]
  /\ UNCHANGED <<packs, idx, snaps, now, nextp, nexti, ncmd, hist>>

\* entries as the planner sees them: one entry per pack (duplicate listings are dropped), and a
\* pack listed both unmarked and marked counts as unmarked
Norm(iv) ==
  LET cand(q) == IF \E e \in iv : e.p = q /\ ~e.mark THEN {e \in iv : e.p = q /\ ~e.mark}
                 ELSE {e \in iv : e.p = q}
  IN {CHOOSE e \in cand(q) : TRUE : q \in {x.p : x \in iv}}

\* list packs, take the timestamp, decide.  des designates, for every used blob, the entry
\* that keeps providing it.
PDecide(p) ==
  /\ loc[p].pc = "p_list"
  /\ LET ne    == Norm(loc[p].iv)
         used  == loc[p].used
         plist == DOMAIN packs
         t     == now
     IN \E des \in [used -> ne] :
          /\ \A b \in used : Key(b) \in Keys(des[b].blobs)
          /\ LET designated == {des[b] : b \in used}
                 \* unmarked & designated: Keep or Repack;  repack rewrites its designated blobs
             IN \E rp \in SUBSET {e \in designated : ~e.mark} :
                \* unmarked & not designated: mark for deletion (or keep: too young)
                \E km \in SUBSET {e \in ne \ designated : ~e.mark} :
                  LET keep    == ({e \in designated : ~e.mark} \ rp) \cup km
                      recover == {[e EXCEPT !.mark = FALSE, !.t = t] : e \in {x \in designated : x.mark}}
                      newmark == {[e EXCEPT !.mark = TRUE, !.t = t] : e \in ({x \in ne \ designated : ~x.mark} \ km) \cup rp}
                      oldmark == {e \in ne \ designated : e.mark}
                      expire  == {e \in oldmark : e.t + KD <= t}
                      keepm   == oldmark \ expire
                      unref   == plist \ {e.p : e \in loc[p].iv}
                      needed  == {e.p : e \in keep \cup recover \cup rp}
                  IN IF ~(needed \subseteq plist)
                     THEN loc' = [loc EXCEPT ![p] = Idle]            \* a needed pack is missing: abort
                     ELSE loc' = [loc EXCEPT ![p].pc = "p_unref", ![p].time = t,
                            ![p].repack = {b \in used : des[b] \in rp},
                            ![p].newents =
                               IF loc[p].instant THEN keep \cup recover
                               ELSE keep \cup recover \cup newmark \cup keepm
                                    \cup {[p |-> q, blobs |-> {}, mark |-> TRUE, t |-> t] : q \in unref},
                            ![p].del =
                               IF loc[p].instant THEN {e.p : e \in newmark \cup oldmark}
                               ELSE {e.p : e \in expire},
                            ![p].unref = IF loc[p].instant THEN unref ELSE {}]
  /\ UNCHANGED <<packs, idx, snaps, now, nextp, nexti, ncmd, hist>>

\* instant delete: unreferenced packs go first
PRmUnref(p) ==
  /\ loc[p].pc = "p_unref"
  /\ IF loc[p].unref = {}
     THEN /\ loc' = [loc EXCEPT ![p].pc = IF loc[p].early THEN "p_early" ELSE "p_repack"] /\ packs' = packs
     ELSE \E q \in loc[p].unref :
            /\ packs' = IF q \in DOMAIN packs THEN Drop(packs, q) ELSE packs
            /\ loc' = [loc EXCEPT ![p].unref = @ \ {q}]
  /\ UNCHANGED <<idx, snaps, now, nextp, nexti, ncmd, hist>>

\* instant-delete + early-delete-index: the old index files go before anything new is written
PRmIdxEarly(p) ==
  /\ loc[p].pc = "p_early"
  /\ IF loc[p].ifiles = {}
     THEN /\ loc' = [loc EXCEPT ![p].pc = "p_repack"] /\ idx' = idx
     ELSE \E i \in loc[p].ifiles :
            /\ idx' = IF i \in DOMAIN idx THEN Drop(idx, i) ELSE idx
            /\ loc' = [loc EXCEPT ![p].ifiles = @ \ {i}]
  /\ UNCHANGED <<packs, snaps, now, nextp, nexti, ncmd, hist>>

\* repack: copy designated blobs of the packs to repack into new packs
PRepack(p) ==
  /\ loc[p].pc = "p_repack"
  /\ LET todo == loc[p].repack \ loc[p].repacked IN
     IF todo = {}
     THEN /\ loc' = [loc EXCEPT ![p].pc = "p_widx"]
          /\ UNCHANGED <<packs, nextp>>
     ELSE /\ nextp <= MaxPacks
          /\ \E S \in (SUBSET todo) \ {{}} :
               /\ \A a, b \in S : a[1] = b[1]
               \* the source blobs must still be readable
               /\ \A b \in S : \E q \in DOMAIN packs : b \in packs[q]
               /\ packs' = Put(packs, nextp, S)
               /\ loc' = [loc EXCEPT ![p].repacked = @ \cup S,
                                     ![p].newents = @ \cup {[p |-> nextp, blobs |-> S, mark |-> FALSE, t |-> loc[p].time]}]
               /\ nextp' = nextp + 1
  /\ UNCHANGED <<idx, snaps, now, nexti, ncmd, hist>>

\* ... and so does the indexer of prune while it rebuilds the index files
PWriteIdxPartial(p) ==
  /\ PartialFlush /\ loc[p].pc \in {"p_repack", "p_widx"}
  /\ \E E \in (SUBSET loc[p].newents) \ {{}, loc[p].newents} :
       /\ idx' = Put(idx, nexti, E) /\ nexti' = nexti + 1
       /\ loc' = [loc EXCEPT ![p].newents = @ \ E]
  /\ UNCHANGED <<packs, snaps, now, nextp, ncmd, hist>>

PWriteIdx(p) ==
  /\ loc[p].pc = "p_widx"
  /\ idx' = IF loc[p].newents = {} THEN idx ELSE Put(idx, nexti, loc[p].newents)
  /\ nexti' = nexti + 1
  /\ loc' = [loc EXCEPT ![p].pc = "p_rmidx"]
  /\ UNCHANGED <<packs, snaps, now, nextp, ncmd, hist>>

PRmIdx(p) ==
  /\ loc[p].pc = "p_rmidx"
  /\ IF loc[p].ifiles = {}
     THEN /\ loc' = [loc EXCEPT ![p].pc = "p_rmpack"] /\ idx' = idx
     ELSE \E i \in loc[p].ifiles :
            /\ idx' = IF i \in DOMAIN idx THEN Drop(idx, i) ELSE idx
            /\ loc' = [loc EXCEPT ![p].ifiles = @ \ {i}]
  /\ UNCHANGED <<packs, snaps, now, nextp, nexti, ncmd, hist>>

PRmPack(p) ==
  /\ loc[p].pc = "p_rmpack"
  /\ IF loc[p].del = {}
     THEN /\ loc' = [loc EXCEPT ![p] = [pc |-> "idle", done |-> "prune", cleanrun |-> loc[p].clean]] /\ packs' = packs
     ELSE \E q \in loc[p].del :
            /\ packs' = IF q \in DOMAIN packs THEN Drop(packs, q) ELSE packs
            /\ loc' = [loc EXCEPT ![p].del = @ \ {q}]
  /\ UNCHANGED <<idx, snaps, now, nextp, nexti, ncmd, hist>>

-----------------------------------------------------------------------------
(* repair-index: rebuild index information from the pack files themselves *)

RStart(p, readAll) ==
  /\ CanStart(p) /\ p \in PruneProcs
  /\ ~AppendOnly
  /\ loc' = [loc EXCEPT ![p] = [pc |-> "r_scan", readAll |-> readAll, reread |-> {}, changed |-> {}]]
  /\ ncmd' = ncmd + 1
  /\ hist' = Append(hist, <<"repair_index", readAll>>)
  /\ UNCHANGED <<packs, idx, snaps, now, nextp, nexti>>

\* list packs and read all index files; decide which packs need their trailer re-read and which
\* index files change (they list a missing pack, a pack already listed before, or - read-all - any pack)
RScan(p) ==
  /\ loc[p].pc = "r_scan"
  /\ LET listed  == {e.p : e \in P!Entries}
         present == DOMAIN packs
         bad(i)  == \E e \in idx[i] : e.p \notin present \/ loc[p].readAll
     IN loc' = [loc EXCEPT ![p].pc = "r_write",
                           ![p].reread = IF loc[p].readAll THEN present ELSE present \ listed,
                           ![p].changed = {i \in DOMAIN idx : bad(i)}]
  /\ UNCHANGED <<packs, idx, snaps, now, nextp, nexti, ncmd, hist>>

\* index the re-read packs (their true content, unmarked) first ...
RWrite(p) ==
  /\ loc[p].pc = "r_write"
  /\ LET ents == {[p |-> q, blobs |-> packs[q], mark |-> FALSE, t |-> now] : q \in loc[p].reread \cap DOMAIN packs}
     IN /\ idx' = IF ents = {} THEN idx ELSE Put(idx, nexti, ents)
        /\ nexti' = nexti + 1
  /\ loc' = [loc EXCEPT ![p].pc = "r_replace"]
  /\ UNCHANGED <<packs, snaps, now, nextp, ncmd, hist>>

\* ... then replace every changed index file by its still valid entries
RReplace(p) ==
  /\ loc[p].pc = "r_replace"
  /\ IF loc[p].changed = {}
     THEN /\ loc' = [loc EXCEPT ![p] = [pc |-> "idle", done |-> "repair_index"]]
          /\ UNCHANGED <<idx, nexti>>
     ELSE \E i \in loc[p].changed :
            LET keepents == IF i \in DOMAIN idx
                            THEN {e \in idx[i] : e.p \in DOMAIN packs /\ ~loc[p].readAll} ELSE {}
                without  == IF i \in DOMAIN idx THEN Drop(idx, i) ELSE idx
            IN /\ idx' = IF keepents = {} THEN without ELSE Put(without, nexti, keepents)
               /\ nexti' = nexti + 1
               /\ loc' = [loc EXCEPT ![p].changed = @ \ {i}]
  /\ UNCHANGED <<packs, snaps, now, nextp, ncmd, hist>>

\* an index file disappears (damage; not a step of the library)
LoseIndex ==
  /\ AllowDamage
  /\ Running = {}
  /\ \E i \in DOMAIN idx : idx' = Drop(idx, i)
  /\ hist' = Append(hist, <<"lose_index">>)
  /\ loc' = [p \in Proc |-> Idle]      \* forget "done" markers
  /\ UNCHANGED <<packs, snaps, now, nextp, nexti, ncmd>>

-----------------------------------------------------------------------------
Crash(p) ==
  /\ AllowCrash
  /\ loc[p].pc # "idle"
  /\ loc' = [loc EXCEPT ![p] = Idle]
  /\ hist' = Append(hist, <<"crash", loc[p].pc>>)
  /\ UNCHANGED <<packs, idx, snaps, now, nextp, nexti, ncmd>>

Tick ==
  /\ now < MaxTime
  /\ TickInPrune \/ \A p \in Proc : loc[p].pc \notin {"p_index", "p_snaps", "p_list", "p_unref", "p_early", "p_repack", "p_widx", "p_rmidx", "p_rmpack"}
  /\ now' = now + 1
  /\ hist' = Append(hist, <<"tick">>)
  /\ UNCHANGED <<packs, idx, snaps, nextp, nexti, ncmd, loc>>

Step(p) ==
  \/ \E v \in Version : BStart(p, v)
  \/ BLoad(p) \/ BPack(p) \/ BFlush(p) \/ BSnap(p) \/ BFlushPartial(p) \/ PWriteIdxPartial(p)
  \/ \E v \in Version : DStart(p, v)
  \/ DSnapFirst(p) \/ DForget(p)
  \/ \E s \in Version : Forget(p, s)
  \/ \E i, e \in BOOLEAN : PStart(p, i, e)
  \/ PReadIndex(p) \/ PReadSnaps(p) \/ PDecide(p) \/ PRmUnref(p) \/ PRmIdxEarly(p) \/ PRepack(p)
  \/ PWriteIdx(p) \/ PRmIdx(p) \/ PRmPack(p)
  \/ \E ra \in BOOLEAN : RStart(p, ra)
  \/ RScan(p) \/ RWrite(p) \/ RReplace(p)

NoHist(A) == A /\ hist' = hist

Next == \/ \E p \in Proc : Step(p)
        \/ \E p \in Proc : Crash(p)
        \/ Tick
        \/ LoseIndex

Spec == Init /\ [][Next]_vars

-----------------------------------------------------------------------------
(* properties *)

TypeOK == /\ \A p \in DOMAIN packs : packs[p] \subseteq Blob
          /\ \A s \in DOMAIN snaps : snaps[s] \subseteq Blob

\* C03 / C02: every visible snapshot is readable in every state, i.e. at every crash point
AllReadable == P!AllReadable

\* C10: nothing a visible snapshot needs is ever gone for good
AllRecoverable == P!AllRecoverable

\* C02: a completed prune leaves no used blob only in a marked pack
BroughtBack == \A p \in Proc : ("done" \in DOMAIN loc[p] /\ Running = {}) => P!NotBroughtBack = {}

NoDangling == P!Dangling = {}

\* C10: once a prune that did not overlap with anything has completed, every snapshot is readable
AfterCleanPrune == \A p \in Proc :
  ("done" \in DOMAIN loc[p] /\ loc[p].done = "prune" /\ loc[p].cleanrun /\ Running = {}) => P!AllReadable

\* C08: what the packs hold can always be re-derived: after a completed repair-index every blob of
\* every present pack is indexed again, so every snapshot whose blobs are physically there is readable
\* (packs known only as blob-less entries marked for deletion - former unreferenced packs - are
\* garbage by design and stay so)
Held == UNION {packs[q] : q \in {x \in DOMAIN packs : ~\E e \in P!Entries : e.p = x /\ e.mark /\ e.blobs = {}}}
Rebuilt == \A p \in Proc :
  ("done" \in DOMAIN loc[p] /\ loc[p].done = "repair_index" /\ Running = {})
     => \A s \in DOMAIN snaps : snaps[s] \subseteq Held => P!Recoverable(s)
\* without damage repair-index never makes anything unreadable, also when interrupted
\* (checked as AllReadable in the instances without LoseIndex)

\* C15: in an append-only repository no stored snapshot, index or pack file ever disappears
NoRemoval == [][AppendOnly => /\ DOMAIN packs \subseteq DOMAIN packs'
                              /\ DOMAIN idx \subseteq DOMAIN idx'
                              /\ DOMAIN snaps \subseteq DOMAIN snaps']_vars
=============================================================================
