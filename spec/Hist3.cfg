SPECIFICATION Spec
CONSTANTS
  Version = {"v1", "v2", "v3"}
  N = 3
INVARIANT Emit
CHECK_DEADLOCK FALSE
