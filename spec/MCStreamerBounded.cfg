SPECIFICATION Spec
CONSTANTS
  N = 6
  Roots <- RootsWide
  W = 1
  InCap = 1
  OutCap = 1
  Shapes <- Wide
INVARIANTS AtMostOnce DoneRight
CHECK_DEADLOCK TRUE
