SPECIFICATION Spec
CONSTANTS
  Input <- InputCollide
  Cap = 2
  Typed = FALSE
INVARIANTS NothingDropped NoOrphan
PROPERTY Termination
