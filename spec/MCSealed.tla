------------------------------ MODULE MCSealed ------------------------------
EXTENDS Sealed
FileMC == {"s1", "s2", "i1", "p1", "p2", "p3"}
TpeMC == [f \in FileMC |-> CASE f \in {"s1", "s2"} -> "snapshot" [] f = "i1" -> "index" [] OTHER -> "pack"]
\* p1 and p2 have the same layout (two blobs of equal lengths + header), p3 differs
LayoutMC == [f \in FileMC |-> CASE f \in {"p1", "p2"} -> <<2, 2, 1>> [] f = "p3" -> <<2, 3, 1>> [] OTHER -> <<1>>]
AllTypes == {"snapshot", "index", "pack"}
NoTypes == {}
OrderMC == [f \in FileMC |-> CASE f = "p1" -> 1 [] f = "p2" -> 2 [] f = "p3" -> 3 [] f = "i1" -> 4 [] f = "s1" -> 5 [] OTHER -> 6]
=============================================================================
