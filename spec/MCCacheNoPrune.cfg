SPECIFICATION Spec
CONSTANTS
  Key = {k1, k2, k3}
  MaxOps = 5
  PruneOnList = FALSE
INVARIANTS AfterList SameResults
CHECK_DEADLOCK FALSE
