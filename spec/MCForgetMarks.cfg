SPECIFICATION Spec
CONSTANTS
  MaxLen = 3
  Counts <- CountsSmall
  WithMarks = TRUE
INVARIANTS DeclEq Monotone Marks
CHECK_DEADLOCK FALSE
