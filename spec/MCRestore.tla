------------------------------ MODULE MCRestore ------------------------------
(***************************************************************************)
(* The restore plan for ONE snapshot path, as the merge-walk of the        *)
(* destination and the snapshot listing decides it, over every kind of     *)
(* pre-existing entry x snapshot entry x options.                           *)
(*   pre  : "absent" | "file-trusted" (same size and mtime, content maybe  *)
(*          different) | "file-other" | "dir" | "symlink"                   *)
(*   snap : "file" | "dir" | "symlink"                                      *)
(* ReplaceMismatch = FALSE is the behaviour before the fix: an entry of    *)
(* another type (and any symlink) is only removed when `delete` is given;  *)
(* it violates ExactOK (self-test).                                         *)
(***************************************************************************)
EXTENDS Integers, TLC

CONSTANT ReplaceMismatch

VARIABLES pre, snap, delete, verify, post
vars == <<pre, snap, delete, verify, post>>

Pre == {"absent", "file-trusted", "file-other", "dir", "symlink"}
Snap == {"file", "dir", "symlink"}

TypeOf(p) == IF p \in {"file-trusted", "file-other"} THEN "file" ELSE p
Mismatch(p, s) == p # "absent" /\ (TypeOf(p) # s \/ s = "symlink")

\* result for the path: "snapshot" = exactly the snapshot's entry, "stale" = something else
Result(p, s, d, v) ==
  IF p = "absent" THEN "snapshot"
  ELSE IF Mismatch(p, s)
       THEN IF d \/ ReplaceMismatch THEN "snapshot" ELSE "stale"
       ELSE \* same type
            CASE s = "dir" -> "snapshot"                       \* metadata is set again
              [] s = "file" -> IF p = "file-trusted" /\ ~v THEN "trusted" ELSE "snapshot"   \* per-blob compare and rewrite
              [] OTHER -> "snapshot"

Init == /\ pre \in Pre /\ snap \in Snap /\ delete \in BOOLEAN /\ verify \in BOOLEAN
        /\ post = Result(pre, snap, delete, verify)
Next == UNCHANGED vars
Spec == Init /\ [][Next]_vars

\* Exact: unless the existing file is trusted (same size and mtime, no verification), the path holds the snapshot's entry
ExactOK == post = "snapshot" \/ (post = "trusted" /\ pre = "file-trusted" /\ ~verify)
=============================================================================
