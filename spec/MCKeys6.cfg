SPECIFICATION Spec
CONSTANTS
  Pw = {"pa", "pb", "pc"}
  Wrong = {"wx"}
  MaxKeys = 3
  MaxSteps = 6
INVARIANTS Access OnlyRight Emit
CHECK_DEADLOCK FALSE
