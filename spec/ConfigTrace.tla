---------------------------- MODULE ConfigTrace ----------------------------
(***************************************************************************)
(* C18 trace validation: one record per real application of an option     *)
(* record (at init or as a change) with stored configuration before and   *)
(* after, and the outcome of the smoke run; plus prune-limit records.      *)
(***************************************************************************)
EXTENDS Config, Json, IOUtils

Rec == ndJsonDeserialize(IOEnv.TRACE)
VARIABLE l
TInit == l = 1
TNext == l < Len(Rec) /\ l' = l + 1
TSpec == TInit /\ [][TNext]_l

ConfigVerdict(r) ==
  (IF ~Frame(r) THEN {<<"Frame", {f \in Fields \ DOMAIN r.opts : r.after[f] # r.before[f]}>>} ELSE {})
  \cup (IF ~NoDowngrade(r) THEN {<<"NoDowngrade">>} ELSE {})
  \cup (IF ~Untouched(r) THEN {<<"Untouched", r.wrote>>} ELSE {})
  \cup (IF ~AcceptedWorks(r) THEN {<<"AcceptedWorks", r.smokeclass, r.smoke>>} ELSE {})
  \cup (IF r.result = "panic" THEN {<<"NoPanic", "apply", r.msg>>} ELSE {})

PruneVerdict(r) ==
  (IF r.result = "panic" THEN {<<"NoPanic", "prune", r.msg>>} ELSE {})
  \cup (IF r.smokeclass # "ok" THEN {<<"PruneBroke", r.smoke>>} ELSE {})

Verdict(r) == IF r.kind = "config" THEN ConfigVerdict(r) ELSE PruneVerdict(r)
Conforms == Verdict(Rec[l]) = {} \/ PrintT(<<"NONCONF", l, Rec[l].id, Verdict(Rec[l])>>)
AllConsumed == TLCGet("stats").diameter = Len(Rec)
                 \/ PrintT(<<"TOOLERR", "trace not consumed", TLCGet("stats").diameter, Len(Rec)>>)
=============================================================================
