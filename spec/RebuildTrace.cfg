SPECIFICATION Spec
INVARIANT Conforms
POSTCONDITION AllConsumed
CHECK_DEADLOCK FALSE
