-------------------------------- MODULE Hist --------------------------------
(***************************************************************************)
(* Generator of command histories for replay on the real repository       *)
(* (C02, C08, C19): all sequences of length N over                         *)
(*   backup(v) | stale-backup(v) | forget(v) | prune(instant) | tick       *)
(* that are meaningful on the abstract summary state:                      *)
(*   alive  - versions that currently have a snapshot                      *)
(*   marked - a non-instant prune may have left packs marked for deletion  *)
(*   loaded - a repository handle with an index loaded earlier exists      *)
(* Each behaviour of length N is printed once as a REPLAY line.            *)
(***************************************************************************)
EXTENDS Integers, Sequences, FiniteSets, TLC

CONSTANTS Version, N

VARIABLES h, alive, marked, loaded, garbage
vars == <<h, alive, marked, loaded, garbage>>

Init == h = <<>> /\ alive = {} /\ marked = FALSE /\ loaded = FALSE /\ garbage = FALSE

Backup(v) == /\ h' = Append(h, <<"backup", v>>)
             /\ alive' = alive \cup {v}
             /\ UNCHANGED <<marked, loaded, garbage>>

\* open a handle and load its index now; back up through it later
Load == /\ ~loaded /\ alive # {}
        /\ h' = Append(h, <<"load">>)
        /\ loaded' = TRUE
        /\ UNCHANGED <<alive, marked, garbage>>

StaleBackup(v) == /\ loaded
                  /\ h' = Append(h, <<"stale", v>>)
                  /\ alive' = alive \cup {v}
                  /\ loaded' = FALSE
                  /\ UNCHANGED <<marked, garbage>>

Forget(v) == /\ v \in alive
             /\ h' = Append(h, <<"forget", v>>)
             /\ alive' = alive \ {v}
             /\ garbage' = TRUE
             /\ UNCHANGED <<marked, loaded>>

Prune(instant) == /\ h' = Append(h, <<"prune", instant>>)
                  /\ marked' = (IF instant THEN FALSE ELSE (marked \/ garbage))
                  /\ garbage' = FALSE
                  /\ UNCHANGED <<alive, loaded>>

Tick == /\ marked
        /\ h = <<>> \/ h[Len(h)][1] # "tick"
        /\ h' = Append(h, <<"tick">>)
        /\ UNCHANGED <<alive, marked, loaded, garbage>>

Next == /\ Len(h) < N
        /\ \/ \E v \in Version : Backup(v) \/ StaleBackup(v) \/ Forget(v)
           \/ Load \/ Tick
           \/ \E i \in BOOLEAN : Prune(i)

Spec == Init /\ [][Next]_vars

\* a history is worth replaying if it prunes at least once after something became garbage
Interesting == \E i \in 1..Len(h) : h[i][1] = "forget"
Emit == (Len(h) = N /\ Interesting) => PrintT(<<"REPLAY", h>>)
=============================================================================
