SPECIFICATION Spec
CONSTANTS
  CheckIndex = TRUE
  CheckType = TRUE
  NParents = 2
INVARIANTS Equal Present ReadIfMissing
CHECK_DEADLOCK FALSE
