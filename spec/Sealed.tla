------------------------------- MODULE Sealed -------------------------------
(***************************************************************************)
(* C04: stored files as sequences of sealed messages, an adversary who can *)
(* rewrite stored bytes, and the readers of the library.                   *)
(*                                                                         *)
(* A sealed message is  nonce(16) || AES256-CTR(body) || Poly1305-AES tag. *)
(* Abstractly: [n |-> nonce, p |-> plaintext, len |-> length class,        *)
(* ok |-> the tag verifies].  A snapshot / index / config file is ONE      *)
(* message spanning the whole file; a pack file is a sequence of blob      *)
(* messages, then a header message, then an unauthenticated 4-byte length. *)
(* The name of a file is the SHA-256 of its stored bytes; a blob is        *)
(* addressed by (pack, offset, length) taken from the index and its id is  *)
(* the SHA-256 of its plaintext.                                           *)
(*                                                                         *)
(* Readers (as in backend/decrypt.rs):                                     *)
(*   ReadFile(f)    - decrypt the whole file as one message;               *)
(*                    if Tpe[f] \in VerifyName also compare SHA-256(bytes) *)
(*                    with the name.                                       *)
(*   ReadBlob(f, i) - decrypt the window (offset_i, len_i) of pack f;      *)
(*                    if VerifyBlob also compare SHA-256(plaintext) with   *)
(*                    the blob id.                                         *)
(* The library as it is has VerifyName = {} for reads and VerifyBlob =     *)
(* FALSE (check --read-data verifies both for packs): MCSealedAsIs.cfg     *)
(* shows that Authentic then fails exactly through Subst; MCSealed.cfg is  *)
(* the design that satisfies the property.                                 *)
(***************************************************************************)
EXTENDS Integers, Sequences, FiniteSets, TLC

CONSTANTS File,        \* stored files (original names)
          Tpe,         \* [File -> "snapshot" | "index" | "pack"]
          Order,       \* [File -> Nat]: the order in which the files are written
          Layout,      \* [File -> Seq(length class)]: message lengths; <<n>> for a non-pack file
          Nonce,       \* the nonce space (small on purpose)
          FreshNonce,  \* TRUE: Write draws a nonce never used before under this key (2^-128 collision abstracted away)
          VerifyName,  \* file types whose reader checks SHA-256(bytes) = name
          VerifyBlob,  \* blob reader checks SHA-256(plaintext) = blob id
          AllowSubst,  \* adversary may replace a file by another stored file of the same type
          MaxTamper

VARIABLES store,   \* [File -> [orig : File, pristine : BOOLEAN, msgs : Seq(message), tail : BOOLEAN]]
          used,    \* nonces used so far under the master key
          written, \* files written so far
          ntamper
vars == <<store, used, written, ntamper>>

Err == <<"err", 0>>
Msg(n, f, i, len) == [n |-> n, p |-> <<f, i>>, len |-> len, ok |-> TRUE]
Absent == [orig |-> "none", pristine |-> FALSE, msgs |-> <<>>, tail |-> FALSE]

Init == store = [f \in File |-> Absent] /\ used = {} /\ written = {} /\ ntamper = 0

\* the library writes file f: one fresh nonce per message
\* with FreshNonce the nonces are drawn without replacement (which one is immaterial: the smallest unused one is
\* taken, a symmetry reduction); without it any nonce of the space may come up again
RECURSIVE Draw(_, _, _, _)
Draw(f, i, pool, acc) ==
  IF i > Len(Layout[f]) THEN {acc}
  ELSE IF FreshNonce
       THEN LET n == CHOOSE x \in pool : \A y \in pool : x <= y IN Draw(f, i + 1, pool \ {n}, Append(acc, Msg(n, f, i, Layout[f][i])))
       ELSE UNION {Draw(f, i + 1, pool, Append(acc, Msg(n, f, i, Layout[f][i]))) : n \in pool}
Write(f) ==
  /\ f \notin written /\ ntamper = 0
  /\ \A g \in File \ written : Order[f] <= Order[g]     \* files are written in one fixed order (their order is immaterial)
  /\ \E ms \in Draw(f, 1, IF FreshNonce THEN Nonce \ used ELSE Nonce, <<>>) :
       /\ store' = [store EXCEPT ![f] = [orig |-> f, pristine |-> TRUE, msgs |-> ms, tail |-> TRUE]]
       /\ used' = used \cup {ms[i].n : i \in DOMAIN ms}
  /\ written' = written \cup {f} /\ UNCHANGED ntamper

\* --- the adversary ------------------------------------------------------
Tamper == ntamper < MaxTamper /\ ntamper' = ntamper + 1 /\ UNCHANGED <<used, written>>
\* any bit of message i (nonce, body or tag)
Flip(f, i) == /\ Tamper /\ f \in written /\ i \in DOMAIN store[f].msgs
              /\ store' = [store EXCEPT ![f].msgs[i].ok = FALSE, ![f].pristine = FALSE]
\* a bit of the unauthenticated length field of a pack
FlipTail(f) == /\ Tamper /\ f \in written /\ Tpe[f] = "pack"
               /\ store' = [store EXCEPT ![f].tail = FALSE, ![f].pristine = FALSE]
\* cut inside or before message i: messages i.. are gone or partial
Truncate(f, i) == /\ Tamper /\ f \in written /\ i \in DOMAIN store[f].msgs
                  /\ store' = [store EXCEPT ![f].msgs = [j \in 1 .. i |-> IF j = i THEN [@[j] EXCEPT !.ok = FALSE, !.len = 0] ELSE @[j]],
                                            ![f].tail = FALSE, ![f].pristine = FALSE]
\* bytes appended: a whole-file message no longer ends where its tag is; windows inside a pack are unaffected
Extend(f) == /\ Tamper /\ f \in written
             /\ store' = [store EXCEPT ![f].msgs = IF Tpe[f] = "pack" THEN @ ELSE [j \in DOMAIN @ |-> [@[j] EXCEPT !.ok = FALSE]],
                                       ![f].tail = FALSE, ![f].pristine = FALSE]
\* the bytes of g stored under the name of f
Subst(f, g) == /\ Tamper /\ AllowSubst /\ f \in written /\ g \in written /\ f # g /\ Tpe[f] = Tpe[g]
               /\ store' = [store EXCEPT ![f] = store[g]]
Remove(f) == /\ Tamper /\ f \in written /\ store' = [store EXCEPT ![f] = Absent]

Next == \E f \in File :
          \/ Write(f) \/ FlipTail(f) \/ Extend(f) \/ Remove(f)
          \/ \E i \in 1 .. Len(Layout[f]) : Flip(f, i) \/ Truncate(f, i)
          \/ \E g \in File : Subst(f, g)
Spec == Init /\ [][Next]_vars

\* --- the readers ---------------------------------------------------------
NameOK(f) == Tpe[f] \notin VerifyName \/ (store[f].orig = f /\ store[f].pristine)
\* the whole file as one message
ReadFile(f) ==
  LET s == store[f] IN
  IF s.orig = "none" \/ Len(s.msgs) # 1 \/ ~s.msgs[1].ok \/ ~NameOK(f) THEN Err ELSE s.msgs[1].p

RECURSIVE Off(_, _)
Off(ms, i) == IF i <= 1 THEN 0 ELSE IF i - 1 > Len(ms) THEN -1 ELSE Off(ms, i - 1) + ms[i - 1].len
\* window (offset_i, len_i) of the ORIGINAL layout of f, applied to what is stored under the name f
ReadBlob(f, i) ==
  LET s == store[f]
      off == Off([j \in DOMAIN Layout[f] |-> [len |-> Layout[f][j]]], i)
      hit == {j \in DOMAIN s.msgs : Off(s.msgs, j) = off /\ s.msgs[j].len = Layout[f][i] /\ s.msgs[j].ok}
  IN IF s.orig = "none" \/ hit = {} THEN Err
     ELSE LET j == CHOOSE x \in hit : TRUE IN
          IF VerifyBlob /\ s.msgs[j].p # <<f, i>> THEN Err ELSE s.msgs[j].p

\* --- properties ----------------------------------------------------------
\* a read returns what was written under that name, or fails
Authentic ==
  \A f \in written :
     /\ Tpe[f] # "pack" => ReadFile(f) \in {Err, <<f, 1>>}
     /\ Tpe[f] = "pack" => \A i \in 1 .. Len(Layout[f]) - 1 : ReadBlob(f, i) \in {Err, <<f, i>>}
\* a modified authenticated region makes the read of that region fail
Detected ==
  \A f \in written :
     /\ (Tpe[f] # "pack" /\ ~store[f].pristine /\ store[f].orig = f) => ReadFile(f) = Err
     /\ Tpe[f] = "pack" /\ store[f].orig = f =>
           \A i \in 1 .. Len(Layout[f]) - 1 : (i > Len(store[f].msgs) \/ ~store[f].msgs[i].ok) => ReadBlob(f, i) = Err
\* no two messages under the same key share a nonce (CTR keystream reuse would leak plaintext XORs)
NonceFresh ==
  \A f, g \in written : \A i \in DOMAIN store[f].msgs : \A j \in DOMAIN store[g].msgs :
     (store[f].orig = f /\ store[g].orig = g /\ <<f, i>> # <<g, j>>) => store[f].msgs[i].n # store[g].msgs[j].n
TypeOK == ntamper \in 0 .. MaxTamper /\ written \subseteq File
=============================================================================
