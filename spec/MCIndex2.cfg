SPECIFICATION Spec
CONSTANT MaxL = 2
INVARIANTS Consistent Emit
CHECK_DEADLOCK FALSE
