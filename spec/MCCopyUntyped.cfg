SPECIFICATION Spec
CONSTANTS
  N = 3
  MaxDat = 1
  Walk = "source"
  IndexerTyped = FALSE
INVARIANTS Complete NoRewrite BlobsFirst
CHECK_DEADLOCK FALSE
