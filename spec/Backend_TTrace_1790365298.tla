---- MODULE Backend_TTrace_1790365298 ----
EXTENDS Sequences, Backend_TEConstants, Backend, TLCExt, Toolbox, Naturals, TLC

_expression ==
    LET Backend_TEExpression == INSTANCE Backend_TEExpression
    IN Backend_TEExpression!expression
----

_trace ==
    LET Backend_TETrace == INSTANCE Backend_TETrace
    IN Backend_TETrace!trace
----

_inv ==
    ~(
        TLCGet("level") = Len(_TETrace)
        /\
        tmp = (<<>>)
        /\
        nops = (1)
        /\
        writing = ({k1})
        /\
        store = ((k1 :> [v |-> a, complete |-> FALSE]))
    )
----

_init ==
    /\ store = _TETrace[1].store
    /\ nops = _TETrace[1].nops
    /\ writing = _TETrace[1].writing
    /\ tmp = _TETrace[1].tmp
----

_next ==
    /\ \E i,j \in DOMAIN _TETrace:
        /\ \/ /\ j = i + 1
              /\ i = TLCGet("level")
        /\ store  = _TETrace[i].store
        /\ store' = _TETrace[j].store
        /\ nops  = _TETrace[i].nops
        /\ nops' = _TETrace[j].nops
        /\ writing  = _TETrace[i].writing
        /\ writing' = _TETrace[j].writing
        /\ tmp  = _TETrace[i].tmp
        /\ tmp' = _TETrace[j].tmp

\* Uncomment the ASSUME below to write the states of the error trace
\* to the given file in Json format. Note that you can pass any tuple
\* to `JsonSerialize`. For example, a sub-sequence of _TETrace.
    \* ASSUME
    \*     LET J == INSTANCE Json
    \*         IN J!JsonSerialize("Backend_TTrace_1790365298.json", _TETrace)

=============================================================================

 Note that you can extract this module `Backend_TEExpression`
  to a dedicated file to reuse `expression` (the module in the 
  dedicated `Backend_TEExpression.tla` file takes precedence 
  over the module `Backend_TEExpression` below).

---- MODULE Backend_TEExpression ----
EXTENDS Sequences, Backend_TEConstants, Backend, TLCExt, Toolbox, Naturals, TLC

expression == 
    [
        \* To hide variables of the `Backend` spec from the error trace,
        \* remove the variables below.  The trace will be written in the order
        \* of the fields of this record.
        store |-> store
        ,nops |-> nops
        ,writing |-> writing
        ,tmp |-> tmp
        
        \* Put additional constant-, state-, and action-level expressions here:
        \* ,_stateNumber |-> _TEPosition
        \* ,_storeUnchanged |-> store = store'
        
        \* Format the `store` variable as Json value.
        \* ,_storeJson |->
        \*     LET J == INSTANCE Json
        \*     IN J!ToJson(store)
        
        \* Lastly, you may build expressions over arbitrary sets of states by
        \* leveraging the _TETrace operator.  For example, this is how to
        \* count the number of times a spec variable changed up to the current
        \* state in the trace.
        \* ,_storeModCount |->
        \*     LET F[s \in DOMAIN _TETrace] ==
        \*         IF s = 1 THEN 0
        \*         ELSE IF _TETrace[s].store # _TETrace[s-1].store
        \*             THEN 1 + F[s-1] ELSE F[s-1]
        \*     IN F[_TEPosition - 1]
    ]

=============================================================================



Parsing and semantic processing can take forever if the trace below is long.
 In this case, it is advised to uncomment the module below to deserialize the
 trace from a generated binary file.

\*
\*---- MODULE Backend_TETrace ----
\*EXTENDS IOUtils, Backend_TEConstants, Backend, TLC
\*
\*trace == IODeserialize("Backend_TTrace_1790365298.bin", TRUE)
\*
\*=============================================================================
\*

---- MODULE Backend_TETrace ----
EXTENDS Backend_TEConstants, Backend, TLC

trace == 
    <<
    ([tmp |-> <<>>,nops |-> 0,writing |-> {},store |-> <<>>]),
    ([tmp |-> <<>>,nops |-> 1,writing |-> {k1},store |-> (k1 :> [v |-> a, complete |-> FALSE])])
    >>
----


=============================================================================

---- MODULE Backend_TEConstants ----
EXTENDS Backend

CONSTANTS k1, k2, a, b

=============================================================================

---- CONFIG Backend_TTrace_1790365298 ----
CONSTANTS
    Key = { k1 , k2 }
    Value = { a , b }
    MaxOps = 4
    AtomicPublish = FALSE
    b = b
    k1 = k1
    a = a
    k2 = k2

INVARIANT
    _inv

CHECK_DEADLOCK
    \* CHECK_DEADLOCK off because of PROPERTY or INVARIANT above.
    FALSE

INIT
    _init

NEXT
    _next

CONSTANT
    _TETrace <- _trace

ALIAS
    _expression
=============================================================================
\* Generated on Fri Sep 25 19:41:39 UTC 2026