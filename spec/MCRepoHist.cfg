SPECIFICATION Spec
CONSTANTS
  Proc = {p1}
  BackupProcs = {p1}
  PruneProcs = {p1}
  Version = {"v1", "v2"}
  Needs <- NeedsB
  KD = 1
  MaxTime = 2
  MaxPacks = 6
  MaxCmds = 4
  Concurrent = FALSE
  AllowInstant = TRUE
  AppendOnly = FALSE
  AllowDamage = FALSE
  AllowCrash = FALSE
  AllowEarly = FALSE
  TickInPrune = TRUE
  UntypedDedup = FALSE
  DeriveFrom <- NoDerive
  DeriveForget = FALSE
  PartialFlush = FALSE
  SnapFirst = FALSE
VIEW View
INVARIANTS AllReadable BroughtBack NoDangling EmitHist
CHECK_DEADLOCK FALSE
