---------------------------- MODULE ParentTrace ----------------------------
(***************************************************************************)
(* C11 trace validation.  One record per real parent-based backup with the  *)
(* real facts: nodes of each parent, of the result (rnodes) and of a forced *)
(* backup of the same source (fnodes) by path, the blobs the index held     *)
(* before the backup, the files the archiver opened, both root tree ids,    *)
(* the read-back verdict of the result, whether the snapshot was saved.     *)
(*  ReuseOK  - a file not opened has a parent node of the same name, type,  *)
(*             size, mtime (ctime unless ignored) whose blobs were indexed   *)
(*  Equal    - if every file that differs from a parent node also differs   *)
(*             in size, mtime or (unless ignored) ctime: result tree =       *)
(*             forced tree, and the result reads back as the source          *)
(*  EqualP   - the same per path (content recorded = content read)           *)
(*  Present  - the result is listable and readable in any case               *)
(*  SkipOK   - the snapshot is left out only with skip-if-unchanged and only *)
(*             if its tree is a parent's tree                                *)
(***************************************************************************)
EXTENDS Integers, Sequences, FiniteSets, TLC, Json, IOUtils

Rec == ndJsonDeserialize(IOEnv.TRACE)
VARIABLE l
Init == l = 1
Next == l < Len(Rec) /\ l' = l + 1
Spec == Init /\ [][Next]_l

Range(s) == {s[i] : i \in DOMAIN s}
Flag(r, k) == k \in DOMAIN r.opts /\ r.opts[k] = TRUE
SameCtime(r, a, b) == Flag(r, "ignore_ctime") \/ a.ctime = b.ctime \/ a.ctime = -1 \/ b.ctime = -1
SameType(a, b) == a.kind = b.kind /\ (a.kind = "link" => a.target = b.target)
Match(r, pn, cn) == SameType(pn, cn) /\ pn.size = cn.size /\ pn.mtime = cn.mtime /\ SameCtime(r, pn, cn)
Indexed(r, pn) == Range(pn.content) \subseteq Range(r.indexed)
Has(r, p) == {i \in DOMAIN r.parents : p \in DOMAIN r.parents[i].nodes}
Files(r) == {p \in DOMAIN r.fnodes : r.fnodes[p].kind = "file"}

PremiseP(r, p) ==
  \A i \in Has(r, p) :
    LET pn == r.parents[i].nodes[p] cn == r.fnodes[p] IN
    (pn.kind = "file" /\ pn.content # cn.content) => ~(pn.size = cn.size /\ pn.mtime = cn.mtime /\ SameCtime(r, pn, cn))
Premise(r) == \A p \in Files(r) : PremiseP(r, p)

Verdict(r) ==
  IF r.result # "ok" THEN {<<"BackupFailed", r.result, r.msg>>}
  ELSE
  {<<"ReuseOK", p>> : p \in {q \in Files(r) : q \notin Range(r.opened) /\
        ~\E i \in Has(r, q) : Match(r, r.parents[i].nodes[q], r.fnodes[q]) /\ Indexed(r, r.parents[i].nodes[q])}}
  \cup {<<"EqualP", p>> : p \in {q \in Files(r) : PremiseP(r, q) /\ r.rls = "ok" /\
        ~(q \in DOMAIN r.rnodes /\ r.rnodes[q].content = r.fnodes[q].content)}}
  \cup (IF Premise(r) /\ r.rtree # r.ftree THEN {<<"Equal", "tree", r.rtree, r.ftree>>} ELSE {})
  \cup (IF Premise(r) /\ r.readback # "ok" THEN {<<"Equal", "readback", r.readback>>} ELSE {})
  \cup (IF r.rls # "ok" THEN {<<"Present", "ls", r.rls>>} ELSE {})
  \cup (IF r.readback \notin {"ok", "differs"} THEN {<<"Present", "readback", r.readback>>} ELSE {})
  \cup (IF ~r.saved /\ ~Flag(r, "skip_if_unchanged") THEN {<<"SkipOK", "not saved without the option">>} ELSE {})
  \cup (IF ~r.saved /\ ~\E i \in DOMAIN r.parents : r.parents[i].tree = r.rtree THEN {<<"SkipOK", "skipped although the tree is new">>} ELSE {})

Conforms == Rec[l].e # "parent" \/ Verdict(Rec[l]) = {} \/ PrintT(<<"NONCONF", l, Rec[l].id, Verdict(Rec[l])>>)
AllConsumed == TLCGet("stats").diameter = Len(Rec)
                 \/ PrintT(<<"TOOLERR", "trace not consumed", TLCGet("stats").diameter, Len(Rec)>>)
=============================================================================
