SPECIFICATION Spec
CONSTANTS
  Proc = {p1}
  BackupProcs = {p1}
  PruneProcs = {p1}
  Version = {"v1", "v2"}
  Needs <- NeedsB
  KD = 1
  MaxTime = 1
  MaxPacks = 4
  MaxCmds = 3
  Concurrent = FALSE
  AllowInstant = TRUE
  AppendOnly = FALSE
  AllowDamage = FALSE
  AllowCrash = TRUE
  AllowEarly = FALSE
  TickInPrune = TRUE
  UntypedDedup = FALSE
  DeriveFrom <- NoDerive
  DeriveForget = FALSE
  PartialFlush = FALSE
  SnapFirst = FALSE
VIEW View
INVARIANTS TypeOK AllReadable BroughtBack NoDangling
CHECK_DEADLOCK FALSE
