SPECIFICATION Spec
CONSTANTS
  Version = {"v1", "v2", "v3"}
  N = 7
INVARIANT Emit
CHECK_DEADLOCK FALSE
