----------------------------- MODULE TreesTrace -----------------------------
(***************************************************************************)
(* C12 trace validation.  One record per real command; inputs and outputs   *)
(* are flattened trees  path -> [k, mt, c, sig, up, base]  read back from    *)
(* the real repositories (c = digest of the content really dumped, "ERR" if  *)
(* that failed; sig = kind | size | mtime | ctime | inode | mode | c;         *)
(* up = parent path).  The formulas are the property side of Trees.tla on    *)
(* string paths.                                                              *)
(*   merge   : IsMerge - nothing invented, every node is a latest-mtime      *)
(*             candidate, a path is present iff a directory won on its parent *)
(*   rewrite : exactly the paths without a hit ancestor-or-self stay, with    *)
(*             identical nodes; originals stay unless forget                  *)
(*   repair  : undamaged -> no storage mutation, same trees; damaged -> every  *)
(*             file kept under its own name has its original content          *)
(*   copy    : every snapshot arrives with identical nodes and contents       *)
(***************************************************************************)
EXTENDS Integers, Sequences, FiniteSets, TLC, Json, IOUtils

Rec == ndJsonDeserialize(IOEnv.TRACE)
VARIABLE l
Init == l = 1
Next == l < Len(Rec) /\ l' = l + 1
Spec == Init /\ [][Next]_l

Range(s) == {s[i] : i \in DOMAIN s}
Unreadable(T) == {<<IF T[p].k = "dup" THEN "DuplicateName" ELSE "Unreadable", p>> : p \in {q \in DOMAIN T : T[q].c = "ERR"}}
SameTree(A, B) == DOMAIN A = DOMAIN B /\ \A p \in DOMAIN A : A[p].sig = B[p].sig

\* ---- merge
Cand(Ts, p) == {i \in DOMAIN Ts : p \in DOMAIN Ts[i]}
Maximal(Ts, p) == {i \in Cand(Ts, p) : \A j \in Cand(Ts, p) : Ts[j][p].mt <= Ts[i][p].mt}
AllPaths(Ts) == UNION {DOMAIN Ts[i] : i \in DOMAIN Ts}
UpOf(Ts, p) == Ts[CHOOSE i \in Cand(Ts, p) : TRUE][p].up
MergeV(r) ==
  LET Ts == r.inputs M == r.output IN
  IF r.result # "ok" THEN {<<"MergeFailed", r.result>>}
  ELSE {<<"Invented", p>> : p \in DOMAIN M \ AllPaths(Ts)}
       \cup {<<"Winner", p>> : p \in {q \in DOMAIN M \cap AllPaths(Ts) : ~\E i \in Maximal(Ts, q) : M[q].sig = Ts[i][q].sig}}
       \cup {<<"Union", p>> : p \in {q \in AllPaths(Ts) :
               (q \in DOMAIN M) # (UpOf(Ts, q) = "" \/ (UpOf(Ts, q) \in DOMAIN M /\ M[UpOf(Ts, q)].k = "dir"))}}
       \cup Unreadable(M)
       \cup (IF r.check # "clean" THEN {<<"CheckNotClean", r.check>>} ELSE {})

\* ---- rewrite
RECURSIVE HitAbove(_, _, _)
HitAbove(T, H, p) == p # "" /\ (p \in H \/ (p \in DOMAIN T /\ HitAbove(T, H, T[p].up)))
RewriteV(r) ==
  IF r.result # "ok" THEN {<<"RewriteFailed", r.result>>}
  ELSE UNION {
    LET T == r.inputs[i] H == Range(r.hits[i]) O == r.outputs[i]
        E == {p \in DOMAIN T : ~HitAbove(T, H, p)}
    IN (IF O.which \notin {"rewritten", "unchanged"} THEN {<<"RewrittenSnapshot", i, O.which>>} ELSE
         {<<"Removed", i, p>> : p \in E \ DOMAIN O.nodes}
         \cup {<<"NotRemoved", i, p>> : p \in DOMAIN O.nodes \ E}
         \cup {<<"Changed", i, p>> : p \in {q \in E \cap DOMAIN O.nodes : O.nodes[q].sig # T[q].sig}}
         \cup Unreadable(O.nodes))
       \cup (IF O.which = "rewritten" /\ O.still = ("forget" \in DOMAIN r.opts /\ r.opts.forget) THEN {<<"OriginalKept", i, O.still>>} ELSE {})
    : i \in DOMAIN r.inputs}
  \cup (IF r.check # "clean" THEN {<<"CheckNotClean", r.check>>} ELSE {})

\* ---- repair
RepairV(r) ==
  IF r.result # "ok" THEN {<<"RepairFailed", r.result>>}
  ELSE UNION {
    LET T == r.inputs[i] O == r.outputs[i] F == r.flags[i]
        damaged == F.lost # <<>> \/ F.gone # <<>> \/ F.root_gone
    IN (IF ~damaged /\ ~(O.which = "unchanged" /\ SameTree(O.nodes, T)) THEN {<<"IdentityOnUndamaged", i, O.which>>} ELSE {})
       \cup (IF O.which \in {"repaired", "unchanged", "deleted"} THEN
              {<<"KeepsOriginal", i, p>> : p \in {q \in DOMAIN O.nodes : O.nodes[q].k = "file" /\ O.nodes[q].base = "" /\
                                                   ~(q \in DOMAIN T /\ O.nodes[q].c = T[q].c /\ O.nodes[q].c # "ERR")}}
              \cup {<<"MarkedUnknown", i, p>> : p \in {q \in DOMAIN O.nodes : O.nodes[q].base # "" /\ O.nodes[q].base \notin DOMAIN T}}
            ELSE {<<"RepairedSnapshot", i, O.which>>})
    : i \in DOMAIN r.inputs}
  \cup (IF r.removed_packs = 0 /\ r.mutations # 0 THEN {<<"IdentityOnUndamaged", "storage mutated", r.mutations>>} ELSE {})

\* ---- copy
CopyV(r) ==
  IF r.result # "ok" THEN {<<"CopyFailed", r.result>>}
  ELSE UNION {
    LET T == r.inputs[i] O == r.outputs[i] IN
    IF O.which # "copied" THEN {<<"Copied", i, O.which>>}
    ELSE {<<"Missing", i, p>> : p \in DOMAIN T \ DOMAIN O.nodes}
         \cup {<<"Extra", i, p>> : p \in DOMAIN O.nodes \ DOMAIN T}
         \cup {<<"Differs", i, p>> : p \in {q \in DOMAIN T \cap DOMAIN O.nodes : O.nodes[q].sig # T[q].sig}}
         \cup Unreadable(O.nodes)
    : i \in DOMAIN r.inputs}
  \cup (IF r.check # "clean" THEN {<<"CheckNotClean", r.check>>} ELSE {})

Verdict(r) == CASE r.e = "merge" -> MergeV(r) [] r.e = "rewrite" -> RewriteV(r) [] r.e = "repair" -> RepairV(r)
                [] r.e = "copy" -> CopyV(r) [] OTHER -> {}
Conforms == Verdict(Rec[l]) = {} \/ PrintT(<<"NONCONF", l, Rec[l].id, Verdict(Rec[l])>>)
AllConsumed == TLCGet("stats").diameter = Len(Rec)
                 \/ PrintT(<<"TOOLERR", "trace not consumed", TLCGet("stats").diameter, Len(Rec)>>)
=============================================================================
