------------------------------ MODULE Streamer ------------------------------
(***************************************************************************)
(* C13 (termination, every tree exactly once): blob/tree.rs                 *)
(* TreeStreamerOnce - the pipeline that check, prune, copy and repair use    *)
(* to walk all trees of many snapshots.                                      *)
(*                                                                           *)
(*   caller thread : new() queues the root of every snapshot (add_pending),  *)
(*                   next() receives one loaded tree from `outq`, queues its *)
(*                   unvisited sub-trees into `inq`, decrements the pending  *)
(*                   counter of the snapshot the tree was reached from, and  *)
(*                   finishes when every snapshot's counter is zero          *)
(*   W loaders     : take an id from `inq`, load the tree, send it to `outq` *)
(*   inq  : unbounded in the library (InCap = 0 here means unbounded);       *)
(*          a bounded inq lets the caller block in the middle of next()      *)
(*          while every loader blocks on the full outq - a deadlock          *)
(*   outq : bounded (OutCap)                                                 *)
(* The forest is chosen in Init: tree i refers to sub-trees j < i only.      *)
(***************************************************************************)
EXTENDS Integers, Sequences, FiniteSets, TLC

CONSTANTS N, Roots, W, InCap, OutCap, Shapes   \* Shapes: the forests to explore ([1..N -> SUBSET 1..N])

Loader == 1..W
VARIABLES sub, visited, inq, outq, hold, counter, finished, pc, cur, todo, rootIx, delivered
vars == <<sub, visited, inq, outq, hold, counter, finished, pc, cur, todo, rootIx, delivered>>
\* hold[w]: the tree a loader has taken and not yet sent (0 = none); cur: <<tree, count>> being processed by next()
\* delivered: how often each tree was handed to the caller

RECURSIVE Closure(_, _)
Closure(ts, s) == LET new == (UNION {s[t] : t \in ts}) \ ts IN IF new = {} THEN ts ELSE Closure(ts \cup new, s)
RootSet == {Roots[i] : i \in DOMAIN Roots}
InFull == InCap > 0 /\ Len(inq) >= InCap

Init == /\ sub \in Shapes
        /\ visited = {} /\ inq = <<>> /\ outq = <<>> /\ hold = [w \in Loader |-> <<>>]
        /\ counter = [i \in DOMAIN Roots |-> 0] /\ finished = 0 /\ pc = "new" /\ cur = <<>> /\ todo = {}
        /\ rootIx = 1 /\ delivered = [t \in 1..N |-> 0]

\* new(): one add_pending per snapshot root
QueueRoot ==
  /\ pc = "new" /\ rootIx <= Len(Roots)
  /\ LET r == Roots[rootIx] IN
     IF r \in visited
     THEN /\ finished' = finished + 1 /\ UNCHANGED <<visited, inq, counter>>
     ELSE /\ ~InFull /\ visited' = visited \cup {r} /\ inq' = Append(inq, <<r, rootIx>>)
          /\ counter' = [counter EXCEPT ![rootIx] = @ + 1] /\ UNCHANGED finished
  /\ rootIx' = rootIx + 1 /\ UNCHANGED <<sub, outq, hold, pc, cur, todo, delivered>>
NewDone == /\ pc = "new" /\ rootIx > Len(Roots) /\ pc' = "next"
           /\ UNCHANGED <<sub, visited, inq, outq, hold, counter, finished, cur, todo, rootIx, delivered>>
\* next(): finished?
Finish == /\ pc = "next" /\ finished = Len(Roots) /\ pc' = "done"
          /\ UNCHANGED <<sub, visited, inq, outq, hold, counter, finished, cur, todo, rootIx, delivered>>
\* next(): blocking receive
Recv == /\ pc = "next" /\ finished # Len(Roots) /\ outq # <<>>
        /\ cur' = Head(outq) /\ outq' = Tail(outq) /\ todo' = sub[Head(outq)[1]] /\ pc' = "push"
        /\ UNCHANGED <<sub, visited, inq, hold, counter, finished, rootIx, delivered>>
\* next(): add_pending for one sub-tree (the send blocks when a bounded inq is full)
Push(t) == /\ pc = "push" /\ t \in todo /\ todo' = todo \ {t}
           /\ IF t \in visited THEN UNCHANGED <<visited, inq, counter>>
              ELSE /\ ~InFull /\ visited' = visited \cup {t} /\ inq' = Append(inq, <<t, cur[2]>>)
                   /\ counter' = [counter EXCEPT ![cur[2]] = @ + 1]
           /\ UNCHANGED <<sub, outq, hold, finished, pc, cur, rootIx, delivered>>
\* next(): this tree is done - hand it to the caller
Yield == /\ pc = "push" /\ todo = {}
         /\ counter' = [counter EXCEPT ![cur[2]] = @ - 1]
         /\ finished' = (IF counter[cur[2]] = 1 THEN finished + 1 ELSE finished)
         /\ delivered' = [delivered EXCEPT ![cur[1]] = @ + 1]
         /\ pc' = "next" /\ cur' = <<>>
         /\ UNCHANGED <<sub, visited, inq, outq, hold, todo, rootIx>>
\* loaders
Take(w) == /\ hold[w] = <<>> /\ inq # <<>> /\ hold' = [hold EXCEPT ![w] = Head(inq)] /\ inq' = Tail(inq)
           /\ UNCHANGED <<sub, visited, outq, counter, finished, pc, cur, todo, rootIx, delivered>>
Send(w) == /\ hold[w] # <<>> /\ Len(outq) < OutCap /\ outq' = Append(outq, hold[w]) /\ hold' = [hold EXCEPT ![w] = <<>>]
           /\ UNCHANGED <<sub, visited, inq, counter, finished, pc, cur, todo, rootIx, delivered>>
Terminated == pc = "done" /\ UNCHANGED vars

Caller == QueueRoot \/ NewDone \/ Finish \/ Recv \/ (\E t \in 1..N : Push(t)) \/ Yield
Next == Caller \/ (\E w \in Loader : Take(w) \/ Send(w)) \/ Terminated
Spec == Init /\ [][Next]_vars /\ WF_vars(Caller) /\ \A w \in Loader : WF_vars(Take(w)) /\ WF_vars(Send(w))

\* ---------------------------------------------------------------- properties
AtMostOnce == \A t \in 1..N : delivered[t] <= 1
\* when the iterator ends, every tree of every snapshot was delivered exactly once and nothing is left in flight
DoneRight == pc = "done" => /\ {t \in 1..N : delivered[t] = 1} = Closure(RootSet, sub)
                            /\ inq = <<>> /\ outq = <<>> /\ \A w \in Loader : hold[w] = <<>>
\* the counters count what is in flight for each snapshot
Counted == pc = "next" =>
   \A i \in DOMAIN Roots : counter[i] = Cardinality({k \in 1..Len(inq) : inq[k][2] = i}) + Cardinality({k \in 1..Len(outq) : outq[k][2] = i})
                                       + Cardinality({w \in Loader : hold[w] # <<>> /\ hold[w][2] = i})
Terminates == <>(pc = "done")
=============================================================================
