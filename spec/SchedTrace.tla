----------------------------- MODULE SchedTrace -----------------------------
(***************************************************************************)
(* C13 trace validation: each record holds the results of the SAME command *)
(* sequence on the SAME source under different back-end delay patterns,    *)
(* pack-size limits and thread-pool sizes.                                  *)
(*   Deterministic : all runs give the same tree id and the same set of    *)
(*                   referenced blobs;                                      *)
(*   Terminates    : no run hit the watchdog;                               *)
(*   NoOrphan      : no pack is left that the index does not list;          *)
(*   Readable      : the snapshot is readable and check is clean.           *)
(***************************************************************************)
EXTENDS Integers, Sequences, FiniteSets, TLC, Json, IOUtils

Rec == ndJsonDeserialize(IOEnv.TRACE)
VARIABLE l
Init == l = 1
Next == l < Len(Rec) /\ l' = l + 1
Spec == Init /\ [][Next]_l
Range(f) == {f[x] : x \in DOMAIN f}

Verdict(r) ==
  {<<"Terminates", i, r.runs[i].label>> : i \in {j \in DOMAIN r.runs : r.runs[j].outcome = "timeout"}}
  \cup {<<"Outcome", i, r.runs[i].outcome, r.runs[i].label>> : i \in {j \in DOMAIN r.runs : r.runs[j].outcome \notin {"ok", "timeout"}}}
  \* (records of the wide-directory scenario are judged for termination and outcome only)
  \cup (IF "wide" \in DOMAIN r THEN {} ELSE
  {<<"Deterministic", i, r.runs[i].label>> :
          i \in {j \in DOMAIN r.runs : r.runs[j].outcome = "ok" /\ r.runs[1].outcome = "ok"
                    /\ (r.runs[j].tree # r.runs[1].tree \/ Range(r.runs[j].needs) # Range(r.runs[1].needs))}}
  \cup {<<"NoOrphan", i, r.runs[i].orphans, r.runs[i].label>> : i \in {j \in DOMAIN r.runs : r.runs[j].outcome = "ok" /\ r.runs[j].orphans > 0}}
  \cup {<<"Readable", i, r.runs[i].label>> : i \in {j \in DOMAIN r.runs : r.runs[j].outcome = "ok" /\ ~(r.runs[j].readable /\ r.runs[j].clean)}})

Conforms == Verdict(Rec[l]) = {} \/ PrintT(<<"NONCONF", l, Rec[l].id, Verdict(Rec[l])>>)
AllConsumed == TLCGet("stats").diameter = Len(Rec)
                 \/ PrintT(<<"TOOLERR", "trace not consumed", TLCGet("stats").diameter, Len(Rec)>>)
=============================================================================
