SPECIFICATION Spec
INVARIANTS StepOK StateOK
POSTCONDITION Accepted
CHECK_DEADLOCK FALSE
