------------------------------ MODULE KeysInd ------------------------------
(***************************************************************************)
(* Keys.tla without its history variable, typed for Apalache: the access    *)
(* invariant is inductive, i.e. holds for any number of key files,          *)
(* passwords and steps (Keys.tla is checked by TLC for <= 6 steps only).     *)
(*   apalache-mc check --init=IndInit --inv=IndInv --length=1 KeysInd.tla    *)
(*   apalache-mc check --init=Init --inv=IndInv --length=0 KeysInd.tla       *)
(***************************************************************************)
EXTENDS Integers, FiniteSets

CONSTANTS
  \* @type: Set(Str);
  Pw,
  \* @type: Set(Str);
  Wrong

VARIABLES
  \* @type: Set({id: Int, pw: Str});
  keys,
  \* @type: Int;
  next,
  \* @type: Int;
  sess

NoSess == 0
MasterSess == -1
Ids == {k.id : k \in keys}
Matching(p) == {k.id : k \in {x \in keys : x.pw = p}}

ConstInit == Pw = {"pa", "pb", "pc"} /\ Wrong = {"wx", "wy"}

Init == \E p \in Pw : keys = {[id |-> 1, pw |-> p]} /\ next = 2 /\ sess = 1

Open(p) ==
  IF Matching(p) # {}
  THEN \E k \in Matching(p) : sess' = k /\ UNCHANGED <<keys, next>>
  ELSE UNCHANGED <<keys, next, sess>>
OpenMaster(good) == sess' = (IF good THEN MasterSess ELSE sess) /\ UNCHANGED <<keys, next>>
AddKey(p) == /\ sess # NoSess
             /\ keys' = keys \cup {[id |-> next, pw |-> p]} /\ next' = next + 1 /\ UNCHANGED sess
RemoveKey(k) == /\ sess # NoSess /\ k \in Ids
                /\ IF sess = k THEN UNCHANGED <<keys, next, sess>>
                   ELSE keys' = {x \in keys : x.id # k} /\ UNCHANGED <<next, sess>>
Close == sess # NoSess /\ sess' = NoSess /\ UNCHANGED <<keys, next>>

Next == \/ \E p \in Pw \cup Wrong : Open(p)
        \/ \E g \in BOOLEAN : OpenMaster(g)
        \/ \E p \in Pw : AddKey(p)
        \/ \E k \in Ids : RemoveKey(k)
        \/ Close

Access == sess \in {NoSess, MasterSess} \/ sess \in Ids
\* no wrong password is ever the password of a key file: a wrong password never opens
NoWrongKey == \A k \in keys : k.pw \in Pw
Fresh == next >= 2 /\ \A k \in keys : k.id >= 1 /\ k.id < next
IndInv == Access /\ NoWrongKey /\ Fresh

\* an arbitrary state satisfying the invariant (bounded shape for the solver: at most 4 key files with ids below 8)
IndInit ==
  /\ keys \in SUBSET [id : 1 .. 7, pw : Pw \cup Wrong]
  /\ next \in 2 .. 8
  /\ sess \in -1 .. 7
  /\ IndInv
=============================================================================
