----------------------------- MODULE HotColdInd -----------------------------
(***************************************************************************)
(* HotCold.tla typed for Apalache, with the pending half-operation as a     *)
(* record: HotComplete together with what the pending half-operation        *)
(* promises is an inductive invariant - for any number of files and          *)
(* operations (TLC checks HotCold.tla for 3 files and 4 operations).         *)
(*   WriteHotFirst / RemoveColdFirst = FALSE give the unsafe orders: the     *)
(*   induction step must then fail (negative control).                       *)
(***************************************************************************)
EXTENDS Integers, FiniteSets

CONSTANTS
  \* @type: Set(Str);
  Key,
  \* @type: Str -> Bool;
  InHot,
  \* @type: Bool;
  WriteHotFirst,
  \* @type: Bool;
  RemoveColdFirst

VARIABLES
  \* @type: Set(Str);
  cold,
  \* @type: Set(Str);
  hot,
  \* @type: {op: Str, k: Str};
  pend

\* file names are content hashes: presence is all there is (HotCold.tla: Value is a singleton)
ConstInit ==
  /\ Key = {"i1", "i2", "t1", "t2", "d1", "d2", "s1"}
  /\ InHot = [k \in Key |-> k \notin {"d1", "d2"}]
  /\ WriteHotFirst \in BOOLEAN /\ RemoveColdFirst \in BOOLEAN

None == [op |-> "none", k |-> ""]
Init == cold = {} /\ hot = {} /\ pend = None

BeginWrite(k) ==
  /\ pend.op = "none"
  /\ IF ~InHot[k] THEN cold' = cold \cup {k} /\ hot' = hot /\ pend' = None
     ELSE IF WriteHotFirst
          THEN hot' = hot \cup {k} /\ cold' = cold /\ pend' = [op |-> "wcold", k |-> k]
          ELSE cold' = cold \cup {k} /\ hot' = hot /\ pend' = [op |-> "whot", k |-> k]
BeginRemove(k) ==
  /\ pend.op = "none" /\ k \in cold
  /\ IF ~InHot[k] THEN cold' = cold \ {k} /\ hot' = hot /\ pend' = None
     ELSE IF RemoveColdFirst
          THEN cold' = cold \ {k} /\ hot' = hot /\ pend' = [op |-> "rhot", k |-> k]
          ELSE hot' = hot \ {k} /\ cold' = cold /\ pend' = [op |-> "rcold", k |-> k]
Finish ==
  /\ pend.op # "none" /\ pend' = None
  /\ CASE pend.op = "wcold" -> cold' = cold \cup {pend.k} /\ hot' = hot
       [] pend.op = "whot"  -> hot' = hot \cup {pend.k} /\ cold' = cold
       [] pend.op = "rhot"  -> hot' = hot \ {pend.k} /\ cold' = cold
       [] OTHER             -> cold' = cold \ {pend.k} /\ hot' = hot
Interrupt == pend.op # "none" /\ pend' = None /\ UNCHANGED <<cold, hot>>
Next == (\E k \in Key : BeginWrite(k) \/ BeginRemove(k)) \/ Finish \/ Interrupt

HotComplete == \A k \in cold : InHot[k] => k \in hot
NoDataInHot == \A k \in hot : InHot[k]
PendOK == /\ pend.op \in {"none", "wcold", "whot", "rhot", "rcold"}
          /\ pend.op # "none" => pend.k \in Key /\ InHot[pend.k]
          /\ pend.op = "wcold" => pend.k \in hot
          /\ pend.op = "rhot" => pend.k \notin cold
IndInv == HotComplete /\ NoDataInHot /\ PendOK /\ cold \subseteq Key /\ hot \subseteq Key

IndInit ==
  /\ cold \in SUBSET Key /\ hot \in SUBSET Key
  /\ pend \in [op : {"none", "wcold", "whot", "rhot", "rcold"}, k : Key \cup {""}]
  /\ IndInv
=============================================================================
