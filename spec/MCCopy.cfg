SPECIFICATION Spec
CONSTANTS
  N = 3
  MaxDat = 1
  Walk = "source"
  IndexerTyped = TRUE
INVARIANTS Complete NoRewrite BlobsFirst
CHECK_DEADLOCK FALSE
