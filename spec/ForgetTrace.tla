--------------------------- MODULE ForgetTrace ---------------------------
(***************************************************************************)
(* Trace validation for C09: every record is one real call of             *)
(* KeepOptions::apply (or of the grouped variant) with its complete input *)
(* and output.  TLC steps through the log and evaluates Forget!Keep on    *)
(* the logged input; a record whose real output is not the value of the   *)
(* specification is printed as NONCONF.                                    *)
(***************************************************************************)
EXTENDS Forget, Json, IOUtils, TLC

Rec == ndJsonDeserialize(IOEnv.TRACE)

VARIABLE l
vars == <<l>>

Init == l = 1
Next == l < Len(Rec) /\ l' = l + 1
Spec == Init /\ [][Next]_vars

Has(r, f) == f \in DOMAIN r

\* problems of one real output `out` for input snaps/opts/now
Problems(snaps, o, now, out) ==
  LET n == Len(snaps) IN
  IF Len(out) # n \/ {out[i].ix : i \in 1..Len(out)} # 1..n
  THEN {<<"not a permutation of the input">>}
  ELSE LET S == [i \in 1..n |-> snaps[out[i].ix]] IN
       IF ~Sorted(S) THEN {<<"not sorted newest first">>}
       ELSE {<<"keep", i, out[i].ix, Keep(S, o, now, i)>> :
                i \in {j \in 1..n : out[j].keep # Keep(S, o, now, j)}}

KeptIx(out) == {out[i].ix : i \in {j \in 1..Len(out) : out[j].keep}}
SameOrder(a, b) == Len(a) = Len(b) /\ \A i \in 1..Len(a) : a[i].ix = b[i].ix

CaseVerdict(r) ==
  IF r.err THEN {<<"apply returned an error on valid options">>}
  ELSE Problems(r.snaps, r.opts, r.now, r.out)
       \cup (IF Has(r, "out2")
             THEN Problems(r.snaps, r.opts2, r.now, r.out2)
                  \cup (IF SameOrder(r.out, r.out2) /\ ~(KeptIx(r.out) \subseteq KeptIx(r.out2))
                        THEN {<<"raising a counter removed", KeptIx(r.out) \ KeptIx(r.out2)>>}
                        ELSE {})
             ELSE {})

\* grouped call: every group's items must be exactly the snapshots equal on
\* the selected criteria, and Keep is applied inside each group
GroupVerdict(r) ==
  LET n == Len(r.snaps)
      key(i) == r.snaps[i].gkey
      covered == UNION {{g.out[j].ix : j \in 1..Len(g.out)} : g \in Range(r.groups)}
  IN  (IF covered # 1..n THEN {<<"groups do not cover the input">>} ELSE {})
      \cup UNION { LET g == r.groups[q]
                       members == {g.out[j].ix : j \in 1..Len(g.out)}
                       sub == [j \in 1..Len(g.out) |-> r.snaps[g.out[j].ix]]
                       outl == [j \in 1..Len(g.out) |-> [ix |-> j, keep |-> g.out[j].keep]]
                   IN (IF \E a \in members : members # {b \in 1..n : key(b) = key(a)}
                       THEN {<<"group is not an equivalence class", q>>} ELSE {})
                      \cup {<<"group", q, p>> : p \in Problems(sub, r.opts, r.now, outl)}
                 : q \in 1..Len(r.groups) }

CalVerdict(r) ==
  LET z == DaysFromCivil(r.y, r.mo, r.d) IN
  IF /\ z = r.days
     /\ CivilFromDays(r.days) = <<r.y, r.mo, r.d>>
     /\ Weekday(z) = r.wd
     /\ IsoYear(z) = r.iy /\ IsoWeek(z) = r.iw
     /\ DayOfYear(r.y, r.mo, r.d) = r.doy
     /\ DaysInMonth(r.y, r.mo) = r.dim
  THEN {} ELSE {<<"Calendar.tla disagrees with the external calendar">>}

Verdict(r) ==
  CASE r.kind = "case"  -> CaseVerdict(r)
    [] r.kind = "group" -> GroupVerdict(r)
    [] r.kind = "cal"   -> {}
    [] OTHER            -> {<<"unknown record kind">>}

Conforms ==
  LET r == Rec[l] IN
  /\ Verdict(r) = {} \/ PrintT(<<"NONCONF", l, r.id, Verdict(r)>>)
  /\ r.kind # "cal" \/ CalVerdict(r) = {} \/ PrintT(<<"TOOLERR", l, r.id, CalVerdict(r)>>)

AllConsumed == TLCGet("stats").diameter = Len(Rec)
                 \/ PrintT(<<"TOOLERR", "trace not consumed", TLCGet("stats").diameter, Len(Rec)>>)
=============================================================================
