SPECIFICATION Spec
CONSTANTS
  CheckIndex = TRUE
  CheckType = TRUE
  NParents = 1
INVARIANTS Emit
CHECK_DEADLOCK FALSE
