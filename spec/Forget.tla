------------------------------ MODULE Forget ------------------------------
(***************************************************************************)
(* Retention ("forget") rules of rustic_core as a function on a list of   *)
(* snapshots.  Written from the documented rules (property C09); the      *)
(* points the statement leaves open are resolved the way the code does    *)
(* and are named below (see Cand / Elig).                                  *)
(*                                                                         *)
(* A time is a record [y, mo, d, h, mi, s, off] : civil fields in the     *)
(* snapshot's own UTC offset `off` (seconds).                              *)
(* A snapshot is [time, idp, tags, tree, del, dt] with idp the first hex  *)
(* digits of its id (as a sequence of 0..15), tags a sequence of strings, *)
(* del \in {"none","never","after"} and dt the delete-after time.         *)
(* Options: [count : rule -> Int (Unset = -2, -1 = unlimited),            *)
(*           within : rule -> [set, y, mo, w, d, h, mi, s],               *)
(*           keep_ids : Seq(Seq(0..15)), keep_tags : Seq(Seq(STRING)),     *)
(*           delete_unchanged : BOOLEAN]                                   *)
(***************************************************************************)
EXTENDS Integers, Sequences, FiniteSets, Calendar

Rules == {"last", "minutely", "hourly", "daily", "weekly", "monthly",
          "quarter", "half", "yearly"}
Unset == -2

Range(f) == {f[x] : x \in DOMAIN f}

Day(t)  == DaysFromCivil(t.y, t.mo, t.d)

\* UTC instant as <<day, second of day>> (pairs keep everything in 32 bits)
Norm(day, secs) == <<day + (secs \div 86400), (secs % 86400)>>
Inst(t) == Norm(Day(t), t.h * 3600 + t.mi * 60 + t.s - t.off)
Lt(a, b) == a[1] < b[1] \/ (a[1] = b[1] /\ a[2] < b[2])
Le(a, b) == ~Lt(b, a)

\* calendar addition: years/months with day clamping, then weeks/days on the
\* civil date, then the clock part as absolute time
AddSpan(t, sp) ==
  Norm(AddYMD(t.y, t.mo, t.d, sp.y, sp.mo, 7 * sp.w + sp.d),
       t.h * 3600 + t.mi * 60 + t.s - t.off + sp.h * 3600 + sp.mi * 60 + sp.s)

\* the period of rule k that contains civil time t
Period(k, t) ==
  CASE k = "minutely" -> <<Day(t), t.h, t.mi>>
    [] k = "hourly"   -> <<Day(t), t.h>>
    [] k = "daily"    -> <<Day(t)>>
    [] k = "weekly"   -> <<IsoYear(Day(t)), IsoWeek(Day(t))>>
    [] k = "monthly"  -> <<t.y, t.mo>>
    [] k = "quarter"  -> <<t.y, (t.mo - 1) \div 3>>
    [] k = "half"     -> <<t.y, (t.mo - 1) \div 6>>
    [] k = "yearly"   -> <<t.y>>
    [] OTHER          -> <<>>

SamePeriod(k, a, b) == k # "last" /\ Period(k, a) = Period(k, b)

IsPrefixOf(p, s) == Len(p) <= Len(s) /\ \A i \in 1..Len(p) : p[i] = s[i]

(***************************************************************************)
(* S is the list in the order the rules are evaluated: newest first (ties *)
(* in any order).                                                          *)
(***************************************************************************)
Sorted(S) == \A i \in 1..(Len(S) - 1) : Le(Inst(S[i + 1].time), Inst(S[i].time))

MustKeep(sn, now)   == sn.del = "never" \/ (sn.del = "after" /\ Le(Inst(now), Inst(sn.dt)))
MustDelete(sn, now) == sn.del = "after" /\ Lt(Inst(sn.dt), Inst(now))
Unchanged(S, o, i)  == o.delete_unchanged /\ i < Len(S) /\ S[i + 1].tree = S[i].tree

\* snapshots the counted rules apply to
Elig(S, o, now, i) == ~MustKeep(S[i], now) /\ ~MustDelete(S[i], now) /\ ~Unchanged(S, o, i)

\* newest of its period (relative to the next newer snapshot, whatever its
\* eligibility), or the newest / the oldest snapshot of the list
Cand(S, k, i) == i = 1 \/ i = Len(S) \/ ~SamePeriod(k, S[i].time, S[i - 1].time)

Hit(S, o, now, k, i) == Cand(S, k, i) /\ Elig(S, o, now, i)

ByCount(S, o, now, k, i) ==
  LET n == o.count[k] IN
  /\ Hit(S, o, now, k, i)
  /\ n # Unset /\ n # 0
  /\ (n < 0 \/ Cardinality({j \in 1..(i - 1) : Hit(S, o, now, k, j)}) < n)

ByWithin(S, o, now, k, i) ==
  /\ Hit(S, o, now, k, i)
  /\ o.within[k].set
  /\ Lt(Inst(S[1].time), AddSpan(S[i].time, o.within[k]))

IdMatch(S, o, i)  == \E q \in 1..Len(o.keep_ids) : IsPrefixOf(o.keep_ids[q], S[i].idp)
TagMatch(S, o, i) == \E q \in 1..Len(o.keep_tags) : Range(o.keep_tags[q]) \subseteq Range(S[i].tags)

Keep(S, o, now, i) ==
  \/ MustKeep(S[i], now)
  \/ /\ Elig(S, o, now, i)
     /\ \/ IdMatch(S, o, i)
        \/ TagMatch(S, o, i)
        \/ \E k \in Rules : ByCount(S, o, now, k, i) \/ ByWithin(S, o, now, k, i)

Kept(S, o, now) == {i \in 1..Len(S) : Keep(S, o, now, i)}

(***************************************************************************)
(* Declarative reading of a counted period rule for lists in which every  *)
(* snapshot is eligible: the kept ones are the newest snapshot of each of *)
(* the newest n distinct periods, plus the oldest snapshot while the      *)
(* counter remains.  MCForget checks that the operational definition      *)
(* above coincides with it.                                                *)
(***************************************************************************)
NewestOfPeriod(S, k, i) == \A j \in 1..Len(S) : SamePeriod(k, S[i].time, S[j].time) => i <= j
PeriodsNewerThan(S, k, i) ==
  Cardinality({Period(k, S[j].time) : j \in {j2 \in 1..Len(S) : j2 < i /\ ~SamePeriod(k, S[j2].time, S[i].time)}})
DeclByCount(S, k, n, i) ==
  /\ n # Unset /\ n # 0
  /\ \/ NewestOfPeriod(S, k, i) /\ (n < 0 \/ PeriodsNewerThan(S, k, i) < n)
     \/ /\ i = Len(S) /\ ~NewestOfPeriod(S, k, i)
        /\ (n < 0 \/ PeriodsNewerThan(S, k, i) + 1 < n)

\* order on counter values: unset/0 < 1 < 2 < ... < unlimited
CountLe(a, b) ==
  LET v(x) == IF x = Unset THEN 0 ELSE x IN
  IF v(b) < 0 THEN TRUE ELSE IF v(a) < 0 THEN FALSE ELSE v(a) <= v(b)
=============================================================================
