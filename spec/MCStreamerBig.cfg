SPECIFICATION Spec
CONSTANTS
  N = 5
  Roots <- RootsB
  W = 3
  InCap = 0
  OutCap = 2
  Shapes <- AllShapes
INVARIANTS AtMostOnce DoneRight Counted
PROPERTIES Terminates
CHECK_DEADLOCK TRUE
