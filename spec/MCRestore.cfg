SPECIFICATION Spec
CONSTANT ReplaceMismatch = TRUE
INVARIANT ExactOK
CHECK_DEADLOCK FALSE
