------------------------------- MODULE Restore -------------------------------
(***************************************************************************)
(* C14: restore into a destination that already contains entries.          *)
(* A directory state is a function path -> attributes [t, size, sha,       *)
(* target, mode, mtime]; snap is the snapshot, pre/post the destination    *)
(* before/after, opts = [delete, verify, sparse, no_ownership].            *)
(*                                                                         *)
(* MustMatch(p): the entry at snapshot path p has to end up exactly as in  *)
(* the snapshot unless it is a regular file that already exists with the   *)
(* snapshot's size and mtime and verification is off (then it is trusted). *)
(***************************************************************************)
EXTENDS Integers, Sequences, FiniteSets

Trusted(snap, pre, opts, p) ==
  /\ ~opts.verify
  /\ p \in DOMAIN pre /\ snap[p].t = "file" /\ pre[p].t = "file"
  /\ pre[p].size = snap[p].size /\ pre[p].mtime = snap[p].mtime

\* content attributes of an entry (mode/mtime of symlinks are not compared: lchmod does not exist)
Same(a, b) == /\ a.t = b.t /\ a.size = b.size /\ a.sha = b.sha /\ a.target = b.target /\ a.hl = b.hl
              /\ (a.t = "symlink" \/ (a.mode = b.mode /\ a.mtime = b.mtime))

Exact(snap, pre, post, opts) ==
  {p \in DOMAIN snap : ~Trusted(snap, pre, opts, p) /\ ~(p \in DOMAIN post /\ Same(post[p], snap[p]))}

\* a path is "under a snapshot path of another type" if some proper prefix is a snapshot non-directory
\* (entries below a directory that the snapshot replaces by a file go away with it)
IsPrefix(a, b) == Len(a) < Len(b) /\ SubSeq(b, 1, Len(a)) = a

ExtrasChanged(snap, pre, post, opts, under) ==
  IF opts.delete THEN {}
  ELSE {p \in DOMAIN pre \ DOMAIN snap : ~under[p] /\ ~(p \in DOMAIN post /\ post[p] = pre[p])}

ExtrasLeft(snap, post, opts) == IF opts.delete THEN DOMAIN post \ DOMAIN snap ELSE {}
=============================================================================
