SPECIFICATION Spec
CONSTANT ReplaceMismatch = FALSE
INVARIANT ExactOK
CHECK_DEADLOCK FALSE
