------------------------------- MODULE Parent -------------------------------
(***************************************************************************)
(* C11: the per-entry decision of a parent-based backup                    *)
(* (archiver/parent.rs Parent::is_parent / process, tree_archiver.rs).     *)
(* One path of the source, its node in up to two parent snapshots, the      *)
(* options, and whether the parent node's blobs are all in the index.       *)
(* Every combination is an initial state; there are no transitions.         *)
(*                                                                          *)
(*   Match(p)  - the parent has a node of that name and type, with equal    *)
(*               size and mtime, equal ctime unless ignored (or unknown),   *)
(*               and - option CompareInode - equal inode (or unknown)       *)
(*   Reuse     - the FIRST matching parent is taken; its content is reused  *)
(*               iff all its blobs are indexed, otherwise the file is read  *)
(*   Premise   - the path changed w.r.t. a parent only together with its     *)
(*               size, mtime or (unless ignored) ctime                      *)
(*   Equal     - Premise => the content recorded equals the content read    *)
(*   Present   - the content recorded is available (indexed or just written)*)
(*   Shortcut  - a directory whose new tree id equals the parent's is not   *)
(*               written again only if that tree is indexed                 *)
(* CheckIndex = FALSE / CheckType = FALSE are the decision without the       *)
(* respective test: Present resp. Equal must fail (negative controls).       *)
(***************************************************************************)
EXTENDS Integers, FiniteSets, TLC

CONSTANTS CheckIndex, CheckType, NParents

Kinds == {"absent", "file", "dir", "link"}
Rel == [kind : Kinds,          \* what the parent has under this name
        size : BOOLEAN,        \* same size as now
        mtime : BOOLEAN, ctime : BOOLEAN, inode : BOOLEAN,
        content : BOOLEAN,     \* same content (file) / same link target (link) / same subtree (dir) as now
        indexed : BOOLEAN]     \* all blobs of the parent node are in the index

VARIABLES cur,        \* kind of the entry now: "file" | "dir" | "link"
          par,        \* [1 .. NParents -> Rel]
          ignoreCtime, compareInode
vars == <<cur, par, ignoreCtime, compareInode>>

\* only relations that can exist
Sane(r) ==
  /\ r.kind = "absent" => r = [kind |-> "absent", size |-> FALSE, mtime |-> FALSE, ctime |-> FALSE, inode |-> FALSE, content |-> FALSE, indexed |-> FALSE]
  /\ r.content /\ r.kind = "file" => r.size              \* same content has the same size
  /\ r.kind \in {"dir", "link"} => r.indexed              \* nothing of them lives in data packs
  /\ r.kind = "link" /\ cur = "link" /\ ~r.content => TRUE

Init == /\ cur \in {"file", "dir", "link"}
        /\ par \in [1 .. NParents -> Rel] /\ \A i \in 1 .. NParents : Sane(par[i])
        /\ ignoreCtime \in BOOLEAN /\ compareInode \in BOOLEAN
Next == UNCHANGED vars
Spec == Init /\ [][Next]_vars

\* the link target is part of the node type (NodeType::Symlink { linktarget }): a changed target is a changed type
SameType(r) == IF CheckType THEN r.kind = cur /\ (cur = "link" => r.content) ELSE r.kind # "absent"
Match(r) == /\ r.kind # "absent" /\ SameType(r) /\ r.size /\ r.mtime
            /\ (ignoreCtime \/ r.ctime) /\ (~compareInode \/ r.inode)
Matching == {i \in 1 .. NParents : Match(par[i])}
First == CHOOSE i \in Matching : \A j \in Matching : i <= j
Found == \E i \in 1 .. NParents : par[i].kind # "absent"

\* for a file: is the content taken from the parent?
Reuse == cur = "file" /\ Matching # {} /\ (~CheckIndex \/ par[First].indexed)
Class == IF Reuse THEN "matched"
         ELSE IF Matching # {} THEN "notfound"          \* matched but blobs missing: counted as new, read again
         ELSE IF Found THEN "notmatched" ELSE "notfound"
Opened == cur = "file" /\ ~Reuse

\* "each file that changed since the parent also changed its size, mtime or (unless ignored) ctime"
Premise == \A i \in 1 .. NParents :
             (par[i].kind = "file" /\ cur = "file" /\ ~par[i].content) => ~(par[i].size /\ par[i].mtime /\ (ignoreCtime \/ par[i].ctime))

ContentRecorded == IF Reuse THEN (IF par[First].kind = "file" /\ par[First].content THEN "current" ELSE "other") ELSE "current"
Equal == cur = "file" /\ Premise => ContentRecorded = "current"
Present == Reuse => par[First].indexed
ReadIfMissing == cur = "file" /\ Matching # {} /\ ~par[First].indexed => Opened
\* generator: one line per case (replayed on the real archiver by the harness driver `parent`)
T(r) == <<r.kind, r.size, r.mtime, r.ctime, r.inode, r.content, r.indexed>>
Emit == PrintT(<<"REPLAY", cur, [i \in 1 .. NParents |-> T(par[i])], ignoreCtime, compareInode, Class, Opened>>)
=============================================================================
