----------------------------- MODULE CacheTrace -----------------------------
(***************************************************************************)
(* C19 trace validation.                                                   *)
(*  cachelist : after a command through the cached handle - what the cache *)
(*              directory holds for a file type and what the repository    *)
(*              holds, and whether the command listed that type through    *)
(*              its handle: AfterList = after a listing every cached       *)
(*              snapshot / index file is in the repository, same size;     *)
(*  twin      : per-step results of the history with the cache in use and  *)
(*              of the same history without any cache: SameResults.        *)
(***************************************************************************)
EXTENDS Integers, Sequences, FiniteSets, TLC, Json, IOUtils

Rec == ndJsonDeserialize(IOEnv.TRACE)
VARIABLE l
Init == l = 1
Next == l < Len(Rec) /\ l' = l + 1
Spec == Init /\ [][Next]_l

Pairs(s) == {<<s[i].k, s[i].len>> : i \in DOMAIN s}

Verdict(r) ==
  CASE r.e = "cachelist" ->
         IF r.res = "ok" /\ r.listed /\ ~(Pairs(r.cache) \subseteq Pairs(r.repo))
         THEN {<<"AfterList", r.tpe, r.cmd, Pairs(r.cache) \ Pairs(r.repo)>>} ELSE {}
    [] r.e = "twin" ->
         {<<"SameResults", i, r.cached[i], r.plain[i]>> :
             i \in {j \in DOMAIN r.cached : j \in DOMAIN r.plain /\ r.cached[j] # r.plain[j]}}
         \cup (IF Len(r.cached) # Len(r.plain) THEN {<<"SameResults", "length">>} ELSE {})
    [] OTHER -> {}

Conforms == Verdict(Rec[l]) = {} \/ PrintT(<<"NONCONF", l, Rec[l].sc, Verdict(Rec[l])>>)
AllConsumed == TLCGet("stats").diameter = Len(Rec)
                 \/ PrintT(<<"TOOLERR", "trace not consumed", TLCGet("stats").diameter, Len(Rec)>>)
=============================================================================
