SPECIFICATION Spec
CONSTANTS
  Pack = {p1, p2}
  Blob = {b1, b2}
  Sizes = {1, 2, 3}
  IdxId = {i1, i2}
  NewId = inew
  ReadAll = FALSE
  DryRun = FALSE
  Dup = "unmarked-wins"
  Order = "new-first"
  MaxEntries = 3
INVARIANTS NothingLost StoreUntouched DryRunInert Rebuilt Complete
CHECK_DEADLOCK FALSE
