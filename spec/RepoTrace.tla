----------------------------- MODULE RepoTrace -----------------------------
(***************************************************************************)
(* Trace validation of real storage-operation logs against the abstract   *)
(* repository (Layer A).  One event per mutating storage operation, in    *)
(* the linearisation order of the store lock; because the log is prefix   *)
(* closed, "formula holds after every event" is "formula holds at every   *)
(* crash point of this linearisation".                                     *)
(*                                                                         *)
(* The step-local obligations (append-only, dry-run, keep-delete, pack    *)
(* self-description, pack/index agreement, error reporting, agreement of  *)
(* the real read path with Readable) are collected in `viol`; the state   *)
(* formulas are evaluated by the invariant StateOK.  Both print instead   *)
(* of stopping, so one run reports every nonconformance of the log.       *)
(***************************************************************************)
EXTENDS Integers, Sequences, FiniteSets, TLC, Json, IOUtils

Rec == ndJsonDeserialize(IOEnv.TRACE)

VARIABLES l,        \* number of events consumed
          sc,       \* current scenario id
          packs, idx, snaps,
          marks,    \* [pack -> logical time of its oldest current deletion mark]
          cmds,     \* [proc -> running command record]
          ao,       \* repository is append-only
          now,      \* logical time (seconds)
          excused,  \* an instant-delete + early-delete-index prune has run in this scenario
          base,     \* snapshots that were already unreadable when the running command began (damage scenarios)
          dbase,    \* dangling index entries that predate the running command (damage scenarios)
          loading,  \* the state of a forked scenario is being re-emitted (no formula applies yet)
          grace,    \* snapshots written through a handle whose index predates a prune: only Recoverable until the next prune (C10)
          must,     \* snapshots that were readable when the scenario said `remember` (C08: must be readable again after repair-index)
          lastEnd,  \* <<command, result>> of the command that ended last, <<>> once anything else happened
          viol      \* nonconformances of the last step
vars == <<l, sc, packs, idx, snaps, marks, cmds, ao, now, excused, base, dbase, loading, grace, must, lastEnd, viol>>

P == INSTANCE RepoProps

Range(f) == {f[x] : x \in DOMAIN f}
Drop(f, k) == [x \in DOMAIN f \ {k} |-> f[x]]
Put(f, k, v) == [x \in DOMAIN f \cup {k} |-> IF x = k THEN v ELSE f[x]]
Empty == [x \in {} |-> {}]
SkewTolerance == 2   \* seconds: logical times are floor()s of real clock readings

Init == /\ l = 0 /\ sc = "" /\ packs = Empty /\ idx = Empty /\ snaps = Empty
        /\ marks = Empty /\ cmds = Empty /\ ao = FALSE /\ now = 0 /\ excused = FALSE /\ base = {} /\ dbase = {} /\ loading = FALSE /\ grace = {} /\ must = {} /\ lastEnd = <<>> /\ viol = {}

Ev == Rec[l + 1]
Consume == l < Len(Rec) /\ l' = l + 1

Reset ==
  /\ Ev.e = "reset"
  /\ sc' = Ev.id
  /\ packs' = Empty /\ idx' = Empty /\ snaps' = Empty /\ marks' = Empty /\ cmds' = Empty
  /\ ao' = (IF "append_only" \in DOMAIN Ev.cfg THEN Ev.cfg.append_only ELSE FALSE)
  /\ now' = 0 /\ excused' = FALSE /\ base' = {} /\ dbase' = {} /\ loading' = ("fork_of" \in DOMAIN Ev) /\ grace' = {} /\ must' = {} /\ viol' = {}

Begin ==
  /\ Ev.e = "begin"
  /\ cmds' = Put([q \in DOMAIN cmds |-> [cmds[q] EXCEPT !.solo = FALSE]], Ev.proc,
        [cmd |-> Ev.cmd, now |-> Ev.now, nfail |-> 0, nmut |-> 0, solo |-> (DOMAIN cmds = {}),
         dry |-> IF "dry" \in DOMAIN Ev THEN Ev.dry ELSE FALSE,
         instant |-> IF "instant" \in DOMAIN Ev THEN Ev.instant ELSE FALSE,
         early |-> IF "early" \in DOMAIN Ev THEN Ev.early ELSE FALSE,
         kd |-> IF "kd" \in DOMAIN Ev THEN Ev.kd ELSE 0,
         stale |-> IF "stale" \in DOMAIN Ev THEN Ev.stale ELSE FALSE,
         gsnap |-> grace])      \* overlap snapshots already written when this command began
  /\ now' = Ev.now
  /\ excused' = (excused \/ (("instant" \in DOMAIN Ev /\ Ev.instant) /\ ("early" \in DOMAIN Ev /\ Ev.early)))
  /\ viol' = {}
  /\ base' = P!Unreadable /\ dbase' = P!Dangling
  /\ UNCHANGED <<sc, packs, idx, snaps, marks, ao, loading, grace, must>>

Known(p) == p \in DOMAIN cmds
Bump(p, f) == IF Known(p) THEN [cmds EXCEPT ![p][f] = @ + 1] ELSE cmds

\* common step-local obligations of any successful mutating operation
MutViol(p, what) ==
  (IF Known(p) /\ cmds[p].dry THEN {<<"DryRun", what>>} ELSE {})
  \cup (IF Known(p) /\ cmds[p].nfail > 0 /\ FALSE THEN {} ELSE {})

End ==
  /\ Ev.e = "end"
  /\ viol' = (IF Known(Ev.proc) /\ Ev.res = "ok" /\ cmds[Ev.proc].nfail > 0
                THEN {<<"FailReported", cmds[Ev.proc].cmd>>} ELSE {})
             \cup (IF Ev.res = "panic" THEN {<<"Panic", Ev.msg>>} ELSE {})
             \cup (IF Known(Ev.proc) /\ "ao_refused" \in DOMAIN Ev /\ Ev.ao_refused /\ cmds[Ev.proc].nmut > 0
                   THEN {<<"RefusedEarly", cmds[Ev.proc].cmd, cmds[Ev.proc].nmut>>} ELSE {})
             \* a prune running alone on an undamaged repository whose snapshots all find their blobs in stored packs
             \* (listed normally or marked for deletion) has no reason to fail - it is the run that brings marked blobs back
             \cup (IF /\ Known(Ev.proc) /\ cmds[Ev.proc].cmd = "prune" /\ Ev.res = "err" /\ cmds[Ev.proc].solo
                      /\ cmds[Ev.proc].nfail = 0 /\ ~cmds[Ev.proc].dry /\ ~ao /\ ~excused /\ ~loading
                      /\ ~("ao_refused" \in DOMAIN Ev /\ Ev.ao_refused)
                      /\ P!Unrecoverable = {} /\ P!Dangling = {}
                   THEN {<<"PruneFails", Ev.msg>>} ELSE {})
  /\ cmds' = IF Known(Ev.proc) THEN Drop(cmds, Ev.proc) ELSE cmds
  /\ lastEnd' = IF Known(Ev.proc) THEN <<cmds[Ev.proc].cmd, Ev.res>> ELSE <<>>
  \* a completed prune brings back what the snapshots present at its beginning need
  /\ grace' = IF Known(Ev.proc) /\ cmds[Ev.proc].cmd = "prune" /\ Ev.res = "ok" THEN grace \ cmds[Ev.proc].gsnap ELSE grace
  /\ UNCHANGED <<sc, packs, idx, snaps, marks, ao, now, excused, base, dbase, loading, must>>

BlobSet(seq) == Range(seq)

WPack ==
  /\ Ev.e = "wpack"
  /\ packs' = Put(packs, Ev.p, BlobSet(Ev.blobs))
  /\ viol' = MutViol(Ev.proc, "pack")
             \cup (IF ~Ev.sd THEN {<<"PackSelfDescribing", Ev.p>>} ELSE {})
             \cup (IF Ev.ow THEN {<<"Overwrite", "pack", Ev.p>>} ELSE {})
  /\ cmds' = Bump(Ev.proc, "nmut")
  /\ UNCHANGED <<sc, idx, snaps, marks, ao, now, excused, base, dbase, loading, grace, must>>

EntryOf(x) == [p |-> x.p, blobs |-> BlobSet(x.blobs), mark |-> x.mark, t |-> x.t]

WIdx ==
  /\ Ev.e = "widx"
  /\ LET ents == {EntryOf(Ev.ents[k]) : k \in DOMAIN Ev.ents}
         marked == {e.p : e \in {x \in ents : x.mark}}
         unmarked == {e.p : e \in {x \in ents : ~x.mark}}
         tOf(p) == CHOOSE t \in {e.t : e \in {x \in ents : x.mark /\ x.p = p}} :
                       \A e \in {x \in ents : x.mark /\ x.p = p} : t <= e.t
     IN /\ idx' = Put(idx, Ev.i, ents)
        \* a pack listed unmarked again loses its mark (recovered); a pack newly listed as
        \* marked gets the mark time unless an older mark is known
        \* (keep-delete runs from the moment prune marks the pack - the clock of the trace when the mark first
        \* appears - not from whatever time the entry carries; entries written by other commands keep their stored time)
        /\ marks' = [p \in (DOMAIN marks \cup marked) \ unmarked |->
                        IF p \in DOMAIN marks THEN marks[p]
                        ELSE IF Known(Ev.proc) /\ cmds[Ev.proc].cmd = "prune" THEN cmds[Ev.proc].now ELSE tOf(p)]
        /\ viol' = MutViol(Ev.proc, "index")
             \cup {<<"PackIndexAgree", Ev.ents[k].p>> : k \in {j \in DOMAIN Ev.ents : Ev.ents[j].agree = "no"}}
             \cup (IF ~Ev.decoded THEN {<<"IndexUndecodable", Ev.i>>} ELSE {})
             \cup (IF Ev.ow THEN {<<"Overwrite", "index", Ev.i>>} ELSE {})
  /\ cmds' = Bump(Ev.proc, "nmut")
  /\ UNCHANGED <<sc, packs, snaps, ao, now, excused, base, dbase, loading, grace, must>>

WSnap ==
  /\ Ev.e = "wsnap"
  /\ snaps' = Put(snaps, Ev.s, BlobSet(Ev.needs))
  /\ viol' = MutViol(Ev.proc, "snapshot")
             \cup (IF ~Ev.decoded THEN {<<"SnapshotUndecodable", Ev.s>>} ELSE {})
             \cup (IF Ev.ow THEN {<<"Overwrite", "snapshot", Ev.s>>} ELSE {})
  /\ cmds' = Bump(Ev.proc, "nmut")
  /\ grace' = IF Known(Ev.proc) /\ cmds[Ev.proc].stale THEN grace \cup {Ev.s} ELSE grace
  /\ UNCHANGED <<sc, packs, idx, marks, ao, now, excused, base, dbase, loading, must>>

WOther ==
  /\ Ev.e = "wother"
  /\ viol' = MutViol(Ev.proc, Ev.tpe)
  /\ ao' = ao   \* the append-only flag follows `cfg` events, not raw config writes
  /\ cmds' = Bump(Ev.proc, "nmut")
  /\ UNCHANGED <<sc, packs, idx, snaps, marks, now, excused, base, dbase, loading, grace, must>>

\* removal of pack p by a non-instant prune: p must carry a deletion mark older than keep-delete
KeepDeleteViol(pr, p) ==
  IF Known(pr) /\ cmds[pr].cmd = "prune" /\ ~cmds[pr].instant
  THEN IF p \notin DOMAIN marks THEN {<<"KeepDelete", p, "removed without a deletion mark">>}
       ELSE IF marks[p] + cmds[pr].kd > cmds[pr].now + SkewTolerance
            THEN {<<"KeepDelete", p, "removed before mark + keep-delete", marks[p], cmds[pr].kd, cmds[pr].now>>}
            ELSE {}
  ELSE {}

Rm ==
  /\ Ev.e = "rm"
  /\ packs' = IF Ev.tpe = "pack" /\ Ev.id \in DOMAIN packs THEN Drop(packs, Ev.id) ELSE packs
  /\ idx'   = IF Ev.tpe = "index" /\ Ev.id \in DOMAIN idx THEN Drop(idx, Ev.id) ELSE idx
  /\ snaps' = IF Ev.tpe = "snapshot" /\ Ev.id \in DOMAIN snaps THEN Drop(snaps, Ev.id) ELSE snaps
  /\ marks' = IF Ev.tpe = "pack" /\ Ev.id \in DOMAIN marks THEN Drop(marks, Ev.id) ELSE marks
  /\ viol' = MutViol(Ev.proc, Ev.tpe)
             \cup (IF ao /\ Ev.tpe \in {"pack", "index", "snapshot"} THEN {<<"AppendOnly", Ev.tpe, Ev.id>>} ELSE {})
             \cup (IF Ev.tpe = "pack" THEN KeepDeleteViol(Ev.proc, Ev.id) ELSE {})
  /\ cmds' = Bump(Ev.proc, "nmut")
  /\ UNCHANGED <<sc, ao, now, excused, base, dbase, loading, grace, must>>

\* a file removed behind the library's back (scenario construction, not a library step)
Damage ==
  /\ Ev.e = "damage"
  /\ packs' = IF Ev.tpe = "pack" /\ Ev.id \in DOMAIN packs THEN Drop(packs, Ev.id) ELSE packs
  /\ idx'   = IF Ev.tpe = "index" /\ Ev.id \in DOMAIN idx THEN Drop(idx, Ev.id) ELSE idx
  /\ snaps' = IF Ev.tpe = "snapshot" /\ Ev.id \in DOMAIN snaps THEN Drop(snaps, Ev.id) ELSE snaps
  /\ viol' = {}
  /\ base' = (P!Unreadable)' /\ dbase' = (P!Dangling)'
  /\ UNCHANGED <<sc, marks, cmds, ao, now, excused, loading, grace, must>>

Remember ==
  /\ Ev.e = "remember"
  /\ must' = DOMAIN snaps \ P!Unreadable
  /\ viol' = {}
  /\ UNCHANGED <<sc, packs, idx, snaps, marks, cmds, ao, now, excused, base, dbase, loading, grace>>

Baseline ==
  /\ Ev.e = "baseline"
  /\ loading' = FALSE
  /\ base' = P!Unreadable /\ dbase' = P!Dangling
  /\ viol' = {}
  /\ UNCHANGED <<sc, packs, idx, snaps, marks, cmds, ao, now, excused, grace, must>>

Note ==
  /\ Ev.e = "note"
  /\ viol' = {}
  /\ UNCHANGED <<sc, packs, idx, snaps, marks, cmds, ao, now, excused, base, dbase, loading, grace, must>>

Fail ==
  /\ Ev.e = "fail"
  /\ cmds' = Bump(Ev.proc, "nfail")
  /\ viol' = {}
  /\ UNCHANGED <<sc, packs, idx, snaps, marks, ao, now, excused, base, dbase, loading, grace, must>>

Tick ==
  /\ Ev.e = "tick"
  /\ now' = Ev.now
  /\ viol' = {}
  /\ UNCHANGED <<sc, packs, idx, snaps, marks, cmds, ao, excused, base, dbase, loading, grace, must>>

Cfg ==
  /\ Ev.e = "cfg"
  /\ ao' = Ev.append_only
  /\ viol' = {}
  /\ UNCHANGED <<sc, packs, idx, snaps, marks, cmds, now, excused, base, dbase, loading, grace, must>>

\* the real read path (check --read-data, ls + dump of every snapshot) run on this very state
Probe ==
  /\ Ev.e = "probe"
  /\ lastEnd' = lastEnd
  /\ viol' = {<<"RealReadFails", s, Ev.rest[s]>> :
                 s \in {x \in DOMAIN Ev.rest \cap DOMAIN snaps : P!Readable(x) /\ Ev.rest[x] \notin {"ok", "ok?"}}}
             \cup {<<"DriftReadableButAbstractSaysNo", s>> :
                 s \in {x \in DOMAIN Ev.rest \cap DOMAIN snaps : ~P!Readable(x) /\ Ev.rest[x] = "ok"}}
             \cup (IF Ev.check # "clean" /\ grace = {} THEN {<<"CheckNotClean", Ev.check>>} ELSE {})
  /\ UNCHANGED <<sc, packs, idx, snaps, marks, cmds, ao, now, excused, base, dbase, loading, grace, must>>

Next == Consume /\ (End \/ Probe \/ (lastEnd' = <<>> /\ (Reset \/ Begin \/ Note \/ Remember \/ Baseline \/ Damage \/ WPack \/ WIdx \/ WSnap \/ WOther \/ Rm \/ Fail \/ Tick \/ Cfg)))
Spec == Init /\ [][Next]_vars

Running == {cmds[p].cmd : p \in DOMAIN cmds}

StepOK == viol = {} \/ PrintT(<<"NONCONF", l, sc, "step", viol>>)

\* used blobs (of snapshots outside the grace set) that are available only in packs marked for deletion
NotBroughtBackNG == ((UNION {snaps[x] : x \in DOMAIN snaps \ grace}) \cap P!Parked) \ P!Indexed

StateOK == loading \/
  /\ (P!Unreadable \ base) \ grace = {} \/ PrintT(<<"NONCONF", l, sc, "state", {<<"Unreadable", (P!Unreadable \ base) \ grace, excused, Running>>}>>)
  /\ P!Unrecoverable = {} \/ PrintT(<<"NONCONF", l, sc, "state", {<<"Unrecoverable", P!Unrecoverable, excused, Running>>}>>)
  /\ P!Dangling \ dbase = {} \/ PrintT(<<"NONCONF", l, sc, "state", {<<"Dangling", {e.p : e \in P!Dangling \ dbase}, excused, Running>>}>>)
  /\ (lastEnd # <<"repair_index", "ok">> \/ must \cap P!Unreadable = {}) \/ PrintT(<<"NONCONF", l, sc, "state", {<<"Rebuild", must \cap P!Unreadable, excused, Running>>}>>)
  /\ (lastEnd # <<"prune", "ok">> \/ NotBroughtBackNG = {}) \/ PrintT(<<"NONCONF", l, sc, "state", {<<"NotBroughtBack", NotBroughtBackNG, excused, Running>>}>>)

AllConsumed == l = Len(Rec) \/ TRUE
Accepted == TLCGet("stats").diameter - 1 = Len(Rec)
              \/ PrintT(<<"TOOLERR", "trace not consumed", TLCGet("stats").diameter - 1, Len(Rec)>>)
=============================================================================
