----------------------------- MODULE IndexTrace -----------------------------
(***************************************************************************)
(* C17 trace validation: every record is one collection of index files    *)
(* built into the real in-memory index (through the cfg-gated constructor *)
(* in each mode, and through real index files + the public open path),    *)
(* with the answer to every query.                                         *)
(***************************************************************************)
EXTENDS Index, Json, IOUtils, TLC

Rec == ndJsonDeserialize(IOEnv.TRACE)
VARIABLE l
Init == l = 1
Next == l < Len(Rec) /\ l' = l + 1
Spec == Init /\ [][Next]_l

Ans(files, t, id) == Answers(files, t, id)
Tot(files, t) == Total(files, t)

QueryProblems(r) ==
  {<<"query", q, r.queries[q]>> : q \in {k \in DOMAIN r.queries :
      LET x == r.queries[k]
          ans == Ans(r.files, x.t, x.id)
      IN \/ (Retains(x.mode, "get", x.t) /\ x.found /\ [p |-> x.p, off |-> x.off, len |-> x.len, ulen |-> x.ulen] \notin ans)
         \/ (Retains(x.mode, "get", x.t) /\ ~x.found /\ ans # {})
         \/ (~Retains(x.mode, "get", x.t) /\ x.found /\ [p |-> x.p, off |-> x.off, len |-> x.len, ulen |-> x.ulen] \notin ans)
         \/ (Retains(x.mode, "has", x.t) /\ x.has # (ans # {}))
         \/ (~Retains(x.mode, "has", x.t) /\ x.has /\ ans = {})}}

TotalProblems(r) ==
  {<<"total", r.totals[q]>> : q \in {k \in DOMAIN r.totals : r.totals[k].total # Tot(r.files, r.totals[k].t)}}

\* packs iterated back out of a full index: exactly the unmarked listings, blobs as a set
IterProblems(r) ==
  IF ~("iter" \in DOMAIN r) THEN {}
  ELSE LET want == {<<Entry(r.files, x).p, Range(Entry(r.files, x).blobs)>> : x \in Listings(r.files)}
           got  == {<<r.iter[k].p, Range(r.iter[k].blobs)>> : k \in DOMAIN r.iter}
       IN IF want = got /\ Len(r.iter) = Cardinality(Listings(r.files))
          THEN {} ELSE {<<"iter", want \ got, got \ want>>}

\* totals beyond 32 bits (sizes and totals in MiB): the sum of the listed pack sizes of the type
RECURSIVE SumMib(_, _)
SumMib(S, t) == IF S = {} THEN 0 ELSE LET x == CHOOSE y \in S : TRUE IN (IF x.t = t THEN x.mib ELSE 0) + SumMib(S \ {x}, t)
BigProblems(r) ==
  {<<"bigtotal", r.totals[q]>> : q \in {k \in DOMAIN r.totals :
      r.totals[k].outcome # "ok" \/ r.totals[k].rem # 0 \/ r.totals[k].mib # SumMib({r.sizes[i] : i \in DOMAIN r.sizes}, r.totals[k].t)}}

Verdict(r) == IF r.kind = "bigtotal" THEN BigProblems(r) ELSE QueryProblems(r) \cup TotalProblems(r) \cup IterProblems(r)

Conforms == Verdict(Rec[l]) = {} \/ PrintT(<<"NONCONF", l, Rec[l].id, Verdict(Rec[l])>>)
AllConsumed == TLCGet("stats").diameter = Len(Rec)
                 \/ PrintT(<<"TOOLERR", "trace not consumed", TLCGet("stats").diameter, Len(Rec)>>)
=============================================================================
