----------------------------- MODULE DedupTrace -----------------------------
(***************************************************************************)
(* C07 trace validation.                                                   *)
(*  pair    : two consecutive backups (v1, v2 = edit(v1)) on one           *)
(*            repository, the second through a fresh handle.  up_data /    *)
(*            up_tree: blobs of the packs the second backup wrote (storage *)
(*            log, independent decoder); exp_data: chunk ids of v2 that    *)
(*            are not chunk ids of v1 (repository chunker on the sources); *)
(*            tree1/tree2: tree blobs the snapshots reference.             *)
(*  collide : a file whose bytes are the serialisation of a directory of   *)
(*            the same backup: the tree blob and the data blob have the    *)
(*            same id and must both be stored and indexed.                 *)
(***************************************************************************)
EXTENDS Integers, Sequences, FiniteSets, TLC, Json, IOUtils

Rec == ndJsonDeserialize(IOEnv.TRACE)
VARIABLE l
Init == l = 1
Next == l < Len(Rec) /\ l' = l + 1
Spec == Init /\ [][Next]_l

Range(f) == {f[x] : x \in DOMAIN f}
NoRepeat(s) == Cardinality(Range(s)) = Len(s)

PairVerdict(r) ==
  IF r.outcome # "ok" THEN {<<"outcome", r.outcome, r.msg>>}
  ELSE
  \* unchanged data adds nothing and gives the same tree identifier
  (IF r.same /\ ~(r.up_data = <<>> /\ r.up_tree = <<>> /\ r.root1 = r.root2) THEN {<<"NoNewBlobs", Len(r.up_data), Len(r.up_tree)>>} ELSE {})
  \* every chunk that did not exist before is uploaded, none that existed is uploaded again
  \cup (IF Range(r.up_data) # Range(r.exp_data)
        THEN {<<"ExactDelta", "data", "missing", Range(r.exp_data) \ Range(r.up_data), "again", Range(r.up_data) \ Range(r.exp_data)>>} ELSE {})
  \cup (IF Range(r.up_tree) # Range(r.tree2) \ Range(r.tree1)
        THEN {<<"ExactDelta", "tree", (Range(r.tree2) \ Range(r.tree1)) \ Range(r.up_tree), Range(r.up_tree) \ (Range(r.tree2) \ Range(r.tree1))>>} ELSE {})
  \* the snapshot references exactly the chunks of the source
  \cup (IF Range(r.snap_data2) # Range(r.ref_data2) THEN {<<"SnapshotChunks">>} ELSE {})
  \* an edit inside the big file re-uploads only chunks of that file that are new
  \cup (IF Len(r.up_data) > Cardinality(Range(r.exp_data)) THEN {<<"Shift", Len(r.up_data)>>} ELSE {})
  \cup (IF ~r.readable THEN {<<"Unreadable">>} ELSE {})

CollideVerdict(r) ==
  IF r.outcome # "ok" THEN {<<"outcome", r.outcome, r.msg>>}
  ELSE (IF ~(r.need_tree /\ r.need_data) THEN {<<"TOOLERR scenario has no collision">>} ELSE {})
       \cup (IF ~(r.tree_indexed /\ r.data_indexed) THEN {<<"TypedBothKept", r.tree_indexed, r.data_indexed>>} ELSE {})
       \cup (IF ~(r.real.class = "ok" /\ r.real.check_clean /\ r.real.content_ok) THEN {<<"CollisionUnreadable", r.real>>} ELSE {})

Verdict(r) == IF r.kind = "pair" THEN PairVerdict(r) ELSE CollideVerdict(r)
Conforms == Verdict(Rec[l]) = {} \/ PrintT(<<"NONCONF", l, Rec[l].id, Verdict(Rec[l])>>)
AllConsumed == TLCGet("stats").diameter = Len(Rec)
                 \/ PrintT(<<"TOOLERR", "trace not consumed", TLCGet("stats").diameter, Len(Rec)>>)
=============================================================================
