SPECIFICATION Spec
INVARIANT StepOK
POSTCONDITION AllConsumed
CHECK_DEADLOCK FALSE
VIEW View
