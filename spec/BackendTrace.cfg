SPECIFICATION Spec
INVARIANT StepOK
POSTCONDITION Accepted
CHECK_DEADLOCK FALSE
