SPECIFICATION Spec
CONSTANTS
  MaxVersion = 3
  HotRule = "overwrite"
INVARIANTS SeenIsCurrent HotNotAhead
CHECK_DEADLOCK FALSE
