SPECIFICATION Spec
CONSTANTS
  CheckIndex = TRUE
  CheckType = FALSE
  NParents = 1
INVARIANTS Equal Present ReadIfMissing
CHECK_DEADLOCK FALSE
