SPECIFICATION Spec
CONSTANTS
  ReadData = TRUE
  ReadRootPacks = TRUE
  VerifyFileHash = TRUE
  ReadAllCopies = FALSE
INVARIANTS Sound Undamaged
CHECK_DEADLOCK FALSE
