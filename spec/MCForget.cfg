SPECIFICATION Spec
CONSTANTS
  MaxLen = 4
  Counts <- CountsFull
  WithMarks = FALSE
INVARIANTS DeclEq Monotone Marks
CHECK_DEADLOCK FALSE
