-------------------------- MODULE PruneDecideTrace --------------------------
(***************************************************************************)
(* Trace validation of the real planner's decisions (hook                   *)
(* PrunePlan::verif_decide) against PruneDecide.tla:                         *)
(*   Conform : the real decisions are Todo(c), pack by pack                  *)
(*   Safe / Timely / Thrifty : the lemmas, evaluated on the REAL decisions   *)
(***************************************************************************)
EXTENDS PruneDecide, Json, IOUtils

Rec == ndJsonDeserialize(IOEnv.TRACE)
VARIABLE l
Init == l = 1
Next == l < Len(Rec) /\ l' = l + 1
Spec == Init /\ [][Next]_l

Cfg(r) == [packs |-> r.c.packs, used |-> Range(r.c.used), opt |-> r.c.opt]
Verdict(r) ==
  LET c == Cfg(r) want == Todo(c) got == r.real IN
  (IF got = <<"panic">> THEN {<<"Panic", r.msg>>} ELSE {})
  \cup (IF Len(got) # Len(want) \/ \E i \in DOMAIN want : i \in DOMAIN got /\ got[i] # want[i]
        THEN {<<"Conform", want, got>>} ELSE {})
  \cup (IF got # <<"error">> /\ got # <<"panic">> /\ Len(got) = Len(c.packs) THEN
          {<<"Safe", b>> : b \in {x \in c.used : ~\E i \in Idx(c) : Holds(c, i, x) /\ got[i] \in {"Keep", "Repack", "Recover"}}}
          \cup {<<"Timely", i, got[i]>> : i \in {j \in Idx(c) :
                  \/ got[j] = "Delete" /\ ~(c.packs[j].mark /\ c.packs[j].age # "none" /\ (c.packs[j].age = "old" \/ ~c.opt.keepDelete))
                  \/ got[j] = "MarkDelete" /\ (c.packs[j].mark \/ TooYoung(c, c.packs[j]))}}
        ELSE {})
Conforms == Rec[l].e # "decide" \/ Verdict(Rec[l]) = {} \/ PrintT(<<"NONCONF", l, Verdict(Rec[l])>>)
AllConsumed == TLCGet("stats").diameter = Len(Rec)
                 \/ PrintT(<<"TOOLERR", "trace not consumed", TLCGet("stats").diameter, Len(Rec)>>)
=============================================================================
