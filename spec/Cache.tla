-------------------------------- MODULE Cache --------------------------------
(***************************************************************************)
(* C19: a local cache in front of the repository.  One client works        *)
(* through the cache, another one directly on the repository; arbitrary    *)
(* entries (for absent files, or with a wrong size) may be planted in the  *)
(* cache.  File names are content hashes: an entry with the right name and *)
(* the right size has the right content.                                    *)
(*   AfterList   : after a listing through the cache, the cache holds no   *)
(*                 entry the repository does not have with that size;       *)
(*   SameResults : every read of a listed file through the cache returns   *)
(*                 what the repository holds.                               *)
(* PruneOnList = FALSE models a cache that is not cleaned on listing and    *)
(* must violate both.                                                       *)
(***************************************************************************)
EXTENDS Integers, FiniteSets, TLC

CONSTANTS Key, MaxOps, PruneOnList

VARIABLES repo,     \* set of keys present (content determined by the key), each with its true size = 1
          cache,    \* [subset of Key -> size]  (size 1 = right, 0 = wrong)
          listed,   \* keys returned by the last listing through the cache
          lastread, \* <<key, source>> of the last read through the cache
          nops
vars == <<repo, cache, listed, lastread, nops>>

Put(f, k, v) == [x \in DOMAIN f \cup {k} |-> IF x = k THEN v ELSE f[x]]
Drop(f, k) == [x \in DOMAIN f \ {k} |-> f[x]]
Empty == [x \in {} |-> 0]

Init == repo = {} /\ cache = Empty /\ listed = {} /\ lastread = <<>> /\ nops = 0
Step == nops < MaxOps /\ nops' = nops + 1

\* through the cache
CWrite(k)  == Step /\ cache' = Put(cache, k, 1) /\ repo' = repo \cup {k} /\ lastread' = <<>> /\ UNCHANGED listed
CRemove(k) == Step /\ k \in repo /\ cache' = (IF k \in DOMAIN cache THEN Drop(cache, k) ELSE cache)
              /\ repo' = repo \ {k} /\ lastread' = <<>> /\ UNCHANGED listed
CList == Step /\ listed' = repo /\ lastread' = <<"list">> /\ UNCHANGED repo
         /\ cache' = IF PruneOnList THEN [k \in {x \in DOMAIN cache : x \in repo /\ cache[x] = 1} |-> 1] ELSE cache
\* the library reads what a listing returned
CRead(k) == Step /\ k \in listed /\ k \in repo
            /\ (IF k \in DOMAIN cache THEN lastread' = <<k, "cache", cache[k]>> /\ cache' = cache
                ELSE lastread' = <<k, "repo", 1>> /\ cache' = Put(cache, k, 1))
            /\ UNCHANGED <<repo, listed>>
\* the other client, directly
DWrite(k)  == Step /\ repo' = repo \cup {k} /\ lastread' = <<>> /\ UNCHANGED <<cache, listed>>
DRemove(k) == Step /\ k \in repo /\ repo' = repo \ {k} /\ listed' = listed \ {k} /\ lastread' = <<>> /\ UNCHANGED cache
\* somebody plants an entry: for an absent file, or with a wrong size
Plant(k) == Step /\ ((k \notin repo /\ cache' = Put(cache, k, 1)) \/ cache' = Put(cache, k, 0))
            \* planting happens between commands, and every command lists before it reads
            /\ lastread' = <<>> /\ listed' = {} /\ UNCHANGED repo

Next == \E k \in Key : CWrite(k) \/ CRemove(k) \/ CRead(k) \/ DWrite(k) \/ DRemove(k) \/ Plant(k)
        \/ CList
Spec == Init /\ [][Next]_vars

\* AfterList: in the state right after a listing through the cache (ghost: lastread = <<"list">>)
AfterList == (lastread = <<"list">>) => \A k \in DOMAIN cache : k \in repo /\ cache[k] = 1
\* a read through the cache never returns an entry of wrong size
SameResults == lastread = <<>> \/ lastread = <<"list">> \/ lastread[3] = 1
=============================================================================
