---------------------------- MODULE ChunkerTrace ----------------------------
(***************************************************************************)
(* C06 trace validation.  Record kinds:                                    *)
(*  chunks : one stream, its parameters, the real chunk-length lists of    *)
(*           several read fragmentations, and per chunk of the first run   *)
(*           the hit lengths from the from-definition reference: hl with   *)
(*           the literal 64-byte window, hd with the window the code uses  *)
(*           during the first 63 positions after the minimum size          *)
(*           (deviation D1: both are accepted);                            *)
(*  fp     : a window, the polynomial and the reference fingerprint - TLC  *)
(*           recomputes it from Rabin.tla;                                 *)
(*  local  : cut positions (from the end) of two streams sharing a suffix; *)
(*  fixed  : fixed-size chunking;  backup : chunk lengths seen through a   *)
(*           full backup vs the iterator.                                  *)
(***************************************************************************)
EXTENDS Chunker, Rabin, Json, IOUtils, TLC

Rec == ndJsonDeserialize(IOEnv.TRACE)
VARIABLE l
Init == l = 1
Next == l < Len(Rec) /\ l' = l + 1
Spec == Init /\ [][Next]_l

Range(f) == {f[x] : x \in DOMAIN f}

\* the D1 hit set: code window for lengths < min + 64, literal beyond
HitsD1(r, i) == {n \in Range(r.hd[i]) : n < r.min + 64} \cup {n \in Range(r.hl[i]) : n >= r.min + 64}

ChunkOK(r, lens, starts, i) ==
  LET rem == r.N - starts[i] IN
  \/ lens[i] = CutLen(rem, r.min, r.max, Range(r.hl[i]))
  \/ lens[i] = CutLen(rem, r.min, r.max, HitsD1(r, i))

\* lens/starts as logged: starts are verified locally (linear), so no quadratic sums are needed
PartitionS(lens, starts, N) ==
  /\ Len(lens) = Len(starts)
  /\ \A i \in DOMAIN lens : lens[i] > 0 /\ starts[i] = (IF i = 1 THEN 0 ELSE starts[i - 1] + lens[i - 1])
  /\ (IF Len(lens) = 0 THEN N = 0 ELSE starts[Len(lens)] + lens[Len(lens)] = N)

ChunksVerdict(r) ==
  IF r.outcome # "ok" THEN {<<"outcome", r.outcome, r.msg>>}
  ELSE LET lens == r.runs[1]
           starts == r.starts[1]
       IN (IF ~PartitionS(lens, starts, r.N) THEN {<<"not a partition of the stream (lossless)">>} ELSE
           (IF ~Bounded(lens, r.min, r.max) THEN {<<"bounds">>} ELSE {})
           \cup {<<"cut", i, starts[i], lens[i]>> : i \in {j \in DOMAIN lens : j \in DOMAIN r.hl /\ ~ChunkOK(r, lens, starts, j)}})
          \cup {<<"fragmentation changes the result", k>> : k \in {j \in DOMAIN r.runs : r.runs[j] # r.runs[1]}}

FpVerdict(r) == IF FP(r.w, Range(r.poly)) = Range(r.fp) THEN {} ELSE {<<"TOOLERR reference fingerprint differs from Rabin.tla">>}

\* locality: from the first common cut inside the shared suffix on, both streams cut identically
LocalVerdict(r) ==
  LET ca == Range(r.a)  cb == Range(r.b)
      common == {e \in ca \cap cb : e <= r.shared /\ e > 0}
  IN IF common = {} THEN {}
     ELSE LET first == Max(common) IN
          IF {e \in ca : e <= first} = {e \in cb : e <= first} THEN {} ELSE {<<"locality", first>>}

FixedVerdict(r) ==
  IF r.outcome # "ok" THEN {<<"outcome", r.outcome>>}
  ELSE UNION {LET lens == r.runs[k] starts == r.starts[k] IN
              (IF ~PartitionS(lens, starts, r.N) THEN {<<"not a partition", k>>} ELSE {})
              \cup {<<"fixed cut", k, i>> : i \in {j \in DOMAIN lens : lens[j] # FixedLen(r.N - starts[j], r.size)}}
             : k \in DOMAIN r.runs}

BackupVerdict(r) == IF r.outcome = "ok" /\ r.backup = r.iter /\ PartitionS(r.backup, r.starts, r.N) THEN {} ELSE {<<"backup chunks differ from iterator", r.outcome, r.msg>>}

Verdict(r) ==
  CASE r.kind = "chunks" -> ChunksVerdict(r)
    [] r.kind = "fp"     -> FpVerdict(r)
    [] r.kind = "local"  -> LocalVerdict(r)
    [] r.kind = "fixed"  -> FixedVerdict(r)
    [] r.kind = "backup" -> BackupVerdict(r)
    [] OTHER -> {<<"unknown record">>}

Conforms == Verdict(Rec[l]) = {} \/ PrintT(<<"NONCONF", l, Rec[l].id, Verdict(Rec[l])>>)
AllConsumed == TLCGet("stats").diameter = Len(Rec)
                 \/ PrintT(<<"TOOLERR", "trace not consumed", TLCGet("stats").diameter, Len(Rec)>>)
=============================================================================
