--------------------------- MODULE RoundTripTrace ---------------------------
(***************************************************************************)
(* C01: backup followed by any way of reading back is the identity.  One   *)
(* record per (source tree, configuration): the projection of the SOURCE   *)
(* taken from the file system and the projections of what came back by     *)
(* restore-to-disk, by ls + dump (+ ranged reads), and the check verdict.   *)
(* An entry is <<path, attributes>>; attributes: type, size, content hash, *)
(* link target, permission bits, mtime (s.ns), hard-link group.             *)
(***************************************************************************)
EXTENDS Integers, Sequences, FiniteSets, TLC, Json, IOUtils

Rec == ndJsonDeserialize(IOEnv.TRACE)
VARIABLE l
Init == l = 1
Next == l < Len(Rec) /\ l' = l + 1
Spec == Init /\ [][Next]_l

AsMap(seq) == [p \in {seq[i].p : i \in DOMAIN seq} |-> (CHOOSE i \in DOMAIN seq : seq[i].p = p)]
Attr(seq, p) == seq[AsMap(seq)[p]].a
Paths(seq) == {seq[i].p : i \in DOMAIN seq}

\* attributes a listing must agree on with the source
LsKeys == {"t", "size", "sha", "target", "mode", "mtime"}
Agree(a, b, keys) == \A k \in keys : (k \in DOMAIN a) => (k \in DOMAIN b /\ a[k] = b[k])

Verdict(r) ==
  IF r.backup # "ok" THEN {<<"BackupFailed", r.backup, r.backup_msg>>}
  ELSE
    (IF r.restore # "ok" THEN {<<"RestoreFailed", r.restore, r.restore_msg>>}
     ELSE (IF Paths(r.restored) # Paths(r.src)
           THEN {<<"RestoreEntries", "missing", Paths(r.src) \ Paths(r.restored), "extra", Paths(r.restored) \ Paths(r.src)>>} ELSE {})
          \cup {<<"RestoreDiffers", p, Attr(r.src, p), Attr(r.restored, p)>> :
                  p \in {q \in Paths(r.src) \cap Paths(r.restored) : Attr(r.src, q) # Attr(r.restored, q)}})
    \* the same restore once more, over the restored copy with trailing parts of its files overwritten
    \cup (IF r.restore2 = "skipped" THEN {}
          ELSE IF r.restore2 # "ok" THEN {<<"RestoreAgainFailed", r.restore2, r.restore2_msg>>}
          ELSE (IF Paths(r.restored2) # Paths(r.src)
                THEN {<<"RestoreAgainEntries", Paths(r.src) \ Paths(r.restored2), Paths(r.restored2) \ Paths(r.src)>>} ELSE {})
               \cup {<<"RestoreAgainDiffers", p, Attr(r.src, p), Attr(r.restored2, p)>> :
                       p \in {q \in Paths(r.src) \cap Paths(r.restored2) : Attr(r.src, q) # Attr(r.restored2, q)}})
    \cup (IF r.read # "ok" THEN {<<"ReadFailed", r.read, r.read_msg>>}
          ELSE (IF Paths(r.ls) # Paths(r.src) THEN {<<"LsEntries", Paths(r.src) \ Paths(r.ls), Paths(r.ls) \ Paths(r.src)>>} ELSE {})
               \cup {<<"LsOrDumpDiffers", p, Attr(r.src, p), Attr(r.ls, p)>> :
                       p \in {q \in Paths(r.src) \cap Paths(r.ls) : ~Agree(Attr(r.src, q), Attr(r.ls, q), LsKeys)}}
               \cup (IF r.ranged_bad # <<>> THEN {<<"RangedRead", r.ranged_bad>>} ELSE {}))
    \cup (IF r.check # "clean" THEN {<<"CheckNotClean", r.check>>} ELSE {})

Conforms == Verdict(Rec[l]) = {} \/ PrintT(<<"NONCONF", l, Rec[l].id, Verdict(Rec[l])>>)
AllConsumed == TLCGet("stats").diameter = Len(Rec)
                 \/ PrintT(<<"TOOLERR", "trace not consumed", TLCGet("stats").diameter, Len(Rec)>>)
=============================================================================
