SPECIFICATION Spec
CONSTANTS
  NPacks = 1
  Emitting = FALSE
INVARIANTS SafeI TimelyI ThriftyI AccountedI
CHECK_DEADLOCK FALSE
