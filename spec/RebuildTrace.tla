---------------------------- MODULE RebuildTrace ----------------------------
(***************************************************************************)
(* C08, packs closed by the blob-count limit: after all index files were    *)
(* removed and repair-index ran, the snapshot reads back exactly as before  *)
(* (digest over names, types and contents) and check --read-data is clean.  *)
(***************************************************************************)
EXTENDS Integers, Sequences, TLC, Json, IOUtils
Rec == ndJsonDeserialize(IOEnv.TRACE)
VARIABLE l
Init == l = 1
Next == l < Len(Rec) /\ l' = l + 1
Spec == Init /\ [][Next]_l
Verdict(r) ==
  IF r.result # "ok" THEN {<<"TOOLERR scenario", r.result>>}
  ELSE (IF r.repair # "ok" THEN {<<"Rebuild", "repair-index failed", r.repair_msg>>} ELSE {})
       \cup (IF r.after # r.before THEN {<<"Rebuild", "read-back differs", r.before, r.after>>} ELSE {})
       \cup (IF r.check # "clean" THEN {<<"Rebuild", "check", r.check>>} ELSE {})
Conforms == Verdict(Rec[l]) = {} \/ PrintT(<<"NONCONF", l, Rec[l].id, Verdict(Rec[l])>>)
AllConsumed == TLCGet("stats").diameter = Len(Rec)
                 \/ PrintT(<<"TOOLERR", "trace not consumed", TLCGet("stats").diameter, Len(Rec)>>)
=============================================================================
