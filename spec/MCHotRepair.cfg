SPECIFICATION Spec
CONSTANTS
  File = {f1, f2, f3}
  Fault = "removed"
  Mismatch = "both-ways"
INVARIANTS Recreated ColdIntact
CHECK_DEADLOCK FALSE
