SPECIFICATION Spec
CONSTANTS
  Key = {k1, k2}
  Value = {a, b}
  MaxOps = 4
  AtomicPublish = TRUE
INVARIANT ListedComplete
CHECK_DEADLOCK FALSE
