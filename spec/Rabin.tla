-------------------------------- MODULE Rabin --------------------------------
(***************************************************************************)
(* Rabin fingerprints over GF(2), from the definition.  A polynomial is    *)
(* the set of the exponents of its non-zero terms, so nothing exceeds      *)
(* TLC's 32-bit integers (the repository polynomial has degree 53, a       *)
(* 64-byte window is a polynomial of degree <= 511).                       *)
(***************************************************************************)
EXTENDS Integers, Sequences, FiniteSets

Max(S) == CHOOSE x \in S : \A y \in S : y <= x
Deg(a) == IF a = {} THEN -1 ELSE Max(a)
Shift(a, k) == {e + k : e \in a}
Add(a, b) == (a \ b) \cup (b \ a)

RECURSIVE Mod(_, _)
Mod(a, p) == IF Deg(a) < Deg(p) THEN a ELSE Mod(Add(a, Shift(p, Deg(a) - Deg(p))), p)

Pow2(i) == CASE i = 0 -> 1 [] i = 1 -> 2 [] i = 2 -> 4 [] i = 3 -> 8 [] i = 4 -> 16 [] i = 5 -> 32 [] i = 6 -> 64 [] OTHER -> 128
ByteBits(b) == {i \in 0..7 : (b \div Pow2(i)) % 2 = 1}

\* the window w_1 .. w_n (oldest first) as the polynomial  sum_i w_i * x^(8(n-i))
WindowPoly(w) == UNION {Shift(ByteBits(w[i]), 8 * (Len(w) - i)) : i \in 1..Len(w)}

\* fingerprint of a window under the (irreducible) polynomial p
FP(w, p) == Mod(WindowPoly(w), p)

\* "the low k bits are zero": no term of degree < k
LowZero(a, k) == a \cap (0..(k - 1)) = {}
=============================================================================
