------------------------------ MODULE MCChunker ------------------------------
(***************************************************************************)
(* The buffer algorithm of the Rabin chunk iterator (read-ahead buffer     *)
(* carried across chunks, take(min) + read_to_end, window prefill, slide   *)
(* loop, Interrupted => retry, short reads) against the function Chunks,   *)
(* for EVERY stream of <= MaxLen bytes over {0,1}, every hit set over      *)
(* 2-byte windows, all (min, max) and every fragmentation the reader can   *)
(* produce.  CarryAll = TRUE models taking the whole carried buffer into   *)
(* the next chunk (the behaviour before the fix) and must violate Refines. *)
(***************************************************************************)
EXTENDS Chunker, TLC

CONSTANTS MaxLen, BufSize, W, CarryAll

Byte == {0, 1}
Max(S) == CHOOSE x \in S : \A y \in S : y <= x
Windows == [1..W -> Byte]

VARIABLES s, HW, min, max,          \* the instance
          rd,                       \* bytes the reader has handed out so far
          buf,                      \* carried read-ahead bytes (a suffix of s[1..rd])
          vec,                      \* chunk under construction
          st,                       \* its start offset
          out,                      \* lengths of the chunks emitted
          pc
vars == <<s, HW, min, max, rd, buf, vec, st, out, pc>>

N == Len(s)
WindowOf(v) == SubSeq(v, Len(v) - W + 1, Len(v))
HitVec(v) == Len(v) >= W /\ WindowOf(v) \in HW
\* hit lengths of a chunk starting at o, from the definition
HitsAt(o) == {n \in 1..(N - o) : n >= W /\ SubSeq(s, o + n - W + 1, o + n) \in HW}

RECURSIVE ChunksFrom(_)
ChunksFrom(o) == IF o >= N THEN <<>>
                 ELSE LET c == CutLen(N - o, min, max, HitsAt(o)) IN <<c>> \o ChunksFrom(o + c)

Init == /\ s \in UNION {[1..n -> Byte] : n \in 0..MaxLen}
        /\ HW \in SUBSET Windows
        /\ min \in W..4 /\ max \in 1..6 /\ min <= max
        /\ rd = 0 /\ buf = <<>> /\ vec = <<>> /\ st = 0 /\ out = <<>> /\ pc = "start"

\* begin a chunk: move carried bytes, then read until min bytes are there (read_to_end retries by itself)
Start == /\ pc = "start"
         /\ LET take == IF CarryAll THEN Len(buf) ELSE Min2(Len(buf), min)
                v0   == SubSeq(buf, 1, take)
                need == min - take
            IN IF need < 0 THEN pc' = "panic" /\ UNCHANGED <<rd, buf, vec, st, out>>      \* usize underflow
               ELSE LET got == Min2(need, N - rd)
                        v1  == v0 \o SubSeq(s, rd + 1, rd + got)
                    IN /\ rd' = rd + got
                       /\ buf' = SubSeq(buf, take + 1, Len(buf))
                       /\ IF got < need
                          THEN /\ out' = IF v1 = <<>> THEN out ELSE Append(out, Len(v1))
                               /\ vec' = <<>> /\ pc' = "done" /\ st' = st + Len(v1)
                          ELSE /\ vec' = v1 /\ pc' = "loop" /\ UNCHANGED <<out, st>>
         /\ UNCHANGED <<s, HW, min, max>>

Cut == /\ out' = Append(out, Len(vec)) /\ st' = st + Len(vec) /\ vec' = <<>>

Loop == /\ pc = "loop"
        /\ IF Len(vec) >= max \/ HitVec(vec)
           THEN Cut /\ pc' = "start" /\ UNCHANGED <<rd, buf>>
           ELSE IF buf = <<>>
                THEN \* refill: the reader returns 1..BufSize bytes, or 0 at end of stream; or is interrupted (retry)
                     \/ /\ rd = N /\ Cut /\ pc' = "done" /\ UNCHANGED <<rd, buf>>
                     \/ /\ rd < N /\ \E k \in 1..Min2(BufSize, N - rd) :
                             /\ buf' = SubSeq(s, rd + 1, rd + k) /\ rd' = rd + k
                        /\ UNCHANGED <<vec, st, out, pc>>
                     \/ UNCHANGED <<rd, buf, vec, st, out, pc>>            \* Interrupted
                ELSE /\ vec' = Append(vec, Head(buf)) /\ buf' = Tail(buf)
                     /\ UNCHANGED <<rd, st, out, pc>>
        /\ UNCHANGED <<s, HW, min, max>>

Next == Start \/ Loop
Spec == Init /\ [][Next]_vars

\* the emitted chunks are always a prefix of the chunks the definition gives; at the end they are equal
IsPrefix(a, b) == Len(a) <= Len(b) /\ \A i \in DOMAIN a : a[i] = b[i]
Refines == /\ pc # "panic"
           /\ IsPrefix(out, ChunksFrom(0))
           /\ pc = "done" => out = ChunksFrom(0)
Lossless == pc = "done" => Partition(out, N) /\ Bounded(out, min, max)

(***************************************************************************)
(* Locality of the definition itself: two streams with a common suffix cut *)
(* that suffix identically from their first common cut on.                 *)
(***************************************************************************)
RECURSIVE CutsFrom(_, _, _, _, _)
CutsFrom(str, hw, mi, ma, o) ==
  IF o >= Len(str) THEN {}
  ELSE LET hits == {n \in 1..(Len(str) - o) : n >= W /\ SubSeq(str, o + n - W + 1, o + n) \in hw}
           c == CutLen(Len(str) - o, mi, ma, hits)
       IN {o + c} \cup CutsFrom(str, hw, mi, ma, o + c)
\* cut positions measured from the END of the stream
FromEnd(str, cuts) == {Len(str) - c : c \in cuts}
Locality ==
  pc = "start" /\ rd = 0 =>
    \A t \in UNION {[1..n -> Byte] : n \in 0..3} :      \* another stream: t prepended to a suffix of s
      \A k \in 0..N :
        LET suf == SubSeq(s, k + 1, N)
            a == s
            b == t \o suf
            ca == FromEnd(a, CutsFrom(a, HW, min, max, 0))
            cb == FromEnd(b, CutsFrom(b, HW, min, max, 0))
            common == {e \in ca \cap cb : e <= Len(suf) /\ e > 0}
        IN common # {} =>
             LET first == Max(common)     \* the first common cut inside the shared suffix (largest distance from the end)
             IN {e \in ca : e <= first} = {e \in cb : e <= first}
=============================================================================
