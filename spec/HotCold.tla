------------------------------- MODULE HotCold -------------------------------
(***************************************************************************)
(* C16: a repository split into a cold store (everything) and a hot store  *)
(* (everything except data packs).  Every store operation of the single-   *)
(* store protocol is refined into its sub-operations:                      *)
(*    write  : hot first, then cold          remove : cold first, then hot *)
(* and the command can be interrupted between any two sub-operations.      *)
(* WriteOrder / RemoveOrder = "hot-first" | "cold-first" select the order  *)
(* (the unsafe orders are kept to show that HotComplete can fail).          *)
(***************************************************************************)
EXTENDS Integers, FiniteSets, TLC

CONSTANTS Key,         \* file names
          Kind,        \* [Key -> "meta" | "treepack" | "datapack"]
          Value,       \* file names are content hashes, so a name has ONE possible content (Value is a singleton)
          MaxOps, WriteOrder, RemoveOrder

VARIABLES cold, hot, pend, nops
vars == <<cold, hot, pend, nops>>
\* pend: the sub-operation still to do for an operation in progress, or "none"

Put(f, k, v) == [x \in DOMAIN f \cup {k} |-> IF x = k THEN v ELSE f[x]]
Drop(f, k) == [x \in DOMAIN f \ {k} |-> f[x]]
Empty == [x \in {} |-> 0]
InHot(k) == Kind[k] # "datapack"

Init == cold = Empty /\ hot = Empty /\ pend = <<"none">> /\ nops = 0

\* first half of an operation
BeginWrite(k, v) ==
  /\ pend[1] = "none" /\ nops < MaxOps /\ nops' = nops + 1
  /\ IF ~InHot(k) THEN cold' = Put(cold, k, v) /\ hot' = hot /\ pend' = <<"none">>
     ELSE IF WriteOrder = "hot-first"
          THEN hot' = Put(hot, k, v) /\ cold' = cold /\ pend' = <<"wcold", k, v>>
          ELSE cold' = Put(cold, k, v) /\ hot' = hot /\ pend' = <<"whot", k, v>>
BeginRemove(k) ==
  /\ pend[1] = "none" /\ nops < MaxOps /\ nops' = nops + 1 /\ k \in DOMAIN cold
  /\ IF ~InHot(k) THEN cold' = Drop(cold, k) /\ hot' = hot /\ pend' = <<"none">>
     ELSE IF RemoveOrder = "cold-first"
          THEN cold' = Drop(cold, k) /\ hot' = hot /\ pend' = <<"rhot", k>>
          ELSE hot' = (IF k \in DOMAIN hot THEN Drop(hot, k) ELSE hot) /\ cold' = cold /\ pend' = <<"rcold", k>>
\* second half
Finish ==
  /\ pend[1] # "none" /\ pend' = <<"none">> /\ UNCHANGED nops
  /\ CASE pend[1] = "wcold" -> cold' = Put(cold, pend[2], pend[3]) /\ hot' = hot
       [] pend[1] = "whot"  -> hot' = Put(hot, pend[2], pend[3]) /\ cold' = cold
       [] pend[1] = "rhot"  -> hot' = (IF pend[2] \in DOMAIN hot THEN Drop(hot, pend[2]) ELSE hot) /\ cold' = cold
       [] pend[1] = "rcold" -> cold' = (IF pend[2] \in DOMAIN cold THEN Drop(cold, pend[2]) ELSE cold) /\ hot' = hot
\* the command dies between the two halves
Interrupt == pend[1] # "none" /\ pend' = <<"none">> /\ UNCHANGED <<cold, hot, nops>>

Next == (\E k \in Key : (\E v \in Value : BeginWrite(k, v)) \/ BeginRemove(k)) \/ Finish \/ Interrupt
Spec == Init /\ [][Next]_vars

\* every non-data file the cold store lists is in the hot store with identical content - at every moment
HotComplete == \A k \in DOMAIN cold : InHot(k) => (k \in DOMAIN hot /\ hot[k] = cold[k])
NoDataInHot == \A k \in DOMAIN hot : InHot(k)
=============================================================================
