SPECIFICATION Spec
CONSTANTS
  MaxLen = 3
  Counts <- CountsFull
  WithMarks = FALSE
INVARIANTS DeclEq Monotone Marks
CHECK_DEADLOCK FALSE
