---------------------------- MODULE SealedTrace ----------------------------
(***************************************************************************)
(* C04 trace validation, storage part.  Records (harness driver `sealed`):  *)
(*  msg    - the sealing primitive under every single-bit flip, truncation, *)
(*           extension, splice and wrong key (tallies of same/diff/err)     *)
(*  draws  - nonces of many sealings                                        *)
(*  stored - one per file ever written by the library (key files excluded): *)
(*           sealed under the master key (independent decoder, packs covered*)
(*           without gaps), plaintext markers found in the raw bytes, the   *)
(*           nonces of its messages                                          *)
(*  tamper - one per (stored file, fault): classes of the affected reads    *)
(* Formulas (Sealed.tla states them on the abstract store):                  *)
(*  NoPlain    - no marker / structural JSON key in raw bytes; all sealed    *)
(*  NonceFresh - no nonce occurs twice within one repository / draw series   *)
(*  Authentic  - no affected read returns different content ("diff")         *)
(*  Detected   - a read whose sealed window was modified fails ("err"):      *)
(*               whole file for snapshot / index / config; for blob i of a   *)
(*               pack the window [off_i, off_i + len_i)                      *)
(***************************************************************************)
EXTENDS Integers, Sequences, FiniteSets, TLC, Json, IOUtils

Rec == ndJsonDeserialize(IOEnv.TRACE)
VARIABLES l, sc, seen, viol
vars == <<l, sc, seen, viol>>
Ev == Rec[l + 1]

Range(s) == {s[i] : i \in DOMAIN s}
Count(t, c) == IF c \in DOMAIN t THEN t[c] ELSE 0
Tally(t, kind, c) == IF kind \in DOMAIN t THEN Count(t[kind], c) ELSE 0
Kinds(t) == DOMAIN t

\* the window of read i of a tamper record: whole file, or the blob's region
Win(e, i) == IF e.tpe = "pack" THEN <<e.layout[i][1], e.layout[i][1] + e.layout[i][2]>> ELSE <<0, e.len>>
\* was the sealed window of read i modified by the fault?
Hit(e, i) ==
  LET w == Win(e, i) IN
  CASE e.fault = "flip" -> w[1] <= e.pos /\ e.pos < w[2]
    [] e.fault = "truncate" -> e.pos < w[2]
    [] e.fault = "extend" -> e.tpe # "pack"
    [] OTHER -> FALSE
TamperViol(e) ==
  {<<"Authentic", e.tpe, e.fault, r.i>> : r \in {x \in Range(e.reads) : x.res = "diff"}}
  \cup {<<"Detected", e.tpe, e.fault, r.i, r.res>> : r \in {x \in Range(e.reads) : Hit(e, x.i) /\ x.res # "err"}}
  \cup {<<"ReadPanics", e.tpe, e.fault, r.i>> : r \in {x \in Range(e.reads) : x.res = "panic"}}
  \* restore to disk after the fault: the same files, or a failure - never success with other / missing content
  \* (a panic of the restore workers is a failure, but not "an error": reported separately as RestorePanics)
  \cup (IF "restore" \in DOMAIN e /\ e.restore = "diff" THEN {<<"Authentic", e.tpe, e.fault, 0>>} ELSE {})
  \cup (IF "restore" \in DOMAIN e /\ e.restore = "panic" THEN {<<"RestorePanics", e.tpe, e.fault, 0>>} ELSE {})

MsgViol(e) ==
  LET t == e.tally IN
  (IF ~e.fmt_ok THEN {<<"Format", e.len>>} ELSE {})
  \cup (IF ~e.interop THEN {<<"Interop", e.len>>} ELSE {})
  \cup {<<"Authentic", "msg", k, e.len>> : k \in {x \in Kinds(t) \ {"wrongkey-enc"} : Count(t[x], "diff") > 0}}
  \cup {<<"Detected", "msg", k, e.len>> :
          k \in {x \in Kinds(t) \cap {"flip", "truncate", "extend", "cut-front", "cut-middle", "splice", "wrongkey"} :
                   Count(t[x], "same") > 0}}
  \cup {<<"Panic", "msg", k, e.len>> : k \in {x \in Kinds(t) : Count(t[x], "panic") > 0}}

Init == l = 0 /\ sc = "" /\ seen = {} /\ viol = {}
Step ==
  /\ l < Len(Rec) /\ l' = l + 1
  /\ CASE Ev.e = "reset" -> sc' = Ev.id /\ seen' = {} /\ viol' = {}
       [] Ev.e = "msg" -> UNCHANGED <<sc, seen>> /\ viol' = MsgViol(Ev)
       [] Ev.e = "draws" ->
            /\ UNCHANGED <<sc, seen>>
            /\ viol' = (IF Cardinality(Range(Ev.nonces)) # Len(Ev.nonces) THEN {<<"NonceFresh", "draws", Len(Ev.nonces), Cardinality(Range(Ev.nonces))>>} ELSE {})
                       \cup (IF Ev.same_plain_distinct_ct # Ev.same_plain_n THEN {<<"NonceFresh", "same plaintext gave the same ciphertext">>} ELSE {})
                       \cup (IF \E i \in DOMAIN Ev.bytevar : Ev.bytevar[i] < 64 THEN {<<"NonceRandom", Ev.bytevar>>} ELSE {})
       [] Ev.e = "stored" ->
            /\ UNCHANGED sc
            /\ seen' = seen \cup Range(Ev.nonces)
            /\ viol' = (IF ~Ev.sealed THEN {<<"NoPlain", "not sealed under the master key", Ev.tpe, Ev.file>>} ELSE {})
                       \cup {<<"NoPlain", Ev.tpe, Ev.file, m>> : m \in Range(Ev.plain_hits)}
                       \cup {<<"NonceFresh", Ev.tpe, Ev.file, n>> : n \in {x \in Range(Ev.nonces) : x \in seen}}
                       \cup (IF Cardinality(Range(Ev.nonces)) # Len(Ev.nonces) THEN {<<"NonceFresh", Ev.tpe, Ev.file, "within file">>} ELSE {})
       [] Ev.e = "tamper" -> UNCHANGED <<sc, seen>> /\ viol' = TamperViol(Ev)
       [] OTHER -> UNCHANGED <<sc, seen>> /\ viol' = {}
Spec == Init /\ [][Step]_vars

View == <<l, sc, viol>>
StepOK == viol = {} \/ PrintT(<<"NONCONF", l, sc, viol>>)
AllConsumed == TLCGet("stats").diameter - 1 = Len(Rec)
                 \/ PrintT(<<"TOOLERR", "trace not consumed", TLCGet("stats").diameter, Len(Rec)>>)
=============================================================================
