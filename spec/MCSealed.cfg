SPECIFICATION Spec
CONSTANTS
  File <- FileMC
  Tpe <- TpeMC
  Layout <- LayoutMC
  Order <- OrderMC
  Nonce = {1, 2, 3, 4, 5, 6, 7, 8, 9, 10, 11, 12}
  FreshNonce = TRUE
  VerifyName <- AllTypes
  VerifyBlob = TRUE
  AllowSubst = TRUE
  MaxTamper = 2
INVARIANTS TypeOK Authentic Detected NonceFresh
CHECK_DEADLOCK FALSE
