---------------------------- MODULE RepairIndex ----------------------------
(***************************************************************************)
(* commands/repair/index.rs as a step machine (C08: the index can be        *)
(* rebuilt from the packs; C03: an interruption at any point loses nothing; *)
(* C15: a dry run changes nothing).                                         *)
(*                                                                          *)
(* Store: pack id -> [size, hdr] where hdr is the set of blobs its trailer  *)
(* lists (Bad = trailer unreadable).  Index files: id -> set of entries   *)
(* [p, blobs, mark] (the size an entry stands for follows from its blobs).                                                  *)
(*                                                                          *)
(*  Plan     list the packs; walk the index files (in any order - they are  *)
(*           streamed in parallel); an entry is kept when its pack is       *)
(*           listed with the same size and was not met before; it is        *)
(*           dropped when the pack is not listed (or was met before); it is *)
(*           queued for re-reading on a size mismatch or with read-all.     *)
(*           Listed packs no entry mentioned are queued as well.            *)
(*  Reread   one new index file with the trailers of the queued packs that  *)
(*           could be read - without delete mark                            *)
(*  Replace  for each changed index file: write its reduced version (if not *)
(*           empty), then remove the old one                                *)
(* Order = "new-first" (the library) | "remove-first" (changed files are     *)
(* replaced before the re-read packs are indexed again).                     *)
(* A crash may happen between any two steps (Crash: pc becomes "dead").      *)
(***************************************************************************)
EXTENDS Integers, FiniteSets, TLC

CONSTANTS Pack, Blob, Sizes, IdxId, NewId, ReadAll, DryRun, Order, Dup, MaxEntries

Bad == {"bad"}      \* an unreadable trailer (a set, so that it compares with blob sets)
Hdrs == (SUBSET Blob) \cup {Bad}
\* the index does not store pack sizes: the size an entry stands for is computed from its blob list
Size(bs) == Cardinality(bs) + 1
Entry == [p : Pack, blobs : SUBSET Blob, mark : BOOLEAN]
VARIABLES store, idx, store0, idx0, pc, keep, queue, todo, half
vars == <<store, idx, store0, idx0, pc, keep, queue, todo, half>>
\* keep: changed index file -> its reduced entry set; queue: packs to re-read; todo: changed files not yet replaced
\* half: the changed file whose reduced version is written and whose old version is not yet removed (or "none")

Ids(f) == DOMAIN f
Empty == [x \in {} |-> {}]
Put(f, k, v) == [x \in DOMAIN f \cup {k} |-> IF x = k THEN v ELSE f[x]]
Drop(f, k) == [x \in DOMAIN f \ {k} |-> f[x]]
Entries(ix) == UNION {ix[i] : i \in DOMAIN ix}

\* the store agrees with an entry: same size, readable trailer listing the same blobs
Honest(st, e) == e.p \in DOMAIN st /\ st[e.p].hdr = e.blobs
\* an entry the library can read blobs through: the pack is there and really holds them (a wrong size field does not matter)
Usable(st, e) == e.p \in DOMAIN st /\ st[e.p].hdr # Bad /\ e.blobs \subseteq st[e.p].hdr
\* blobs the library can read: listed unmarked in a usable entry
Avail(st, ix) == UNION {e.blobs : e \in {x \in Entries(ix) : ~x.mark /\ Usable(st, x)}}

None == <<"none">>
Init ==
  \* a pack with a readable trailer has the size its trailer implies; a damaged one (cut, overwritten, appended to) any size
  /\ \E ps \in SUBSET Pack : store \in [ps -> {r \in [size : Sizes, hdr : Hdrs] : r.hdr # Bad => r.size = Size(r.hdr)}]
  \* up to MaxEntries (2 or 3) index entries, in the same or in different index files
  /\ \E a, b \in (IdxId \X Entry) \cup {None}, c \in (IF MaxEntries >= 3 THEN (IdxId \X Entry) \cup {None} ELSE {None}) :
        LET fes == {a, b, c} \ {None} IN
        idx = [i \in {fe[1] : fe \in fes} |-> {fe[2] : fe \in {x \in fes : x[1] = i}}]
  \* assumption: index entries were written by the library from the pack they describe - an entry whose size fits a pack
  \* with readable trailer lists that trailer's blobs (entries can be stale, duplicated, marked or refer to lost / damaged
  \* packs, but they do not lie about a pack that is intact)
  /\ \A e \in Entries(idx) : (e.p \in DOMAIN store /\ store[e.p].hdr # Bad /\ Size(e.blobs) = store[e.p].size) => e.blobs = store[e.p].hdr
  /\ store0 = store /\ idx0 = idx /\ pc = "plan" /\ keep = Empty /\ queue = {} /\ todo = {} /\ half = "none"

\* the walk over the index files: `order` is a sequence of (file, entry) pairs - all entries of all files, files in any
\* order, entries within a file in any order; `seen` are the packs already removed from the listing
\* Dup = "first-wins"   : an entry whose pack was met before is dropped (the library before fix b9e4409)
\*       "unmarked-wins": ... unless the pack was so far only kept with a delete mark and this entry is unmarked - then the
\*                        entry is kept (sizes agree) or the pack is queued for re-reading (the library)
RECURSIVE Walk(_, _, _)
Walk(rest, seen, acc) ==
  IF rest = {} THEN {acc}
  ELSE UNION {LET i == fe[1] e == fe[2]
                  listed == e.p \in DOMAIN store /\ e.p \notin seen
                  fits == e.p \in DOMAIN store /\ store[e.p].size = Size(e.blobs)
                  same == listed /\ fits /\ ~ReadAll
                  rescue == Dup = "unmarked-wins" /\ ~listed /\ ~e.mark /\ e.p \in acc.keptMarked
              IN Walk(rest \ {fe}, seen \cup (IF listed THEN {e.p} ELSE {}),
                      [kept |-> IF same \/ (rescue /\ fits) THEN acc.kept \cup {fe} ELSE acc.kept,
                       changed |-> IF same \/ (rescue /\ fits) THEN acc.changed ELSE acc.changed \cup {i},
                       reread |-> IF (listed /\ ~same) \/ (rescue /\ ~fits) THEN acc.reread \cup {e.p} ELSE acc.reread,
                       keptMarked |-> IF same /\ e.mark THEN acc.keptMarked \cup {e.p}
                                      ELSE IF rescue THEN acc.keptMarked \ {e.p} ELSE acc.keptMarked,
                       seen |-> acc.seen \cup (IF listed THEN {e.p} ELSE {})])
             : fe \in rest}
Plans == Walk(UNION {{<<i, e>> : e \in idx[i]} : i \in DOMAIN idx}, {},
              [kept |-> {}, changed |-> {}, reread |-> {}, keptMarked |-> {}, seen |-> {}])

Plan ==
  /\ pc = "plan"
  /\ \E pl \in Plans :
       /\ keep' = [i \in pl.changed |-> {fe[2] : fe \in {x \in pl.kept : x[1] = i}}]
       /\ queue' = pl.reread \cup (DOMAIN store \ pl.seen)
       /\ todo' = IF DryRun THEN {} ELSE pl.changed
  /\ pc' = IF Order = "new-first" THEN "reread" ELSE "replace"
  /\ UNCHANGED <<store, idx, store0, idx0, half>>

Reread ==
  /\ pc = "reread"
  /\ LET ok == {p \in queue : store[p].hdr # Bad}
         ents == {[p |-> p, blobs |-> store[p].hdr, mark |-> FALSE] : p \in ok}
     IN idx' = IF DryRun \/ ents = {} THEN idx ELSE Put(idx, NewId, ents)
  /\ pc' = IF Order = "new-first" THEN "replace" ELSE "done"
  /\ UNCHANGED <<store, store0, idx0, keep, queue, todo, half>>

\* replace one changed file: write the reduced version under a new name (modelled: the entry set moves to <<i, "new">>), remove the old
WriteReduced(i) ==
  /\ pc = "replace" /\ half = "none" /\ i \in todo
  /\ idx' = IF keep[i] = {} THEN idx ELSE Put(idx, <<i, "new">>, keep[i])
  /\ half' = i /\ UNCHANGED <<store, store0, idx0, pc, keep, queue, todo>>
RemoveOld ==
  /\ pc = "replace" /\ half # "none"
  /\ idx' = Drop(idx, half) /\ todo' = todo \ {half} /\ half' = "none"
  /\ UNCHANGED <<store, store0, idx0, pc, keep, queue>>
ReplaceDone ==
  /\ pc = "replace" /\ todo = {} /\ half = "none"
  /\ pc' = IF Order = "new-first" THEN "done" ELSE "reread"
  /\ UNCHANGED <<store, idx, store0, idx0, keep, queue, todo, half>>
Crash == pc \notin {"done", "dead"} /\ pc' = "dead" /\ UNCHANGED <<store, idx, store0, idx0, keep, queue, todo, half>>

Next == Plan \/ Reread \/ (\E i \in IdxId : WriteReduced(i)) \/ RemoveOld \/ ReplaceDone \/ Crash
Spec == Init /\ [][Next]_vars

\* ---------------------------------------------------------------- properties
\* C03: whatever could be read before can be read at every moment, also after a crash
NothingLost == Avail(store0, idx0) \subseteq Avail(store, idx)
\* pack files are never touched
StoreUntouched == store = store0
\* C15: a dry run changes nothing
DryRunInert == DryRun => idx = idx0
\* C08: afterwards the index lists exactly the stored packs with readable trailer, each once, and what it says is what the
\* pack's trailer says - for re-read packs; kept entries are the ones whose size agreed
Rebuilt == (pc = "done" /\ ~DryRun) =>
  /\ \A p \in DOMAIN store : store[p].hdr # Bad => \E e \in Entries(idx) : e.p = p
  /\ \A e \in Entries(idx) : e.p \in DOMAIN store /\ Size(e.blobs) = store[e.p].size
  \* a pack is listed once - or twice when it was listed normally and with a delete mark before (the normal listing counts)
  /\ \A e, f \in Entries(idx) : e.p = f.p => e = f \/ e.mark # f.mark
  /\ ReadAll => \A e \in Entries(idx) : Honest(store, e) /\ ~e.mark
\* every blob of a readable stored pack is available afterwards unless its pack stays marked for deletion
Complete == (pc = "done" /\ ~DryRun) =>
  \A p \in DOMAIN store : store[p].hdr # Bad =>
     \/ store[p].hdr \subseteq Avail(store, idx)
     \/ \E e \in Entries(idx) : e.p = p /\ (e.mark \/ ~Honest(store, e))
=============================================================================
