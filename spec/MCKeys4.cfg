SPECIFICATION Spec
CONSTANTS
  Pw = {"pa", "pb"}
  Wrong = {"wx"}
  MaxKeys = 3
  MaxSteps = 4
INVARIANTS Access OnlyRight Emit
CHECK_DEADLOCK FALSE
