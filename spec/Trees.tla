-------------------------------- MODULE Trees --------------------------------
(***************************************************************************)
(* C12: snapshot trees as functions  path -> node  and the tree-level       *)
(* meaning of merge, rewrite and repair.                                    *)
(*   node == [k : "file" | "dir" | "link", mt : Nat, c : content]           *)
(*   a tree is a function whose domain is prefix-closed, every proper        *)
(*   prefix being a "dir".                                                   *)
(* Each command is written twice: once the way the code walks (level by      *)
(* level: blob/tree.rs merge_trees / merge_nodes, blob/tree/modify.rs with    *)
(* the rewrite / repair visitors) and once as the property reads; TLC checks  *)
(* over all small trees that the two agree (MCTrees).  TreesTrace.tla uses    *)
(* the property-side formulation on recorded real trees.                     *)
(***************************************************************************)
EXTENDS Integers, Sequences, FiniteSets, TLC

CONSTANTS Name,       \* entry names
          MT,         \* modification times (the merge ordering used here: later mtime wins)
          Depth       \* depth of the generated trees

Prefixes(p) == {SubSeq(p, 1, n) : n \in 1 .. Len(p)}
Proper(p) == Prefixes(p) \ {p}
Parent(p) == SubSeq(p, 1, Len(p) - 1)
WellFormed(T) == \A p \in DOMAIN T : \A q \in Proper(p) : q \in DOMAIN T /\ T[q].k = "dir"
Children(T, p) == {q \in DOMAIN T : Len(q) = Len(p) + 1 /\ SubSeq(q, 1, Len(p)) = p}
SubTree(T, p) == [q \in {SubSeq(x, Len(p) + 1, Len(x)) : x \in {y \in DOMAIN T : Len(y) > Len(p) /\ SubSeq(y, 1, Len(p)) = p}} |-> T[p \o q]]
Graft(p, S) == [q \in {p \o x : x \in DOMAIN S} |-> S[SubSeq(q, Len(p) + 1, Len(q))]]
Union(F, G) == [x \in DOMAIN F \cup DOMAIN G |-> IF x \in DOMAIN F THEN F[x] ELSE G[x]]
EmptyT == [x \in {} |-> 0]

\* ---------------------------------------------------------------- merge
\* property side: the candidates at a path are the nodes any input has there; the later mtime wins (ties: any of them);
\* a path is in the result iff on every proper prefix a directory won
Cand(Ts, p) == {i \in DOMAIN Ts : p \in DOMAIN Ts[i]}
Maximal(Ts, p) == {i \in Cand(Ts, p) : \A j \in Cand(Ts, p) : Ts[j][p].mt <= Ts[i][p].mt}
AllPaths(Ts) == UNION {DOMAIN Ts[i] : i \in DOMAIN Ts}
\* M is a correct merge of Ts
IsMerge(M, Ts) ==
  /\ DOMAIN M \subseteq AllPaths(Ts)
  /\ \A p \in DOMAIN M : \E i \in Maximal(Ts, p) : M[p] = Ts[i][p]
  /\ WellFormed(M)
  /\ \A p \in AllPaths(Ts) : p \in DOMAIN M <=> \A q \in Proper(p) : q \in DOMAIN M /\ M[q].k = "dir"

\* code side: level by level.  For every name of the level the winner is taken (max_by keeps the LAST maximal element);
\* if it is a directory its sub-tree is the merge of the sub-trees of all directories of that name
RECURSIVE MergeRec(_, _)
MergeRec(Ts, d) ==
  LET names == {p[1] : p \in {q \in AllPaths(Ts) : Len(q) = 1}}
      At(n) == {i \in DOMAIN Ts : <<n>> \in DOMAIN Ts[i]}
      Win(n) == CHOOSE i \in At(n) : /\ \A j \in At(n) : Ts[j][<<n>>].mt <= Ts[i][<<n>>].mt
                                     /\ \A j \in At(n) : (Ts[j][<<n>>].mt = Ts[i][<<n>>].mt) => j <= i
      Dirs(n) == {i \in At(n) : Ts[i][<<n>>].k = "dir"}
      Subs(n) == LET ds == Dirs(n) IN [i \in ds |-> SubTree(Ts[i], <<n>>)]
      One(n) == LET w == Ts[Win(n)][<<n>>] IN
                IF w.k = "dir" /\ d > 0
                THEN Union([x \in {<<n>>} |-> w], Graft(<<n>>, MergeRec(Subs(n), d - 1)))
                ELSE [x \in {<<n>>} |-> w]
      RECURSIVE Fold(_)
      Fold(S) == IF S = {} THEN EmptyT ELSE LET n == CHOOSE x \in S : TRUE IN Union(One(n), Fold(S \ {n}))
  IN Fold(names)

\* ---------------------------------------------------------------- rewrite
\* Hit: the paths the exclude globs match.  Property side: exactly the paths with no hit prefix stay, unchanged
Rewrite(T, Hit) == [p \in {q \in DOMAIN T : Prefixes(q) \cap Hit = {}} |-> T[p]]
\* code side: visit level by level, drop a node that matches (with everything below), descend into directories
RECURSIVE RewriteRec(_, _, _, _)
RewriteRec(T, Hit, at, d) ==
  LET kids == Children(T, at)
      Keep == {q \in kids : q \notin Hit}
      Below(q) == IF T[q].k = "dir" /\ d > 0 THEN RewriteRec(T, Hit, q, d - 1) ELSE EmptyT
      RECURSIVE Fold(_)
      Fold(S) == IF S = {} THEN EmptyT
                 ELSE LET q == CHOOSE x \in S : TRUE IN Union(Union([x \in {q} |-> T[q]], Below(q)), Fold(S \ {q}))
  IN Fold(Keep)

\* ---------------------------------------------------------------- repair
\* Lost: files some blob of which is gone; Gone: directories whose tree blob is gone.
\* Property side: nothing lost -> the same tree; otherwise every file kept under its own name has its original node,
\* a file with lost blobs appears under name + suffix only, an unreadable directory is kept empty
Marked(p) == SubSeq(p, 1, Len(p) - 1) \o <<p[Len(p)] \o ".repaired">>
Repair(T, Lost, Gone) ==
  LET alive == {p \in DOMAIN T : Proper(p) \cap Gone = {}}
      keep == {p \in alive : p \notin Lost}
  IN Union([p \in keep |-> T[p]], [q \in {Marked(p) : p \in alive \cap Lost} |-> [k |-> "file", mt |-> 0, c |-> "partial"]])
=============================================================================
