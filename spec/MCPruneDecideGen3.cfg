SPECIFICATION Spec
CONSTANTS
  NPacks = 3
  Emitting = TRUE
INVARIANTS Emit
CHECK_DEADLOCK FALSE
