SPECIFICATION Spec
CONSTANTS
  Input <- InputBig
  Cap = 2
  Typed = TRUE
INVARIANTS NothingDropped NoOrphan
PROPERTY Termination
