------------------------------- MODULE WarmUp -------------------------------
(***************************************************************************)
(* C16, second clause: commands that read packs from a cold store request  *)
(* their warm-up first.  A cold store forgets warm-ups (CoolDown may happen *)
(* between any two commands), so every command has to ask for itself.      *)
(*                                                                         *)
(* A command is modelled by its read plan:                                 *)
(*   restore      : per pack the blobs in offset order, each with the flag  *)
(*                  "some existing destination file already holds it"       *)
(*                  (commands/restore.rs RestorePlan: a blob is read from   *)
(*                  its pack iff no file location matches; to_packs lists   *)
(*                  the packs with at least one blob to read)               *)
(*   repack       : the packs prune decided to repack (all of them are read) *)
(*   repair-index : the packs whose header is read (not indexed / read-all) *)
(* Steps: Plan -> WarmUp (one request per listed pack) -> Read* -> Done.    *)
(* WarmRule selects how restore derives its warm-up list:                   *)
(*   "any"   - packs with at least one blob to read       (the library)     *)
(*   "first" - the pack's first blob decides              (a plausible      *)
(*             dedup-before-filter slip; shows WarmBeforeRead can fail)     *)
(***************************************************************************)
EXTENDS Integers, Sequences, FiniteSets, TLC

CONSTANTS Pack, MaxBlobs, MaxCmds, WarmRule

VARIABLES warm,      \* packs currently readable in the cold store
          phase,     \* "idle" | "warming" | "reading"
          plan,      \* [Pack -> Seq(BOOLEAN)] : TRUE = the blob must be read from the pack
          todo,      \* packs still to warm up / still to read
          ncmds, bad
vars == <<warm, phase, plan, todo, ncmds, bad>>

Plans == [Pack -> UNION {[1..n -> BOOLEAN] : n \in 0..MaxBlobs}]
NeedsRead(pl, p) == \E i \in DOMAIN pl[p] : pl[p][i]
ToPacks(pl) == IF WarmRule = "any" THEN {p \in Pack : NeedsRead(pl, p)}
               ELSE {p \in Pack : Len(pl[p]) > 0 /\ pl[p][1]}

Init == warm = {} /\ phase = "idle" /\ plan = [p \in Pack |-> <<>>] /\ todo = {} /\ ncmds = 0 /\ bad = {}

\* restore over some existing destination: any combination of matching / outdated blobs
StartRestore(pl) == /\ phase = "idle" /\ ncmds < MaxCmds /\ ncmds' = ncmds + 1
                    /\ plan' = pl /\ todo' = ToPacks(pl) /\ phase' = "warming" /\ UNCHANGED <<warm, bad>>
\* prune repack / repair-index: every listed pack is read completely
StartWhole(ps) == /\ phase = "idle" /\ ncmds < MaxCmds /\ ncmds' = ncmds + 1
                  /\ plan' = [p \in Pack |-> IF p \in ps THEN <<TRUE>> ELSE <<>>]
                  /\ todo' = ps /\ phase' = "warming" /\ UNCHANGED <<warm, bad>>
WarmOne(p) == /\ phase = "warming" /\ p \in todo /\ warm' = warm \cup {p} /\ todo' = todo \ {p}
              /\ UNCHANGED <<phase, plan, ncmds, bad>>
\* warm_up_wait returned: start reading
BeginRead == /\ phase = "warming" /\ todo = {} /\ phase' = "reading"
             /\ todo' = {p \in Pack : NeedsRead(plan, p)} /\ UNCHANGED <<warm, plan, ncmds, bad>>
ReadOne(p) == /\ phase = "reading" /\ p \in todo /\ todo' = todo \ {p}
              /\ bad' = (IF p \in warm THEN bad ELSE bad \cup {p})
              /\ UNCHANGED <<warm, phase, plan, ncmds>>
Done == /\ phase = "reading" /\ todo = {} /\ phase' = "idle" /\ UNCHANGED <<warm, plan, todo, ncmds, bad>>
\* the cold store re-freezes files between commands
CoolDown == /\ phase = "idle" /\ warm # {} /\ warm' = {} /\ UNCHANGED <<phase, plan, todo, ncmds, bad>>

Next == \/ \E pl \in Plans : StartRestore(pl)
        \/ \E ps \in SUBSET Pack : StartWhole(ps)
        \/ \E p \in Pack : WarmOne(p) \/ ReadOne(p)
        \/ BeginRead \/ Done \/ CoolDown
Spec == Init /\ [][Next]_vars

WarmBeforeRead == bad = {}
\* nothing is warmed up that the command does not read (warm-ups cost money)
NoNeedlessWarmUp == phase = "warming" => \A p \in todo : NeedsRead(plan, p)
=============================================================================
