------------------------------- MODULE MCRepo -------------------------------
EXTENDS Repo

\* two versions sharing a data blob; v3 adds a tree and a data blob with the SAME id ("x"),
\* the typed-identity case of C07/C01
NeedsA == [v \in {"v1", "v2"} |->
            IF v = "v1" THEN {<<"tree", "t1">>, <<"data", "d1">>, <<"data", "d2">>}
                        ELSE {<<"tree", "t2">>, <<"data", "d2">>, <<"data", "d3">>}]
NeedsB == [v \in {"v1", "v2"} |->
            IF v = "v1" THEN {<<"tree", "t1">>, <<"data", "d1">>}
                        ELSE {<<"tree", "t2">>, <<"data", "d1">>, <<"data", "d2">>}]
NeedsCollide == [v \in {"v1"} |-> {<<"tree", "r">>, <<"tree", "x">>, <<"data", "x">>}]

View == <<packs, idx, snaps, now, nextp, nexti, ncmd, loc>>

\* behaviours for replay on the real code: one history per distinct quiescent end state
EmitHist == (Running = {} /\ ncmd = MaxCmds) => PrintT(<<"REPLAY", hist>>)

\* quiescent: no command running
Quiescent == Running = {}
=============================================================================
