------------------------------- MODULE MCRepo -------------------------------
EXTENDS Repo

\* two versions sharing a data blob; v3 adds a tree and a data blob with the SAME id ("x"),
\* the typed-identity case of C07/C01
NeedsA == [v \in {"v1", "v2"} |->
            IF v = "v1" THEN {<<"tree", "t1">>, <<"data", "d1">>, <<"data", "d2">>}
                        ELSE {<<"tree", "t2">>, <<"data", "d2">>, <<"data", "d3">>}]
NeedsB == [v \in {"v1", "v2"} |->
            IF v = "v1" THEN {<<"tree", "t1">>, <<"data", "d1">>}
                        ELSE {<<"tree", "t2">>, <<"data", "d1">>, <<"data", "d2">>}]
NeedsCollide == [v \in {"v1"} |-> {<<"tree", "r">>, <<"tree", "x">>, <<"data", "x">>}]

\* derived snapshots: m is the merge of v1 and v2 (its own root tree, the data of both)
NeedsDerive == [v \in {"v1", "v2", "m"} |->
                 CASE v = "v1" -> {<<"tree", "t1">>, <<"data", "d1">>}
                   [] v = "v2" -> {<<"tree", "t2">>, <<"data", "d1">>, <<"data", "d2">>}
                   [] OTHER -> {<<"tree", "tm">>, <<"tree", "t2">>, <<"data", "d1">>, <<"data", "d2">>}]
NeedsDerive1 == [v \in {"v1", "m"} |-> IF v = "v1" THEN {<<"tree", "t1">>, <<"data", "d1">>} ELSE {<<"tree", "tm">>, <<"data", "d1">>}]
DeriveM1 == [v \in Version |-> IF v = "m" THEN {"v1"} ELSE {}]
NoDerive == [v \in Version |-> {}]
DeriveM == [v \in Version |-> IF v = "m" THEN {"v1", "v2"} ELSE {}]

View == <<packs, idx, snaps, now, nextp, nexti, ncmd, loc>>

\* behaviours for replay on the real code: one history per distinct quiescent end state
EmitHist == (Running = {} /\ ncmd = MaxCmds) => PrintT(<<"REPLAY", hist>>)

\* quiescent: no command running
Quiescent == Running = {}
=============================================================================
