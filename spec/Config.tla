------------------------------- MODULE Config -------------------------------
(***************************************************************************)
(* C18: configuration options as partial assignments to the fields of the *)
(* repository configuration.  The module (a) generates the option grid -  *)
(* every single option with every value of its domain, and every pair of  *)
(* options inside the chunker group and inside the pack-size group - and   *)
(* (b) states the formulas the trace module evaluates on real outcomes.    *)
(* Values are strings (sizes exceed 32 bits); "unset" = option not named.  *)
(***************************************************************************)
EXTENDS Integers, Sequences, FiniteSets, TLC

Fields == {"version", "chunker", "chunk_size", "chunk_min_size", "chunk_max_size", "compression", "append_only",
           "treepack_size", "treepack_growfactor", "treepack_size_limit",
           "datapack_size", "datapack_growfactor", "datapack_size_limit",
           "min_packsize_tolerate_percent", "max_packsize_tolerate_percent", "extra_verify"}

Sizes == {"0", "1", "63", "64", "65", "100", "4096", "65536", "1048576", "4294967295", "4294967296", "1099511627776"}

Domain(f) ==
  CASE f = "version"     -> {"0", "1", "2", "3"}
    [] f = "chunker"     -> {"rabin", "fixed_size"}
    [] f \in {"chunk_size", "chunk_min_size", "chunk_max_size"} -> Sizes
    [] f = "compression" -> {"-131073", "-131072", "-7", "0", "1", "19", "22", "23"}
    [] f \in {"append_only", "extra_verify"} -> {"true", "false"}
    [] f \in {"treepack_size", "datapack_size", "treepack_size_limit", "datapack_size_limit"} -> Sizes
    [] f \in {"treepack_growfactor", "datapack_growfactor"} -> {"0", "1", "32", "65536", "4294967295"}
    [] f = "min_packsize_tolerate_percent" -> {"0", "30", "100", "101"}
    [] f = "max_packsize_tolerate_percent" -> {"0", "1", "99", "100", "200"}
    [] OTHER -> {}

ChunkGroup == {"chunker", "chunk_size", "chunk_min_size", "chunk_max_size"}
PackGroup  == {"treepack_size", "treepack_growfactor", "treepack_size_limit", "datapack_size", "datapack_growfactor", "datapack_size_limit"}

Unset == [f \in Fields |-> "unset"]
Named(o) == {f \in Fields : o[f] # "unset"}

(***************************************************************************)
(* Formulas over one real outcome r = [opts, before, result, after,       *)
(* wrote, smoke] (before/after: stored configuration read back by the      *)
(* independent decoder, "absent" when none is stored).                      *)
(***************************************************************************)
Absent(c) == c["version"] = "absent"
Frame(r) == r.result = "ok" /\ ~Absent(r.before) =>
              \A f \in Fields \ {g \in Fields : g \in DOMAIN r.opts} : r.after[f] = r.before[f]
Downgrade(r) == ~Absent(r.before) /\ "version" \in DOMAIN r.opts
                  /\ r.opts["version"] \in {"0", "1"} /\ r.before["version"] = "2"
NoDowngrade(r) == Downgrade(r) => r.result = "err"
Untouched(r) == r.result # "ok" => (r.after = r.before /\ ~r.wrote)
AcceptedWorks(r) == r.result = "ok" => r.smoke = "ok"
NoPanic(r) == r.result # "panic" /\ r.smokeclass # "panic"
=============================================================================
