SPECIFICATION Spec
CONSTANTS
  NPacks = 2
  Emitting = TRUE
INVARIANTS Emit
CHECK_DEADLOCK FALSE
