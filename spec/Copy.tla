-------------------------------- MODULE Copy --------------------------------
(***************************************************************************)
(* C12, first clause: commands/copy.rs as a four-step algorithm over the    *)
(* abstract content of two repositories.                                    *)
(*                                                                          *)
(* Source: a closed forest.  Tree i may only refer to sub-trees j < i, so   *)
(* every choice of `sub` is acyclic.  Tree ids and data ids are drawn from  *)
(* the same id space: the same id may name a tree blob and a data blob (a   *)
(* file whose content is the serialisation of a directory).                 *)
(* Destination: ANY index - in particular one that still lists a tree whose *)
(* children are gone (forget + prune without repacking keeps partly used    *)
(* packs), or the tree but not the data blob of a colliding id.             *)
(*                                                                          *)
(*  Collect   walk the source trees of the snapshots (TreeStreamerOnce      *)
(*            visits the whole source closure), keep what the destination   *)
(*            index does not have - typed                                   *)
(*  CopyData  write the data blobs through the shared indexer               *)
(*  CopyTrees write the tree blobs through the same indexer                 *)
(*  Save      write the snapshot files                                      *)
(* Walk = "source" (the library) | "skip-known-roots" (do not walk a         *)
(* snapshot whose root tree the destination lists).                          *)
(* IndexerTyped = TRUE (the library: (type, id)) | FALSE (id alone).         *)
(***************************************************************************)
EXTENDS Integers, FiniteSets, TLC

CONSTANTS N, MaxDat, Walk, IndexerTyped

Id == 1..N
VARIABLES isTree, isData, sub, dat, roots,     \* the source (constant after Init)
          dT, dD,                              \* destination index: tree ids, data ids
          dSnaps, pc, tIds, dIds, seen         \* seen: the shared indexer's "already written" set
vars == <<isTree, isData, sub, dat, roots, dT, dD, dSnaps, pc, tIds, dIds, seen>>

RECURSIVE Closure(_, _)
Closure(ts, s) == LET new == (UNION {s[t] : t \in ts}) \ ts IN IF new = {} THEN ts ELSE Closure(ts \cup new, s)

Init ==
  /\ isTree \in SUBSET Id /\ isData \in SUBSET Id /\ isTree # {} /\ isTree \cup isData = Id
  /\ sub \in [isTree -> SUBSET isTree] /\ \A t \in isTree : \A u \in sub[t] : u < t
  /\ dat \in [isTree -> {s \in SUBSET isData : Cardinality(s) <= MaxDat}]
  /\ roots \in (SUBSET isTree) \ {{}}
  /\ dT \in SUBSET isTree /\ dD \in SUBSET isData
  /\ dSnaps = {} /\ pc = "collect" /\ tIds = {} /\ dIds = {} /\ seen = {}

Walked == IF Walk = "source" THEN Closure(roots, sub) ELSE Closure({r \in roots : r \notin dT}, sub)

Collect == /\ pc = "collect" /\ pc' = "data"
           /\ tIds' = {t \in Walked : t \notin dT}
           /\ dIds' = {d \in UNION {dat[t] : t \in Walked} : d \notin dD}
           /\ UNCHANGED <<isTree, isData, sub, dat, roots, dT, dD, dSnaps, seen>>
Mark(tp, id) == IF IndexerTyped THEN <<tp, id>> ELSE <<"any", id>>
CopyData == /\ pc = "data" /\ pc' = "trees"
            /\ dD' = dD \cup {d \in dIds : Mark("data", d) \notin seen}
            /\ seen' = seen \cup {Mark("data", d) : d \in dIds}
            /\ UNCHANGED <<isTree, isData, sub, dat, roots, dT, dSnaps, tIds, dIds>>
CopyTrees == /\ pc = "trees" /\ pc' = "save"
             /\ dT' = dT \cup {t \in tIds : Mark("tree", t) \notin seen}
             /\ seen' = seen \cup {Mark("tree", t) : t \in tIds}
             /\ UNCHANGED <<isTree, isData, sub, dat, roots, dD, dSnaps, tIds, dIds>>
Save == /\ pc = "save" /\ pc' = "done" /\ dSnaps' = roots
        /\ UNCHANGED <<isTree, isData, sub, dat, roots, dT, dD, tIds, dIds, seen>>
Next == Collect \/ CopyData \/ CopyTrees \/ Save
Spec == Init /\ [][Next]_vars

\* every snapshot the destination lists is complete there: all its trees and all their data are indexed, typed
Complete == \A r \in dSnaps : LET c == Closure({r}, sub) IN c \subseteq dT /\ (UNION {dat[t] : t \in c}) \subseteq dD
\* nothing the destination already had is written again
NoRewrite == pc = "data" => tIds \cap dT = {} /\ dIds \cap dD = {}
\* blobs become visible before the snapshot that needs them
BlobsFirst == dSnaps # {} => pc = "done"
=============================================================================
