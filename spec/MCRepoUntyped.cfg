SPECIFICATION Spec
CONSTANTS
  Proc = {p1}
  BackupProcs = {p1}
  PruneProcs = {p1}
  Version = {"v1"}
  Needs <- NeedsCollide
  KD = 1
  MaxTime = 2
  MaxPacks = 5
  MaxCmds = 3
  Concurrent = FALSE
  AllowInstant = TRUE
  AppendOnly = FALSE
  AllowDamage = FALSE
  AllowCrash = TRUE
  AllowEarly = FALSE
  TickInPrune = TRUE
  UntypedDedup = TRUE
  DeriveFrom <- NoDerive
  DeriveForget = FALSE
  PartialFlush = FALSE
  SnapFirst = FALSE
VIEW View
INVARIANTS AllReadable
CHECK_DEADLOCK FALSE
