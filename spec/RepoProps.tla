----------------------------- MODULE RepoProps -----------------------------
(***************************************************************************)
(* Layer A: the abstract repository state and the property formulas that  *)
(* the model-checking instances and the trace-validation instances share. *)
(*                                                                         *)
(*   packs : [pack -> set of typed blobs]     pack files present           *)
(*   idx   : [index file -> set of entries]   entry = [p, blobs, mark, t]  *)
(*   snaps : [snapshot -> set of typed blobs] what each visible snapshot   *)
(*                                            needs (closure of its tree)  *)
(* A typed blob is <<type, id>> with type "tree" or "data": identity is   *)
(* the pair, never the id alone.                                           *)
(***************************************************************************)
EXTENDS Integers, FiniteSets

CONSTANT packs, idx, snaps      \* instantiated WITH the variables of the using module

Entries        == UNION {idx[i] : i \in DOMAIN idx}
Present(e)     == e.p \in DOMAIN packs
Holds(p, b)    == p \in DOMAIN packs /\ b \in packs[p]

\* usable through the index: listed by an unmarked entry of a pack that is there and holds it
Indexed == {b \in UNION {e.blobs : e \in Entries} :
               \E e \in Entries : ~e.mark /\ b \in e.blobs /\ Holds(e.p, b)}
\* only in packs marked for deletion (still there): recoverable by the next prune
Parked  == {b \in UNION {e.blobs : e \in Entries} :
               \E e \in Entries : e.mark /\ b \in e.blobs /\ Holds(e.p, b)}

Readable(s)    == snaps[s] \subseteq Indexed
Recoverable(s) == snaps[s] \subseteq (Indexed \cup Parked)
Unreadable     == {s \in DOMAIN snaps : ~Readable(s)}
Unrecoverable  == {s \in DOMAIN snaps : ~Recoverable(s)}
AllReadable    == Unreadable = {}
AllRecoverable == Unrecoverable = {}

\* an unmarked entry whose pack is gone makes lookups through it fail
Dangling == {e \in Entries : ~e.mark /\ ~Present(e)}

Used == UNION {snaps[s] : s \in DOMAIN snaps}
\* after a completed prune no used blob is available only in a marked pack
NotBroughtBack == (Used \cap Parked) \ Indexed

\* packs on disk that no index entry mentions
Orphans == {p \in DOMAIN packs : \A e \in Entries : e.p # p}
=============================================================================
