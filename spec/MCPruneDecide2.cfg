SPECIFICATION Spec
CONSTANTS
  NPacks = 2
  Emitting = FALSE
INVARIANTS SafeI TimelyI ThriftyI AccountedI
CHECK_DEADLOCK FALSE
