------------------------------ MODULE MCHotCold ------------------------------
EXTENDS HotCold
KindMC == [k \in {"i1", "t1", "d1"} |-> IF k = "i1" THEN "meta" ELSE IF k = "t1" THEN "treepack" ELSE "datapack"]
=============================================================================
