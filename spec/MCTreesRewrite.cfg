SPECIFICATION Spec
CONSTANTS
  Name = {"a", "b"}
  MT = {1, 2}
  Depth = 2
  Mode = "rewrite"
INVARIANTS Sane MergeOK RewriteOK RepairOK
CHECK_DEADLOCK FALSE
