SPECIFICATION Spec
CONSTANTS
  CheckIndex = FALSE
  CheckType = TRUE
  NParents = 1
INVARIANTS Equal Present ReadIfMissing
CHECK_DEADLOCK FALSE
