SPECIFICATION Spec
CONSTANTS
  Key = {"i1", "t1", "d1"}
  Kind <- KindMC
  Value = {1}
  MaxOps = 4
  WriteOrder = "hot-first"
  RemoveOrder = "cold-first"
INVARIANTS HotComplete NoDataInHot
CHECK_DEADLOCK FALSE
