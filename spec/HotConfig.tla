------------------------------ MODULE HotConfig ------------------------------
(***************************************************************************)
(* C16 ("all operations give the same results as on a single store") for   *)
(* the one file that is overwritten in place: the configuration.            *)
(* commands/config.rs save_config writes the new configuration to the cold  *)
(* store and then (save_config_hot) to the hot store; handles opened later  *)
(* read the hot copy.  init writes both the same way.                       *)
(* HotRule = "overwrite"     (the library)                                  *)
(*           "keep-existing" (save_config_hot leaves an existing hot config *)
(*                            alone - looks like making init idempotent)    *)
(***************************************************************************)
EXTENDS Integers, TLC
CONSTANTS MaxVersion, HotRule
VARIABLES cold, hot, pend, cut, n
vars == <<cold, hot, pend, cut, n>>
\* cold / hot: version of the stored configuration (0 = none); pend: version still to be written to hot; cut: some change
\* was interrupted between its two writes and no complete change happened since

Init == cold = 0 /\ hot = 0 /\ pend = 0 /\ cut = FALSE /\ n = 0
\* init or a configuration change: first half
Change == /\ pend = 0 /\ n < MaxVersion /\ n' = n + 1 /\ cold' = n + 1 /\ pend' = n + 1 /\ UNCHANGED <<hot, cut>>
\* second half
SaveHot == /\ pend # 0
           /\ hot' = IF HotRule = "overwrite" \/ hot = 0 THEN pend ELSE hot
           /\ pend' = 0 /\ cut' = FALSE /\ UNCHANGED <<cold, n>>
Interrupt == pend # 0 /\ pend' = 0 /\ cut' = TRUE /\ UNCHANGED <<cold, hot, n>>
Next == Change \/ SaveHot \/ Interrupt
Spec == Init /\ [][Next]_vars

\* what a freshly opened handle works with is what the single-store twin would work with
SeenIsCurrent == (pend = 0 /\ ~cut) => hot = cold
\* the hot copy never runs ahead of the cold one
HotNotAhead == hot <= cold
=============================================================================
