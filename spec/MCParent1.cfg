SPECIFICATION Spec
CONSTANTS
  CheckIndex = TRUE
  CheckType = TRUE
  NParents = 1
INVARIANTS Equal Present ReadIfMissing
CHECK_DEADLOCK FALSE
