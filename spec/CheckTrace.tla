----------------------------- MODULE CheckTrace -----------------------------
(***************************************************************************)
(* C05 trace validation: one record per (repository, stored file, fault):  *)
(* the verdict of the real check --read-data and the result of really       *)
(* reading back every snapshot visible in the damaged repository.           *)
(*   Sound : verdict = "clean"  =>  every snapshot read back correctly      *)
(* (for undamaged repositories and for every single fault alike).           *)
(***************************************************************************)
EXTENDS Integers, Sequences, FiniteSets, TLC, Json, IOUtils

Rec == ndJsonDeserialize(IOEnv.TRACE)
VARIABLE l
Init == l = 1
Next == l < Len(Rec) /\ l' = l + 1
Spec == Init /\ [][Next]_l

NotOK(r) == {s \in DOMAIN r.rest : r.rest[s] # "ok"}
Verdict(r) ==
  (IF r.verdict = "clean" /\ NotOK(r) # {} THEN {<<"Sound", r.tpe, r.fault, NotOK(r)>>} ELSE {})
  \cup (IF r.verdict = "panic" THEN {<<"CheckPanics", r.tpe, r.fault, r.msg>>} ELSE {})
  \cup (IF r.fault = "none" /\ r.verdict # "clean" THEN {<<"UndamagedNotClean", r.msg>>} ELSE {})
  \cup {<<"ReadPanics", s>> : s \in {x \in DOMAIN r.rest : r.rest[x] = "panic"}}

Conforms == Verdict(Rec[l]) = {} \/ PrintT(<<"NONCONF", l, Rec[l].id, Verdict(Rec[l])>>)
AllConsumed == TLCGet("stats").diameter = Len(Rec)
                 \/ PrintT(<<"TOOLERR", "trace not consumed", TLCGet("stats").diameter, Len(Rec)>>)
=============================================================================
