----------------------------- MODULE PruneDecide -----------------------------
(***************************************************************************)
(* The planning half of prune (commands/prune.rs: count_used_blobs, check,  *)
(* PackInfo::from_pack, decide_packs, decide_repack) transcribed as a pure   *)
(* function of a configuration                                              *)
(*   c.packs : Seq of [tpe : "tree"|"data", blobs : Seq(id), mark : BOOLEAN, *)
(*                     age : "none"|"old"|"young"]   (index order)           *)
(*   c.used  : ids the snapshots need                                        *)
(*   c.opt   : [keepPack, keepDelete, cacheableOnly, uncompressed, all,      *)
(*              noResize : BOOLEAN, lim : "all"|"none"|"unusedok"]           *)
(* Times: now = T; young = T-10, old = T-1000; keep-pack / keep-delete are   *)
(* 100 s when the flag is set, else 0.  Every blob has length 1; every pack  *)
(* is far smaller than the target pack size (so it is "too small") and is    *)
(* uncompressed.  lim: "all" = max-repack unlimited, max-unused 0;           *)
(* "none" = max-repack 0; "unusedok" = both unlimited.                       *)
(*                                                                           *)
(* Todo(c) is the sequence of decisions, or <<"error">> when a used blob is  *)
(* in no pack.  The lemmas below are what the storage-level model (Repo.tla  *)
(* PDecide: "any safe decision") assumes of the planner.                     *)
(***************************************************************************)
EXTENDS Integers, Sequences, FiniteSets, TLC

Range(s) == {s[i] : i \in DOMAIN s}
Idx(c) == DOMAIN c.packs
Occ(c, b) == LET RECURSIVE N(_, _)
                 N(i, j) == IF i > Len(c.packs) THEN 0
                            ELSE IF j > Len(c.packs[i].blobs) THEN N(i + 1, 1)
                            ELSE (IF c.packs[i].blobs[j] = b THEN 1 ELSE 0) + N(i, j + 1)
             IN N(1, 1)
Count0(c) == [b \in c.used |-> Occ(c, b)]
Missing(c) == {b \in c.used : Occ(c, b) = 0}

\* marked packs first, each group in index order
RECURSIVE Filter(_, _, _)
Filter(c, i, m) == IF i > Len(c.packs) THEN <<>>
                   ELSE (IF c.packs[i].mark = m THEN <<i>> ELSE <<>>) \o Filter(c, i + 1, m)
Order(c) == Filter(c, 1, TRUE) \o Filter(c, 1, FALSE)

Live(cnt, b) == b \in DOMAIN cnt /\ cnt[b] # 0
\* PackInfo::from_pack: returns [u, n, cnt]
FromPack(bl, cnt0) ==
  LET \* first loop: up to the first blob whose counter drops to zero
      RECURSIVE Scan(_, _, _)
      Scan(i, cnt, n) ==
        IF i > Len(bl) THEN [found |-> 0, cnt |-> cnt, n |-> n]
        ELSE IF ~Live(cnt, bl[i]) THEN Scan(i + 1, cnt, n + 1)
        ELSE LET c2 == [cnt EXCEPT ![bl[i]] = @ - 1] IN
             IF c2[bl[i]] = 0 THEN [found |-> i, cnt |-> c2, n |-> n] ELSE Scan(i + 1, c2, n + 1)
      s == Scan(1, cnt0, 0)
      \* second loop: blobs before the first needed one that are generally needed become used here
      RECURSIVE Before(_, _, _, _)
      Before(i, cnt, u, n) ==
        IF i >= s.found THEN [cnt |-> cnt, u |-> u, n |-> n]
        ELSE IF Live(cnt, bl[i]) THEN Before(i + 1, [cnt EXCEPT ![bl[i]] = 0], u + 1, n - 1)
        ELSE Before(i + 1, cnt, u, n)
      \* third loop: the remaining blobs
      RECURSIVE After(_, _, _, _)
      After(i, cnt, u, n) ==
        IF i > Len(bl) THEN [cnt |-> cnt, u |-> u, n |-> n]
        ELSE IF Live(cnt, bl[i]) THEN After(i + 1, [cnt EXCEPT ![bl[i]] = 0], u + 1, n)
        ELSE After(i + 1, cnt, u, n + 1)
  IN IF s.found = 0 THEN [u |-> 0, n |-> s.n, cnt |-> s.cnt]
     ELSE LET b == Before(1, s.cnt, 1, s.n) IN After(s.found + 1, b.cnt, b.u, b.n)

\* the pack infos in processing order: function pack index -> [u, n]
Infos(c) ==
  LET ord == Order(c)
      RECURSIVE Go(_, _, _)
      Go(k, cnt, acc) ==
        IF k > Len(ord) THEN acc
        ELSE LET r == FromPack(c.packs[ord[k]].blobs, cnt) IN
             Go(k + 1, r.cnt, [x \in DOMAIN acc \cup {ord[k]} |-> IF x = ord[k] THEN [u |-> r.u, n |-> r.n] ELSE acc[x]])
  IN Go(1, Count0(c), [x \in {} |-> 0])

TooYoung(c, p) == p.age = "young" /\ c.opt.keepPack
\* decide_packs: a decision or a repack candidate with its reason
First(c, i) ==
  LET p == c.packs[i] pi == Infos(c)[i]
      keepUncacheable == c.opt.cacheableOnly /\ p.tpe = "data"
  IN IF ~p.mark THEN
       IF pi.u = 0 THEN (IF TooYoung(c, p) THEN "Keep" ELSE "MarkDelete")
       ELSE IF pi.n = 0 THEN
              (IF TooYoung(c, p) \/ keepUncacheable THEN "Keep"
               ELSE IF c.opt.uncompressed \/ c.opt.all THEN "cand:ToCompress"
               ELSE "cand:SizeMismatch")            \* every pack here is smaller than the target size
       ELSE (IF TooYoung(c, p) \/ keepUncacheable THEN "Keep" ELSE "cand:PartlyUsed")
     ELSE IF pi.u > 0 THEN "Recover"
     ELSE CASE p.age = "none" -> "KeepMarkedAndCorrect"
            [] p.age = "old" -> "Delete"
            [] OTHER -> IF c.opt.keepDelete THEN "KeepMarked" ELSE "Delete"

\* decide_repack
Second(c, i) ==
  LET f == First(c, i) p == c.packs[i]
      unusedUnlimited == c.opt.lim = "unusedok" /\ ~(c.opt.uncompressed \/ c.opt.all)
      Direct(j) ==   \* candidates that are repacked in the first loop
        LET g == First(c, j) IN
        /\ g \in {"cand:ToCompress", "cand:PartlyUsed"}
        /\ c.opt.lim # "none"
        /\ ~(unusedUnlimited /\ g = "cand:PartlyUsed" /\ c.packs[j].tpe = "data")
      doRepack(t) == \E j \in Idx(c) : c.packs[j].tpe = t /\ Direct(j)
  IN IF f \notin {"cand:ToCompress", "cand:PartlyUsed", "cand:SizeMismatch"} THEN f
     ELSE IF c.opt.lim = "none" THEN "Keep"
     ELSE IF f = "cand:SizeMismatch" THEN (IF c.opt.noResize THEN "Keep" ELSE IF doRepack(p.tpe) THEN "Repack" ELSE "Keep")
     ELSE IF Direct(i) THEN "Repack" ELSE "Keep"

Todo(c) == IF Missing(c) # {} THEN <<"error">> ELSE [i \in Idx(c) |-> Second(c, i)]

\* ---------------------------------------------------------------- lemmas
Holds(c, i, b) == b \in Range(c.packs[i].blobs)
\* every needed blob stays available through a pack that is kept in (or brought back to) the index
Safe(c) == Missing(c) = {} =>
  \A b \in c.used : \E i \in Idx(c) : Holds(c, i, b) /\ Todo(c)[i] \in {"Keep", "Repack", "Recover"}
\* nothing is removed before its time, nothing needed is marked
Timely(c) == Missing(c) = {} =>
  \A i \in Idx(c) :
     /\ Todo(c)[i] = "Delete" => c.packs[i].mark /\ (c.packs[i].age = "old" \/ ~c.opt.keepDelete) /\ c.packs[i].age # "none"
     /\ Todo(c)[i] = "MarkDelete" => ~c.packs[i].mark /\ ~TooYoung(c, c.packs[i])
     /\ Todo(c)[i] \in {"Recover", "KeepMarked", "KeepMarkedAndCorrect", "Delete"} => c.packs[i].mark
\* a marked pack all of whose needed blobs also live in unmarked packs is not brought back
Thrifty(c) == Missing(c) = {} =>
  \A i \in Idx(c) : Todo(c)[i] = "Recover" =>
     \E b \in c.used : Holds(c, i, b) /\ ~\E j \in Idx(c) : ~c.packs[j].mark /\ Holds(c, j, b)
\* each needed blob is accounted as used in some pack (the per-pack numbers add up)
Accounted(c) == Missing(c) = {} =>
  \A i \in Idx(c) : Infos(c)[i].u + Infos(c)[i].n = Len(c.packs[i].blobs)
=============================================================================
