-------------------------------- MODULE Check --------------------------------
(***************************************************************************)
(* C05: check --read-data as an algorithm over an abstract repository with *)
(* ONE damaged file, against what restore needs.                            *)
(*                                                                          *)
(* Repository (undamaged):                                                   *)
(*   snapshots  s1 -> root tree r1 = { dir -> t1 },  t1 = { file -> <<d1>> } *)
(*              s2 -> root tree r2 = { file -> <<d3>> }                      *)
(*   packs      pr1 = <<r1>>   pr2 = <<r2>>      (root trees only, same layout)*)
(*              pt  = <<t1>>                      (sub-tree pack)            *)
(*              pd1 = <<d1, d2>>  pd2 = <<d3, d4>> (data; d2, d4 unused; same layout)*)
(*              pd1c = <<d1>>                     (a second copy of d1)      *)
(*              pu  = <<d5>>                      (no snapshot needs it)     *)
(*   one index file listing every pack, blob offsets contiguous.             *)
(* A blob is read through the index: window (offset, length) of the bytes    *)
(* stored under the pack's name.  If these are the bytes of a sibling pack   *)
(* with the same layout the window decrypts - to the sibling's blob.         *)
(*                                                                          *)
(* The stages of Verdict follow commands/check.rs:                           *)
(*   file hashes of snapshot/index files (VerifyFileHash), index readable,   *)
(*   check_packs (every indexed pack listed with the size the index implies),*)
(*   check_trees (walk what is actually read; every referenced id indexed;   *)
(*   collects the used packs: sub-tree and data packs, and - ReadRootPacks - *)
(*   the packs of the snapshots' root trees), read-data on the used packs    *)
(*   (pack hash = name, header = index, each blob decrypts and hashes to id).*)
(* ReadData / ReadRootPacks / VerifyFileHash = FALSE reproduce a check that  *)
(* skips the stage; each must violate Sound (the last two are the defects    *)
(* found in the library and fixed).                                          *)
(***************************************************************************)
EXTENDS Integers, Sequences, FiniteSets, TLC

CONSTANTS ReadData, ReadRootPacks, VerifyFileHash,
          ReadAllCopies   \* read-data reads every pack that holds a used blob, not only the copy its own lookup returned

VARIABLES checkPick, restorePick,       \* the copy of d1 the index of check / of restore resolves to
          kind, file, other, pos      \* the single fault: kind applied to file (swap: with `other`; blob faults: blob `pos`;
vars == <<kind, file, other, pos, checkPick, restorePick>>

Packs == {"pr1", "pr2", "pt", "pd1", "pd1c", "pd2", "pu"}
Snaps == {"s1", "s2"}
Files == Packs \cup Snaps \cup {"idx"}
Blobs == [p \in Packs |-> CASE p = "pr1" -> <<"r1">> [] p = "pr2" -> <<"r2">> [] p = "pt" -> <<"t1">>
                            [] p = "pd1" -> <<"d1", "d2">> [] p = "pd1c" -> <<"d1">>   \* d1 is stored twice
                            [] p = "pd2" -> <<"d3", "d4">> [] OTHER -> <<"d5">>]
SameLayout(p, q) == {p, q} \subseteq {"pr1", "pr2"} \/ {p, q} \subseteq {"pd1", "pd2"} \/ {p, q} \subseteq {"pd1c", "pu"} \/ p = q
Root == [s \in Snaps |-> IF s = "s1" THEN "r1" ELSE "r2"]
\* tree content: sub-trees and data blobs referenced
Sub  == [t \in {"r1", "r2", "t1"} |-> IF t = "r1" THEN {"t1"} ELSE {}]
Data == [t \in {"r1", "r2", "t1"} |-> CASE t = "t1" -> {"d1"} [] t = "r2" -> {"d3"} [] OTHER -> {}]
Holders(b) == {p \in Packs : \E i \in DOMAIN Blobs[p] : Blobs[p][i] = b}
\* which copy a lookup of d1 returns depends on the order the index files were loaded: `who` is "check" or "restore"
PackOfFor(b, who) == IF b = "d1" THEN (IF who = "check" THEN checkPick ELSE restorePick) ELSE CHOOSE p \in Holders(b) : TRUE
PosIn(p, b) == CHOOSE i \in DOMAIN Blobs[p] : Blobs[p][i] = b

Kinds == {"none", "remove", "truncate", "extend", "flip-blob", "flip-header", "flip-length", "flip-envelope", "swap",
          "drop-entry", "dup-entry"}
    \* index entry faults: entry `pos` of pack `other`)

Applicable ==
  CASE kind = "none" -> file = "idx" /\ other = "idx" /\ pos = 1
    [] kind \in {"remove", "truncate", "extend"} -> other = file /\ pos = 1
    [] kind = "flip-blob" -> file \in Packs /\ other = file /\ pos \in DOMAIN Blobs[file]
    [] kind \in {"flip-header", "flip-length"} -> file \in Packs /\ other = file /\ pos = 1
    [] kind = "flip-envelope" -> file \notin Packs /\ other = file /\ pos = 1
    [] kind = "swap" -> /\ other # file /\ pos = 1
                        /\ \/ {file, other} \subseteq Packs \/ {file, other} \subseteq Snaps
    [] kind = "drop-entry" -> file = "idx" /\ other \in Packs /\ pos \in DOMAIN Blobs[other]
    [] kind = "dup-entry" -> file = "idx" /\ other \in Packs /\ pos = 1
    [] OTHER -> FALSE

Init == /\ kind \in Kinds /\ file \in Files /\ other \in Files /\ pos \in 1 .. 2 /\ Applicable
        /\ checkPick \in {"pd1", "pd1c"} /\ restorePick \in {"pd1", "pd1c"}
Next == UNCHANGED vars
Spec == Init /\ [][Next]_vars

D(k, f) == kind = k /\ file = f
\* --- what is stored -------------------------------------------------------
Present(f) == ~D("remove", f)
SizeSame(p) == ~(D("truncate", p) \/ D("extend", p) \/ (D("swap", p) /\ ~SameLayout(p, other)))
Src(p) == IF D("swap", p) THEN other ELSE p           \* whose bytes are stored under the name p
BytesSame(p) == Present(p) /\ (file # p \/ kind \notin {"truncate", "extend", "flip-blob", "flip-header", "flip-length", "swap"})
\* window of blob i of pack p: the blob that comes out, or "err"
ReadBlob(p, i) ==
  IF ~Present(p) \/ D("truncate", p) THEN "err"                      \* truncation: cut taken before the first blob ends
  ELSE IF D("swap", p) /\ ~SameLayout(p, other) THEN "err"           \* window does not frame a message: MAC fails
  ELSE IF D("flip-blob", p) /\ pos = i THEN "err"
  ELSE Blobs[Src(p)][i]
Indexed(b) == ~(kind = "drop-entry" /\ Blobs[other][pos] = b)
\* reading blob b the way every command does: through the index
GetFor(b, who) == IF ~Indexed(b) THEN "err" ELSE LET p == PackOfFor(b, who) IN ReadBlob(p, PosIn(p, b))
Get(b) == GetFor(b, "check")

IndexReadable == Present("idx") /\ ~D("truncate", "idx") /\ ~D("extend", "idx") /\ ~D("flip-envelope", "idx")
SnapVisible(s) == Present(s)
SnapReadable(s) == ~D("truncate", s) /\ ~D("extend", s) /\ ~D("flip-envelope", s)
SnapContent(s) == IF D("swap", s) THEN other ELSE s   \* which snapshot's content the file s holds

\* --- restore ---------------------------------------------------------------
\* the trees and data really reached from snapshot file s; correct iff it is exactly s's own content
TreeOK(t) ==  \* reading tree id t gives t, and recursively everything below reads as itself
  LET RECURSIVE Ok(_)
      Ok(x) == GetFor(x, "restore") = x /\ (\A c \in Sub[x] : Ok(c)) /\ (\A d \in Data[x] : GetFor(d, "restore") = d)
  IN Ok(t)
Restorable(s) == SnapReadable(s) /\ SnapContent(s) = s /\ IndexReadable /\ TreeOK(Root[s])
AllRestorable == \A s \in Snaps : SnapVisible(s) => Restorable(s)

\* --- check -----------------------------------------------------------------
\* walk of what is actually read, starting at the tree id found in snapshot file s
Walked(s) ==   \* set of <<expected id, what came out>> for root and sub-trees
  LET r == Root[SnapContent(s)]
      got == Get(r)
  IN {<<r, got>>} \cup (IF got \in DOMAIN Sub THEN {<<c, Get(c)>> : c \in Sub[got]} ELSE {})
TreesRead(s) == {w[2] : w \in {x \in Walked(s) : x[2] # "err"}}
WalkError(s) ==
  \/ \E w \in Walked(s) : w[2] = "err"
  \/ \E t \in TreesRead(s) : (\E c \in Sub[t] : ~Indexed(c)) \/ (\E d \in Data[t] : ~Indexed(d))
Copies(b) == IF ReadAllCopies THEN Holders(b) ELSE {PackOfFor(b, "check")}
UsedPacks(s) ==
  UNION {UNION {Copies(c) : c \in Sub[t]} \cup UNION {Copies(d) : d \in Data[t]} : t \in TreesRead(s)}
  \cup (IF ReadRootPacks THEN Copies(Root[SnapContent(s)]) ELSE {})
PackReadError(p) == \* read-data on pack p: hash of the stored bytes against the name covers every byte
  ~Present(p) \/ ~BytesSame(p)

Verdict ==
  IF VerifyFileHash /\ kind = "swap" /\ file \in Snaps THEN "error"
  ELSE IF ~IndexReadable THEN "error"
  ELSE IF \E s \in Snaps : SnapVisible(s) /\ ~SnapReadable(s) THEN "error"
  ELSE IF \E p \in Packs : ~Present(p) \/ ~SizeSame(p) THEN "error"          \* check_packs
  ELSE IF kind = "drop-entry" THEN "error"                                      \* index-implied pack size changes
  ELSE IF \E s \in Snaps : SnapVisible(s) /\ WalkError(s) THEN "error"          \* check_trees
  ELSE IF ReadData /\ \E s \in Snaps : SnapVisible(s) /\ \E p \in UsedPacks(s) : PackReadError(p) THEN "error"
  ELSE "clean"

Sound == Verdict = "clean" => AllRestorable
\* for the record: damage the check stays silent about (unused regions, unreferenced packs, removed snapshots)
SilentDamage == kind # "none" /\ Verdict = "clean"
Undamaged == kind = "none" => Verdict = "clean" /\ AllRestorable
=============================================================================
