SPECIFICATION Spec
CONSTANTS
  ReadData = FALSE
  ReadRootPacks = TRUE
  VerifyFileHash = TRUE
  ReadAllCopies = TRUE
INVARIANTS Sound Undamaged
CHECK_DEADLOCK FALSE
