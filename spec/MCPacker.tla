------------------------------ MODULE MCPacker ------------------------------
EXTENDS Packer
\* a data blob and a tree blob share the id "x" (file content = serialisation of a directory); "a" is submitted twice
InputCollide == [t \in {"data", "tree"} |-> IF t = "data" THEN <<"a", "x", "a">> ELSE <<"x", "r">>]
InputBig     == [t \in {"data", "tree"} |-> IF t = "data" THEN <<"a", "x", "a", "b", "c", "x">> ELSE <<"x", "s", "r">>]
InputPlain   == [t \in {"data", "tree"} |-> IF t = "data" THEN <<"a", "b", "a", "c">> ELSE <<"s", "r">>]
=============================================================================
