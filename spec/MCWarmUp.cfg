SPECIFICATION Spec
CONSTANTS
  Pack = {p1, p2}
  MaxBlobs = 3
  MaxCmds = 2
  WarmRule = "any"
INVARIANTS WarmBeforeRead NoNeedlessWarmUp
CHECK_DEADLOCK FALSE
