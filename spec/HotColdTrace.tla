---------------------------- MODULE HotColdTrace ----------------------------
(***************************************************************************)
(* C16 trace validation: every operation on the hot and on the cold store  *)
(* (one linearised log) is an event.  After every event:                   *)
(*   HotComplete    - each key / snapshot / index / tree-pack file of the  *)
(*                    cold store is in the hot store with identical bytes, *)
(*   NoDataInHot    - the hot store holds no data pack,                    *)
(*   WarmBeforeRead - a cold file is read only after a warm-up request     *)
(*                    issued since it was written,                         *)
(* and, per history, the twin run on a single store gives the same results.*)
(* Between a `hdamage` event and the end of the next hot/cold repair the   *)
(* completeness formula is suspended; it must hold again afterwards.       *)
(***************************************************************************)
EXTENDS Integers, Sequences, FiniteSets, TLC, Json, IOUtils

Rec == ndJsonDeserialize(IOEnv.TRACE)

VARIABLES l, sc, cold, hot, warm, damaged, strict, viol
vars == <<l, sc, cold, hot, warm, damaged, strict, viol>>

Put(f, k, v) == [x \in DOMAIN f \cup {k} |-> IF x = k THEN v ELSE f[x]]
Drop(f, k) == [x \in DOMAIN f \ {k} |-> f[x]]
Empty == [x \in {} |-> 0]

Init == l = 0 /\ sc = "" /\ cold = Empty /\ hot = Empty /\ warm = {} /\ damaged = FALSE /\ strict = FALSE /\ viol = {}
Ev == Rec[l + 1]
Consume == l < Len(Rec) /\ l' = l + 1

Reset == /\ Ev.e = "reset" /\ sc' = Ev.id /\ cold' = Empty /\ hot' = Empty /\ warm' = {} /\ damaged' = FALSE
         /\ strict' = Ev.strict /\ viol' = {}

File(e) == [h |-> e.h, tpe |-> e.tpe, pk |-> e.pk]

Op ==
  /\ Ev.e = "op"
  /\ LET k == Ev.k IN
     CASE Ev.kind = "write" /\ Ev.ok /\ Ev.store = 0 ->
            /\ cold' = Put(cold, k, File(Ev)) /\ warm' = warm \ {k} /\ hot' = hot /\ viol' = {}
       [] Ev.kind = "write" /\ Ev.ok /\ Ev.store = 1 ->
            /\ hot' = Put(hot, k, File(Ev)) /\ UNCHANGED <<cold, warm>>
            /\ viol' = IF Ev.tpe = "pack" /\ Ev.pk = "data" THEN {<<"NoDataInHot", k>>} ELSE {}
       [] Ev.kind = "remove" /\ Ev.ok /\ Ev.store = 0 ->
            /\ cold' = (IF k \in DOMAIN cold THEN Drop(cold, k) ELSE cold) /\ warm' = warm \ {k} /\ hot' = hot /\ viol' = {}
       [] Ev.kind = "remove" /\ Ev.ok /\ Ev.store = 1 ->
            /\ hot' = (IF k \in DOMAIN hot THEN Drop(hot, k) ELSE hot) /\ UNCHANGED <<cold, warm>> /\ viol' = {}
       [] Ev.kind = "cool_down" /\ Ev.store = 0 ->      \* warm-ups do not outlive the command (or restore run) that asked for them
            /\ warm' = {} /\ UNCHANGED <<cold, hot>> /\ viol' = {}
       [] Ev.kind = "warm_up" /\ Ev.store = 0 ->
            /\ warm' = warm \cup {k} /\ UNCHANGED <<cold, hot>> /\ viol' = {}
       [] Ev.kind \in {"read_full", "read_partial"} /\ Ev.store = 0 ->
            /\ viol' = IF k \in DOMAIN cold /\ k \notin warm THEN {<<"WarmBeforeRead", k, Ev.tpe, Ev.proc>>} ELSE {}
            /\ UNCHANGED <<cold, hot, warm>>
       [] OTHER -> viol' = {} /\ UNCHANGED <<cold, hot, warm>>
  /\ UNCHANGED <<sc, damaged, strict>>

HDamage == /\ Ev.e = "hdamage"
           /\ hot' = (IF Ev.k \in DOMAIN hot THEN Drop(hot, Ev.k) ELSE hot)
           /\ damaged' = TRUE /\ viol' = {} /\ UNCHANGED <<sc, cold, warm, strict>>

Begin == Ev.e = "begin" /\ viol' = {} /\ UNCHANGED <<sc, cold, hot, warm, damaged, strict>>

End == /\ Ev.e = "end"
       /\ damaged' = (IF Ev.cmd = "repair_hotcold" /\ Ev.res = "ok" THEN FALSE ELSE damaged)
       /\ viol' = (IF Ev.res = "panic" THEN {<<"Panic", Ev.cmd, Ev.msg>>} ELSE {})
                  \cup (IF Ev.cmd = "repair_hotcold" /\ Ev.res # "ok" THEN {<<"RepairFailed", Ev.msg>>} ELSE {})
       /\ UNCHANGED <<sc, cold, hot, warm, strict>>

\* the same history on a single store: same result classes, same restore verdicts
Twin == /\ Ev.e = "twin"
        /\ viol' = {<<"Equivalent", i, Ev.hotcold[i], Ev.single[i]>> :
                      i \in {j \in DOMAIN Ev.hotcold : j \in DOMAIN Ev.single /\ Ev.hotcold[j] # Ev.single[j]}}
                   \cup (IF Len(Ev.hotcold) # Len(Ev.single) THEN {<<"Equivalent", "length">>} ELSE {})
        /\ UNCHANGED <<sc, cold, hot, warm, damaged, strict>>

Next == Consume /\ (Reset \/ Op \/ HDamage \/ Begin \/ End \/ Twin)
Spec == Init /\ [][Next]_vars

NeedsHot(f) == f.tpe \in {"key", "snapshot", "index"} \/ (f.tpe = "pack" /\ f.pk = "tree")
Incomplete == {k \in DOMAIN cold : NeedsHot(cold[k]) /\ ~(k \in DOMAIN hot /\ hot[k].h = cold[k].h)}

StepOK == viol = {} \/ PrintT(<<"NONCONF", l, sc, "step", viol>>)
StateOK == damaged \/ Incomplete = {} \/ PrintT(<<"NONCONF", l, sc, "state", {<<"HotComplete", Incomplete>>}>>)
Accepted == TLCGet("stats").diameter - 1 = Len(Rec)
              \/ PrintT(<<"TOOLERR", "trace not consumed", TLCGet("stats").diameter - 1, Len(Rec)>>)
=============================================================================
