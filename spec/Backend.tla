------------------------------ MODULE Backend ------------------------------
(***************************************************************************)
(* A storage back end as an exact map from keys (file type, id) to values *)
(* (property C20), with the directory back end's two-phase write: the     *)
(* content goes to a temporary file first (created, then filled) and      *)
(* becomes visible by one atomic publish step; a crash in between leaves  *)
(* only a temporary file, which no listing reports.                        *)
(* AtomicPublish = FALSE models the naive design (write straight to the   *)
(* final name); it is kept to show that ListedComplete can fail.           *)
(***************************************************************************)
EXTENDS Integers, FiniteSets, TLC

CONSTANTS Key, Value, MaxOps, AtomicPublish

VARIABLES store,   \* [subset of Key -> [v, complete]]: files under their final names
          tmp,     \* [subset of Key -> [v, complete]]: temporary files
          writing, \* keys with a write in progress
          nops
vars == <<store, tmp, writing, nops>>

Put(f, k, v) == [x \in DOMAIN f \cup {k} |-> IF x = k THEN v ELSE f[x]]
Drop(f, k) == [x \in DOMAIN f \ {k} |-> f[x]]
Empty == [x \in {} |-> 0]

Init == store = Empty /\ tmp = Empty /\ writing = {} /\ nops = 0

Create(k, v) == /\ nops < MaxOps /\ k \notin writing
                /\ IF AtomicPublish THEN tmp' = Put(tmp, k, [v |-> v, complete |-> FALSE]) /\ store' = store
                                    ELSE store' = Put(store, k, [v |-> v, complete |-> FALSE]) /\ tmp' = tmp
                /\ writing' = writing \cup {k} /\ nops' = nops + 1
Fill(k) == /\ k \in writing
           /\ IF AtomicPublish THEN /\ k \in DOMAIN tmp /\ ~tmp[k].complete
                                    /\ tmp' = [tmp EXCEPT ![k].complete = TRUE] /\ store' = store
                               ELSE /\ k \in DOMAIN store /\ ~store[k].complete
                                    /\ store' = [store EXCEPT ![k].complete = TRUE] /\ tmp' = tmp /\ TRUE
           /\ writing' = IF AtomicPublish THEN writing ELSE writing \ {k}
           /\ UNCHANGED nops
Publish(k) == /\ AtomicPublish /\ k \in writing /\ k \in DOMAIN tmp /\ tmp[k].complete
              /\ store' = Put(store, k, tmp[k]) /\ tmp' = Drop(tmp, k) /\ writing' = writing \ {k}
              /\ UNCHANGED nops
\* the writer dies at any point of a write
Crash(k) == /\ k \in writing /\ writing' = writing \ {k} /\ UNCHANGED <<store, tmp, nops>>
Remove(k) == /\ nops < MaxOps /\ k \in DOMAIN store /\ k \notin writing
             /\ store' = Drop(store, k) /\ nops' = nops + 1 /\ UNCHANGED <<tmp, writing>>

Next == \E k \in Key : (\E v \in Value : Create(k, v)) \/ Fill(k) \/ Publish(k) \/ Crash(k) \/ Remove(k)
Spec == Init /\ [][Next]_vars

\* observable results: temporary files are never listed
Listing == DOMAIN store
\* every listed file is complete, at every moment and after every interruption
ListedComplete == \A k \in Listing : store[k].complete
=============================================================================
