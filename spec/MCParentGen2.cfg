SPECIFICATION Spec
CONSTANTS
  CheckIndex = TRUE
  CheckType = TRUE
  NParents = 2
INVARIANTS Emit
CHECK_DEADLOCK FALSE
