SPECIFICATION Spec
CONSTANTS
  ReadData = TRUE
  ReadRootPacks = TRUE
  VerifyFileHash = TRUE
  ReadAllCopies = TRUE
INVARIANTS Sound Undamaged
CHECK_DEADLOCK FALSE
