SPECIFICATION Spec
CONSTANTS
  File = {f1, f2, f3}
  Fault = "damaged"
  Mismatch = "both-ways"
INVARIANTS ColdIntact
CHECK_DEADLOCK FALSE
