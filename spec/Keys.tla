-------------------------------- MODULE Keys --------------------------------
(***************************************************************************)
(* C04, access part: key files wrap the ONE master key under a password    *)
(* each (scrypt + the same sealed-message format).  A session is a handle   *)
(* obtained by Open(password) or OpenMaster(key); AddKey / RemoveKey go      *)
(* through a session.  The behaviours of this module (all sequences of at   *)
(* most MaxSteps operations) are replayed on the real repository, and the   *)
(* recorded results are validated against the same actions (KeysTrace).     *)
(*   OnlyRight  - Open(p) succeeds iff p is the password of a key file      *)
(*                present at that moment; OpenMaster(k) iff k is the master  *)
(*                key; nothing else yields a session.                        *)
(*   Access     - as long as a session exists, the key it was opened with    *)
(*                is still present (the key in use cannot be removed).       *)
(***************************************************************************)
EXTENDS Integers, Sequences, FiniteSets, TLC

CONSTANTS Pw,        \* passwords that may be added
          Wrong,     \* passwords that are never added
          MaxKeys, MaxSteps

VARIABLES keys,     \* set of [id, pw]: the key files
          next,     \* id of the next key file
          sess,     \* NoSess | MasterSess | id of the key the session was opened with
          hist      \* the operations so far with their results
vars == <<keys, next, sess, hist>>
NoSess == 0
MasterSess == -1

Ids == {k.id : k \in keys}
Matching(p) == {k.id : k \in {x \in keys : x.pw = p}}
Log(op) == hist' = Append(hist, op)

\* the repository is initialised with the first password; the initialising handle is the first session
Init == \E p \in Pw : keys = {[id |-> 1, pw |-> p]} /\ next = 2 /\ sess = 1 /\ hist = <<<<"init", p, "ok", 1>>>>

Open(p) ==
  IF Matching(p) # {}
  THEN \E k \in Matching(p) : sess' = k /\ Log(<<"open", p, "ok", k>>) /\ UNCHANGED <<keys, next>>
  ELSE Log(<<"open", p, "err", 0>>) /\ UNCHANGED <<keys, next, sess>>
OpenMaster(good) ==
  /\ Log(<<"openmaster", good, IF good THEN "ok" ELSE "err", 0>>)
  /\ sess' = (IF good THEN MasterSess ELSE sess) /\ UNCHANGED <<keys, next>>
AddKey(p) ==
  /\ sess # NoSess /\ Cardinality(keys) < MaxKeys
  /\ keys' = keys \cup {[id |-> next, pw |-> p]} /\ next' = next + 1
  /\ Log(<<"add", p, "ok", next>>) /\ UNCHANGED sess
RemoveKey(k) ==
  /\ sess # NoSess /\ k \in Ids
  /\ IF sess = k
     THEN Log(<<"remove", k, "err", k>>) /\ UNCHANGED <<keys, next, sess>>
     ELSE keys' = {x \in keys : x.id # k} /\ Log(<<"remove", k, "ok", k>>) /\ UNCHANGED <<next, sess>>
\* the handle is dropped (process ends)
Close == sess # NoSess /\ sess' = NoSess /\ Log(<<"close", 0, "ok", 0>>) /\ UNCHANGED <<keys, next>>

Next == /\ Len(hist) < MaxSteps
        /\ \/ \E p \in Pw \cup Wrong : Open(p)
           \/ \E g \in BOOLEAN : OpenMaster(g)
           \/ \E p \in Pw : AddKey(p)
           \/ \E k \in 1 .. MaxKeys + MaxSteps : RemoveKey(k)
           \/ Close
Spec == Init /\ [][Next]_vars

Access == sess \in {NoSess, MasterSess} \/ sess \in Ids
\* the last operation, if an Open, succeeded iff its password belonged to a key present before it
OnlyRight ==
  LET h == hist[Len(hist)] IN
  /\ h[1] = "open" /\ h[3] = "ok" => h[4] \in Ids /\ \E k \in keys : k.id = h[4] /\ k.pw = h[2]
  /\ h[1] = "open" /\ h[3] = "err" => Matching(h[2]) = {}
  /\ h[1] = "open" /\ h[2] \in Wrong => h[3] = "err"
Emit == Len(hist) = MaxSteps => PrintT(<<"REPLAY", hist>>)
=============================================================================
