SPECIFICATION Spec
CONSTANT MaxL = 3
INVARIANTS Consistent Emit
CHECK_DEADLOCK FALSE
