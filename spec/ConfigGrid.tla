----------------------------- MODULE ConfigGrid -----------------------------
(* Generator of the option grid of C18: one behaviour (and one REPLAY line) per grid point. *)
EXTENDS Config

VARIABLES opt, done
vars == <<opt, done>>
Init == opt = Unset /\ done = FALSE
Single == \E f \in Fields : \E v \in Domain(f) : opt' = [Unset EXCEPT ![f] = v]
Pair(G) == \E f, g \in G : f # g /\ \E v \in Domain(f), w \in Domain(g) : opt' = [Unset EXCEPT ![f] = v, ![g] = w]
Next == ~done /\ done' = TRUE /\ (Single \/ Pair(ChunkGroup) \/ Pair(PackGroup))
Spec == Init /\ [][Next]_vars
Emit == done => PrintT(<<"REPLAY", [f \in Named(opt) |-> opt[f]]>>)

=============================================================================
