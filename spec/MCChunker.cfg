SPECIFICATION Spec
CONSTANTS
  MaxLen = 7
  BufSize = 5
  W = 2
  CarryAll = FALSE
INVARIANTS Refines Lossless
CHECK_DEADLOCK FALSE
