----------------------------- MODULE MCStreamer -----------------------------
EXTENDS Streamer
\* all forests over N trees (tree i refers to lower ids only)
AllShapes == {s \in [1..N -> SUBSET (1..N)] : \A t \in 1..N : \A u \in s[t] : u < t}
\* one wide directory: the top tree has every other tree as a child
Wide == {[t \in 1..N |-> IF t = N THEN 1..(N - 1) ELSE {}]}
RootsA == <<4, 3, 4>>
RootsWide == <<N>>
RootsB == <<5, 3, 5, 4>>
=============================================================================
