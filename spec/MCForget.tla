----------------------------- MODULE MCForget -----------------------------
(***************************************************************************)
(* Exhaustive design-level check of the retention rules: every timeline   *)
(* of at most MaxLen snapshots drawn (with repetition) from the boundary  *)
(* instants of forget_times.ndjson, every counted rule, every counter     *)
(* value in Counts.                                                        *)
(*  - DeclEq    : the operational rule (Forget!ByCount) keeps exactly the  *)
(*                newest snapshot of each of the newest n distinct periods *)
(*                (plus the oldest while the counter remains);             *)
(*  - Monotone  : raising the counter never un-keeps a snapshot;           *)
(*  - Marks     : delete-never / unexpired delete-after are kept, expired  *)
(*                delete-after are removed, whatever the rules say.        *)
(***************************************************************************)
EXTENDS Forget, Json, TLC

CONSTANTS MaxLen, Counts, WithMarks

CountsFull == {-2, -1, 0, 1, 2, 3}
CountsSmall == {-1, 0, 1, 2}

Times == ndJsonDeserialize("forget_times.ndjson")
K == Len(Times)

VARIABLES tl, mk, k, n, phase
vars == <<tl, mk, k, n, phase>>

Timelines == {s \in UNION {[1..m -> 1..K] : m \in 0..MaxLen} :
                 \A i \in 1..(Len(s) - 1) : s[i] <= s[i + 1]}
MarkKinds == IF WithMarks THEN {"none", "never", "expired", "future"} ELSE {"none"}

\* two-level enumeration so that TLC's workers share the second level
Init == tl = <<>> /\ mk = <<>> /\ k = "last" /\ n = Unset /\ phase = 0
PickTimeline == /\ phase = 0 /\ phase' = 1
                /\ tl' \in Timelines
                /\ UNCHANGED <<mk, k, n>>
PickRule == /\ phase = 1 /\ phase' = 2
            /\ mk' \in [1..Len(tl) -> MarkKinds]
            /\ k' \in Rules
            /\ n' \in Counts
            /\ UNCHANGED tl
Next == PickTimeline \/ PickRule
Spec == Init /\ [][Next]_vars

Now == Times[1]
Snap(i) == [time |-> Times[tl[i]], idp |-> <<>>, tags |-> <<>>, tree |-> 0,
            del |-> IF mk[i] = "none" THEN "none" ELSE IF mk[i] = "never" THEN "never" ELSE "after",
            dt |-> IF mk[i] = "expired" THEN Times[K] ELSE Times[1]]
S == [i \in 1..Len(tl) |-> Snap(i)]
NoSpan == [set |-> FALSE, y |-> 0, mo |-> 0, w |-> 0, d |-> 0, h |-> 0, mi |-> 0, s |-> 0]
Opts(c) == [count |-> [r \in Rules |-> IF r = k THEN c ELSE Unset],
            within |-> [r \in Rules |-> NoSpan],
            keep_ids |-> <<>>, keep_tags |-> <<>>, delete_unchanged |-> FALSE]

AllPlain == \A i \in 1..Len(tl) : mk[i] = "none"

DeclEq == (phase = 2 /\ AllPlain) =>
  \A i \in 1..Len(S) : ByCount(S, Opts(n), Now, k, i) = (IF k = "last"
        THEN n # Unset /\ n # 0 /\ (n < 0 \/ i <= n)
        ELSE DeclByCount(S, k, n, i))

Monotone == phase = 2 => \A c \in Counts : CountLe(n, c) => Kept(S, Opts(n), Now) \subseteq Kept(S, Opts(c), Now)

Marks == phase = 2 => \A i \in 1..Len(S) :
  /\ mk[i] = "never"   => Keep(S, Opts(n), Now, i)
  /\ mk[i] = "future"  => Keep(S, Opts(n), Now, i)
  /\ mk[i] = "expired" => ~Keep(S, Opts(n), Now, i)

=============================================================================
