#!/bin/bash
# Build the verification harness offline from files on disk only.
set -e
cd "$(dirname "$0")/.."
export CARGO_NET_OFFLINE=true
cp /repo/Cargo.lock harness/Cargo.lock
(cd harness && cargo build --offline 2>&1 | tail -3)
mkdir -p out evidence
# parse every spec module
for f in spec/*.tla; do
  [ -e "$f" ] || continue
  (cd spec && tla-sany "$(basename "$f")" >/dev/null 2>&1) || { echo "SANY failed on $f"; exit 1; }
done
echo setup ok
