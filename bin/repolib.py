"""Shared helpers of the repository-trace checks (C02, C03, C08, C10, C15, ...)."""
import json
import os

import vlib


def classify(ctx, r, recs, by_id, prop_tags_state, prop_tags_step, what_prefix):
    """turn NONCONF prints into violation records, first occurrence per (program, tag, subject)"""
    seen = set()
    for nc in r.printed("NONCONF"):
        line, sc, kind, items = nc[1], nc[2], nc[3], nc[4]["#set"]
        root = sc.split("#")[0]
        prog = by_id.get(root, {})
        for it in items:
            tag = it[0]
            if kind == "state":
                if tag not in prop_tags_state:
                    continue
                subjects, excused, running = it[1], it[2], it[3]
                if excused:
                    continue
                key = (root, tag)
                detail = {"subjects": subjects, "running": running}
            else:
                if tag not in prop_tags_step:
                    continue
                key = (root, tag)
                detail = {"item": it}
            if key in seen:
                continue
            seen.add(key)
            ev = recs[line - 1] if 0 < line <= len(recs) else {}
            ctx.violation({"id": root, "scenario": sc, "tag": tag, "cmd": prog.get("cut", "?"), "kind": kind,
                           "what": "%s: %s in scenario %s after event %d (%s)" % (what_prefix, tag, sc, line, ev.get("e")),
                           "detail": detail, "program": prog, "event": ev})


def run_trace(ctx, progs, tag, timeout=3000):
    pf = os.path.join(ctx.out, "programs-%s.ndjson" % tag)
    with open(pf, "w") as f:
        for p in progs:
            f.write(json.dumps(p) + "\n")
    trace = os.path.join(ctx.out, "trace-%s.ndjson" % tag)
    # The driver runs the programs one after the other in ONE process.  A program with a `conc` step parks a command inside
    # the thread pool it shares with the other command; if the parked command's blocked tasks use up the pool the other one
    # cannot proceed: that schedule cannot be realised in one process (two real processes share no pool).  The driver's
    # watchdog then ends the process (exit 3); the program is dropped, counted, and the run resumes after it.  A hang in a
    # program without `conc` is a tool error (a command that does not return).
    remaining = list(progs)
    lines = []
    while True:
        part = os.path.join(ctx.out, "trace-%s-part.ndjson" % tag)
        with open(pf, "w") as f:
            for p in remaining:
                f.write(json.dumps(p) + "\n")
        rc, out = vlib.vh(["repo", "--programs", pf, "--out", part], timeout=timeout)
        got = [l for l in open(part)] if os.path.exists(part) else []
        if rc == 3 and os.path.exists(part + ".hang"):
            ids = [json.loads(l)["id"] for l in got if l.startswith('{"') and '"e":"reset"' in l.replace(" ", "") and "fork_of" not in l]
            hung = ids[-1] if ids else None
            k = next((i for i, p in enumerate(remaining) if p["id"] == hung), None)
            if k is None or not any(st.get("cmd") == "conc" for st in remaining[k]["steps"]):
                raise vlib.ToolError("repo driver: a command did not return: " + open(part + ".hang").read()[:500])
            # keep the events of the programs completed before the hung one
            cut = max(i for i, l in enumerate(got) if '"reset"' in l and json.loads(l).get("id") == hung and "fork_of" not in l)
            lines += got[:cut]
            ctx.extra["schedules_not_realisable_in_one_process"] = ctx.extra.get("schedules_not_realisable_in_one_process", 0) + 1
            os.remove(part + ".hang")
            remaining = remaining[k + 1:]
            if not remaining:
                break
            continue
        if rc != 0:
            raise vlib.ToolError("repo driver failed: " + out[-3000:])
        lines += got
        break
    with open(trace, "w") as f:
        f.writelines(lines)
    with open(pf, "w") as f:
        for p in progs:
            f.write(json.dumps(p) + "\n")
    recs = [json.loads(l) for l in lines]
    r = vlib.tlc("RepoTrace.tla", "RepoTrace.cfg", workers=1, timeout=timeout, env={"TRACE": trace},
                 metadir=os.path.join(ctx.out, "tv-" + tag), heap="6g")
    if r.error or r.violated:
        open(os.path.join(ctx.out, "tv-%s.log" % tag), "w").write(r.out)
        raise vlib.ToolError("trace validation failed to run: %s" % (r.error or r.violated))
    if r.printed("TOOLERR"):
        raise vlib.ToolError("trace spec: %s" % r.printed("TOOLERR")[:2])
    ctx.states += r.distinct
    ctx.transitions += r.generated
    return recs, r


def negative_controls(ctx, recs):
    """drop the index write of a backup / move a snapshot write before its index write: must be rejected"""
    # first scenario only
    first = []
    for e in recs:
        if e["e"] == "reset" and first:
            break
        first.append(e)
    widx = [i for i, e in enumerate(first) if e["e"] == "widx"]
    wsnap = [i for i, e in enumerate(first) if e["e"] == "wsnap"]
    if not widx or not wsnap or wsnap[0] < widx[0]:
        raise vlib.ToolError("negative control: first scenario has no backup with index and snapshot write")
    a = [e for i, e in enumerate(first) if i != widx[0]]
    b = list(first)
    b.insert(widx[0], b.pop(wsnap[0]))
    for name, tr in (("drop-index-write", a), ("snapshot-before-index", b)):
        tr = [e for e in tr if e["e"] != "probe"]
        f = os.path.join(ctx.out, "neg-%s.ndjson" % name)
        open(f, "w").write("\n".join(json.dumps(e) for e in tr) + "\n")
        r = vlib.tlc("RepoTrace.tla", "RepoTrace.cfg", workers=1, timeout=600, env={"TRACE": f},
                     metadir=os.path.join(ctx.out, "tv-neg"))
        hit = any(it[0] == "Unreadable" for nc in r.printed("NONCONF") if nc[3] == "state" for it in nc[4]["#set"])
        ctx.negative_control(hit, name)




def tlc_histories(ctx, cfg, timeout=600, simulate=None, depth=None, seed=None):
    """behaviours of Hist.tla as lists of steps (exhaustive, or `simulate` random behaviours)"""
    r = vlib.tlc("Hist.tla", cfg, workers=1 if simulate else 4, timeout=timeout, metadir=os.path.join(ctx.out, "hist-" + cfg),
                 simulate=simulate, depth=depth, seed=seed)
    if r.error or r.violated:
        raise vlib.ToolError("Hist.tla/%s: %s" % (cfg, r.error or r.violated))
    ctx.states += r.distinct
    ctx.transitions += r.generated
    ctx.mc_runs.append({"module": "Hist.tla", "cfg": cfg, "distinct": r.distinct, "generated": r.generated})
    seen, out = set(), []
    for x in r.printed("REPLAY"):
        k = json.dumps(x[1])
        if k not in seen:
            seen.add(k)
            out.append(x[1])
    return out
