"""C18 — accepted configurations work; refused or unnamed settings change nothing.

MC/RP : Config.tla generates the option grid (every single option x every value of its domain incl. 0, boundary,
        huge; every pair inside the chunker group and inside the pack-size group); each record is applied to the real
        library at init and as a change of an existing repository, followed by a smoke run (backup, check --read-data,
        read back and compare, prune plan) under catch_unwind.  A prune-limit grid runs prune on a repository with garbage.
TV    : ConfigTrace.tla evaluates Frame (unnamed fields keep their stored value), NoDowngrade, Untouched (refused =>
        stored bytes unchanged, no write), AcceptedWorks (accepted => smoke run ok and content identical), NoPanic.
"""
import json
import os
import random

import vlib

LEVEL = "model_checking"

LIMITS = ["0%", "1%", "50%", "99%", "100%", "101%", "18446744073709551615%", "0", "1", "1000000000000", "unlimited"]


def grid(ctx):
    r = vlib.tlc("ConfigGrid.tla", "ConfigGrid.cfg", workers=4, timeout=600, metadir=os.path.join(ctx.out, "grid"))
    if r.error or r.violated:
        raise vlib.ToolError("Config grid: %s" % (r.error or r.violated))
    ctx.states += r.distinct
    ctx.transitions += r.generated
    ctx.mc_runs.append({"module": "ConfigGrid.tla", "cfg": "ConfigGrid.cfg", "distinct": r.distinct, "generated": r.generated})
    return [x[1] for x in r.printed("REPLAY")]


def classify_known(v):
    """fields used by known_findings.json matching"""
    return v


def run(ctx):
    q = ctx.quick
    rng = random.Random(ctx.seed * 2971 + 18)
    g = grid(ctx)
    singles = [o for o in g if len(o) == 1]
    pairs = [o for o in g if len(o) == 2]
    use = singles + (rng.sample(pairs, 160) if q else pairs)
    cases = []
    for i, o in enumerate(use):
        cases.append({"kind": "config", "id": "init-%d" % i, "phase": "init", "opts": o})
        cases.append({"kind": "config", "id": "chg-%d" % i, "phase": "change", "base": i % 2, "opts": o})
        # the chunker group also against stored fixed-size settings that are illegal for content-defined chunking
        if any(k.startswith("chunk") for k in (o if isinstance(o, dict) else {})) or "chunk" in json.dumps(o):
            for b in (2, 3):
                cases.append({"kind": "config", "id": "chg-%d-b%d" % (i, b), "phase": "change", "base": b, "opts": o})
    # a refused change followed by an accepted one through the same handle: the refused one must leave nothing behind
    refused = [{"compression": "1", "version": "1"}, {"chunker": "fixed_size", "chunk_size": "4096", "compression": "23"},
               {"datapack_size": "65536", "min_packsize_tolerate_percent": "101"}, {"append_only": "true", "version": "0"},
               {"extra_verify": "false", "chunker": "rabin", "chunk_size": "100"}, {"treepack_growfactor": "32", "max_packsize_tolerate_percent": "1"},
               {"compression": "19", "chunk_min_size": "63", "chunker": "rabin"}]
    accepted = [{"extra_verify": "false"}, {"treepack_growfactor": "1"}, {"compression": "1"}, {"append_only": "false"}, {"datapack_size": "4096"}]
    for i, f in enumerate(refused):
        for j, o in enumerate(accepted):
            if q and (i + j) % 2:
                continue
            cases.append({"kind": "config", "id": "seq-%d-%d" % (i, j), "phase": "change", "base": (i + j) % 2, "opts_first": f, "opts": o})
    pl = []
    for mu in LIMITS:
        for mr in (LIMITS if not q else ["0%", "100%", "101%", "unlimited", "1"]):
            for flags in ({}, {"repack_all": True}, {"no_resize": True, "instant": True}):
                d = {"kind": "prune", "id": "prune-%d" % len(pl), "max_unused": mu, "max_repack": mr}
                d.update(flags)
                pl.append(d)
    if q:
        pl = [p for i, p in enumerate(pl) if i % 2 == 0]
    cases += pl
    cf = os.path.join(ctx.out, "cases.ndjson")
    open(cf, "w").write("\n".join(json.dumps(c) for c in cases) + "\n")
    trace = os.path.join(ctx.out, "trace.ndjson")
    # the driver writes one record per case and flushes it; if the code under test ABORTS the process (an allocation of an
    # absurd size, a double panic) the case after the last record is the one that did it: that is recorded as a violation
    # and the run resumes behind it.  Any other way of dying is a tool error.
    lines, rest, aborted = [], list(cases), []
    while True:
        open(cf, "w").write("\n".join(json.dumps(c) for c in rest) + "\n")
        rc, out = vlib.vh(["config", "--cases", cf, "--seed", ctx.seed, "--out", trace], timeout=6000)
        part = [l for l in open(trace).read().split("\n") if l.strip()] if os.path.exists(trace) else []
        if rc == 0:
            lines += part
            break
        died = "memory allocation of" in out or "panic in a destructor" in out or "panicked while panicking" in out or rc in (134, -6)
        if not died or len(part) >= len(rest) or len(aborted) >= 20:
            raise vlib.ToolError("config driver failed: " + out[-2000:])
        lines += part
        culprit = rest[len(part)]
        aborted.append(culprit)
        ctx.violation({"id": culprit["id"], "formula": "NoPanic", "what": "the process was aborted by the library in case %s: %s" % (culprit["id"], out.strip().split("\n")[0][:200]),
                       "detail": ["NoPanic", "abort"], "case": culprit})
        rest = rest[len(part) + 1:]
    open(cf, "w").write("\n".join(json.dumps(c) for c in cases) + "\n")
    open(trace, "w").write("\n".join(lines) + "\n")
    ctx.extra["aborted_cases"] = [c["id"] for c in aborted]
    recs = [json.loads(l) for l in lines]
    rv = vlib.tlc("ConfigTrace.tla", "ConfigTrace.cfg", workers=1, timeout=12000, env={"TRACE": trace},
                  metadir=os.path.join(ctx.out, "tv"), heap="6g")
    if rv.error or rv.violated or rv.printed("TOOLERR"):
        open(os.path.join(ctx.out, "tv.log"), "w").write(rv.out)
        raise vlib.ToolError("ConfigTrace failed: %s %s" % (rv.error or rv.violated, rv.printed("TOOLERR")[:1]))
    ctx.states += rv.distinct
    ctx.transitions += rv.generated
    ctx.traces += len(recs)
    for nc in rv.printed("NONCONF"):
        rec = recs[nc[1] - 1]
        for it in nc[3]["#set"]:
            opts = rec["opts"] if rec["kind"] == "config" else {k: v for k, v in rec["opts"].items() if k not in ("kind", "id")}
            ctx.violation({"id": rec["id"], "formula": it[0], "kind": rec["kind"], "phase": rec.get("phase", "prune"),
                           "what": "%s violated for %s %s" % (it[0], rec.get("phase", "prune"), json.dumps(opts)),
                           "detail": it, "opts": opts, "optnames": "+".join(sorted(opts)) if rec["kind"] == "config" else "prune",
                           "msg": rec.get("msg", ""), "smoke": rec.get("smoke", ""), "record": rec,
                           "max_unused": rec["opts"].get("max_unused") if rec["kind"] == "prune" else None})
    # negative controls
    okrec = next(x for x in recs if x["kind"] == "config" and x["phase"] == "change" and x["result"] == "ok")
    n1 = json.loads(json.dumps(okrec))
    n1["id"] = "neg-frame"
    f = next(k for k in n1["after"] if k not in n1["opts"])
    n1["after"][f] = "changed-behind"
    n2 = json.loads(json.dumps(okrec))
    n2["id"] = "neg-smoke"
    n2["smoke"], n2["smokeclass"] = "mismatch", "mismatch"
    errrec = next(x for x in recs if x["kind"] == "config" and x["phase"] == "change" and x["result"] == "err")
    n3 = json.loads(json.dumps(errrec))
    n3["id"] = "neg-untouched"
    n3["wrote"] = True
    nf = os.path.join(ctx.out, "neg.ndjson")
    open(nf, "w").write("\n".join(json.dumps(x) for x in (n1, n2, n3)) + "\n")
    rn = vlib.tlc("ConfigTrace.tla", "ConfigTrace.cfg", workers=1, timeout=600, env={"TRACE": nf}, metadir=os.path.join(ctx.out, "tvn"))
    flagged = {nc[2] for nc in rn.printed("NONCONF")}
    for n in (n1, n2, n3):
        ctx.negative_control(n["id"] in flagged, n["id"])
    res = {}
    for x in recs:
        k = "%s/%s" % (x["kind"] + ("-" + x["phase"] if x["kind"] == "config" else ""), x["result"])
        res[k] = res.get(k, 0) + 1
    ctx.extra.update({"evaluations": len(recs), "distinct_nontrivial": len(use) + len(pl), "exhaustive": not q,
                      "rule": "TLC option grid (all single options; all pairs in the chunker and pack-size groups, quick: sample of 160) "
                              "x {init, change on one of two base repositories} + prune-limit grid", "grid_points": len(g),
                      "outcomes": res})
    ctx.sample({"id": okrec["id"], "opts": okrec["opts"], "result": okrec["result"], "smoke": okrec["smoke"]})
    ctx.assumptions += ["builds run with overflow checks (dev/test profile), so arithmetic overflow shows as a panic"]


def replay(ctx, path):
    v = json.load(open(path))
    rec = v.get("record") or {"kind": "aborted", "id": v["case"]["id"]}
    case = {"kind": rec["kind"], "id": rec["id"]}
    if "case" in v:
        case = v["case"]
    elif rec["kind"] == "config":
        case.update({"phase": rec["phase"], "opts": rec["opts"], "base": int(rec["id"].split("-")[1]) % 2})
    else:
        case = rec["opts"]
    cf = os.path.join(ctx.out, "case.ndjson")
    open(cf, "w").write(json.dumps(case) + "\n")
    trace = os.path.join(ctx.out, "replay.ndjson")
    rc, out = vlib.vh(["config", "--cases", cf, "--seed", ctx.seed, "--out", trace], timeout=600)
    if rc != 0:
        if "memory allocation of" in out or rc in (134, -6):
            ctx.violation({"id": case["id"], "formula": "NoPanic", "what": "the process was aborted by the library: " + out.strip().split("\n")[0][:200], "case": case})
            return
        raise vlib.ToolError("config driver failed: " + out[-1000:])
    rv = vlib.tlc("ConfigTrace.tla", "ConfigTrace.cfg", workers=1, timeout=600, env={"TRACE": trace}, metadir=os.path.join(ctx.out, "tv"))
    recs = [json.loads(l) for l in open(trace)]
    for nc in rv.printed("NONCONF"):
        for it in nc[3]["#set"]:
            ctx.violation({"id": rec["id"], "formula": it[0], "what": "%s violated" % it[0], "detail": it, "record": recs[0]})
