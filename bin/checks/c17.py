"""C17 — the in-memory index answers exactly what the index files say.

MC/RP : MCIndex.tla enumerates every collection of <= MaxL pack listings (2 packs, 2 ids x 2 types, 2 files, marks,
        a pack listed twice); each collection is built in the real index - cfg-gated constructor in all three modes,
        and real index files (with packs_to_delete) opened through the public path - and every query is asked.
TV    : IndexTrace.tla evaluates Index!Answers / Total / Retains on the logged files and compares every answer;
        large random collections (<= 30 packs, <= 40 ids) in addition.
"""
import json
import os

import vlib

LEVEL = "model_checking"


def run(ctx):
    q = ctx.quick
    cfg = "MCIndex2.cfg" if q else "MCIndex3.cfg"
    r = vlib.tlc("MCIndex.tla", cfg, workers=4, timeout=1200, metadir=os.path.join(ctx.out, "mc"))
    if r.error or r.violated:
        raise vlib.ToolError("MCIndex: %s" % (r.error or r.violated))
    ctx.states += r.distinct
    ctx.transitions += r.generated
    ctx.mc_runs.append({"module": "MCIndex.tla", "cfg": cfg, "distinct": r.distinct, "generated": r.generated})
    confs = [x[1] for x in r.printed("REPLAY")]

    def js(l):
        return {"p": l["p"], "tpe": l["tpe"], "ids": sorted(l["ids"]["#set"]), "mark": l["mark"], "file": l["file"]}
    cf = os.path.join(ctx.out, "configs.ndjson")
    with open(cf, "w") as f:
        for c in confs:
            f.write(json.dumps([js(l) for l in c]) + "\n")
    trace = os.path.join(ctx.out, "trace.ndjson")
    rc, out = vlib.vh(["index", "--configs", cf, "--random", 60 if q else 10000, "--seed", ctx.seed, "--out", trace], timeout=1800)
    if rc != 0:
        raise vlib.ToolError("index driver failed: " + out[-2000:])
    recs = [json.loads(l) for l in open(trace)]
    rv = vlib.tlc("IndexTrace.tla", "IndexTrace.cfg", workers=1, timeout=12000, env={"TRACE": trace},
                  metadir=os.path.join(ctx.out, "tv"), heap="6g")
    if rv.error or rv.violated or rv.printed("TOOLERR"):
        open(os.path.join(ctx.out, "tv.log"), "w").write(rv.out)
        raise vlib.ToolError("IndexTrace failed: %s %s" % (rv.error or rv.violated, rv.printed("TOOLERR")[:1]))
    ctx.states += rv.distinct
    ctx.transitions += rv.generated
    ctx.traces += len(recs)
    for nc in rv.printed("NONCONF"):
        rec = recs[nc[1] - 1]
        ctx.violation({"id": nc[2], "what": "real index answer differs from Index.tla", "detail": nc[3], "record": rec})
    # negative controls: corrupt one answer / one total of a real record
    base = next(x for x in recs if x["kind"] == "index" and any(qq["found"] for qq in x["queries"]))
    n1 = json.loads(json.dumps(base))
    n1["id"] = "neg-offset"
    qq = next(x for x in n1["queries"] if x["found"])
    qq["off"] += 1
    n2 = json.loads(json.dumps(base))
    n2["id"] = "neg-has"
    qq = next(x for x in n2["queries"] if x["mode"] == "full" and not x["found"])
    qq["has"] = True
    n3 = json.loads(json.dumps(base))
    n3["id"] = "neg-total"
    n3["totals"][0]["total"] += 1
    nf = os.path.join(ctx.out, "neg.ndjson")
    open(nf, "w").write("\n".join(json.dumps(x) for x in (n1, n2, n3)) + "\n")
    rn = vlib.tlc("IndexTrace.tla", "IndexTrace.cfg", workers=1, timeout=600, env={"TRACE": nf}, metadir=os.path.join(ctx.out, "tvn"))
    flagged = {nc[2] for nc in rn.printed("NONCONF")}
    for n in (n1, n2, n3):
        ctx.negative_control(n["id"] in flagged, n["id"])
    nq = sum(len(x.get("queries", x["totals"])) for x in recs)
    ctx.extra.update({"evaluations": nq, "distinct_nontrivial": len(recs), "exhaustive": True,
                      "rule": "all collections of <= %d listings from MCIndex (exhaustive) + seeded random collections; every (type, id) "
                              "of the universe + an absent id is queried in all three modes via the hook and via real index files" % (2 if q else 3),
                      "collections_from_model": len(confs), "collections_random": len(recs) - len(confs), "queries": nq})
    ctx.sample(recs[min(40, len(recs) - 1)])
    ctx.assumptions += ["mixed-type packs (not written by rustic, not listed in the property) are not generated"]


def replay(ctx, path):
    rec = json.load(open(path))["record"]
    raise vlib.ToolError("C17 records are self-contained; re-run the check to re-execute collection %s" % rec.get("id"))
