"""C14 — restore yields exactly the snapshot and never writes outside the target.

MC : MCRestore.tla: the per-path decision of the restore merge-walk over every kind of pre-existing entry x snapshot
     entry x (delete, verify): Exact holds when entries of another type are replaced; the behaviour that removes them
     only with --delete violates it (self-test).  Restore.tla holds the formulas Exact / ExtrasKept / ExtrasGone.
TV : a snapshot (files incl. empty and zero-block ones, nested directories, symlinks) is restored into destinations derived
     by mutating a correct copy (same-size modification with / without the old mtime, truncate, extend, file <-> directory
     <-> symlink, deleted entries, extra files / directories / links, non-zero data over the snapshot's zero blocks) or
     unrelated trees or nothing, under all 16 combinations of delete / verify-existing / sparse / no-ownership;
     RestoreTrace.tla evaluates Exact, ExtrasKept, ExtrasGone on the pre/post directory projections.  Hostile trees (node
     names "..", "../x", absolute paths, "a/../../up", "", ".") written with the harness's own pack writer are restored
     into jail/dest: nothing outside dest may change (Confined).
"""
import json
import os

import vlib

LEVEL = "model_checking"


def validate(ctx, trace, tag):
    r = vlib.tlc("RestoreTrace.tla", "RestoreTrace.cfg", workers=1, timeout=12000, env={"TRACE": trace},
                 metadir=os.path.join(ctx.out, "tv-" + tag), heap="6g")
    if r.error or r.violated or r.printed("TOOLERR"):
        open(os.path.join(ctx.out, "tv-%s.log" % tag), "w").write(r.out)
        raise vlib.ToolError("RestoreTrace failed: %s %s" % (r.error or r.violated, r.printed("TOOLERR")[:1]))
    return r


def emit(ctx, r, recs, args):
    for nc in r.printed("NONCONF"):
        rec = recs[nc[1] - 1]
        seen = set()
        for it in nc[3]["#set"]:
            if it[0] in seen:
                continue
            seen.add(it[0])
            path = bytes.fromhex(it[1]).decode("latin1") if it[0] in ("Exact", "ExtrasKept", "ExtrasGone") else it[1]
            ctx.violation({"id": rec["id"], "formula": it[0], "what": "restore: %s violated (%s; %s; %s)" % (it[0], path, rec.get("what", rec.get("name")), json.dumps(rec.get("opts", {}))),
                           "detail": it, "scenario": rec.get("what", rec.get("name")), "opts": rec.get("opts", {}), "outcome": rec["outcome"],
                           "msg": rec.get("msg", ""), "args": [str(a) for a in args]})


def run(ctx):
    q = ctx.quick
    vlib.mc(ctx, "MCRestore.tla", "MCRestore.cfg", workers=1, timeout=300)
    r = vlib.tlc("MCRestore.tla", "MCRestoreOld.cfg", workers=1, timeout=300, metadir=os.path.join(ctx.out, "mc-old"))
    ctx.negative_control(r.violated == "ExactOK", "model: removing entries of another type only with --delete must violate Exact")
    trace = os.path.join(ctx.out, "trace.ndjson")
    args = ["restore", "--seed", ctx.seed, "--cases", 96 if q else 6000, "--work", os.path.join(ctx.out, "tmp"), "--out", trace]
    rc, out = vlib.vh(args, timeout=9000)
    if rc != 0:
        raise vlib.ToolError("restore driver failed: " + out[-2000:])
    recs = [json.loads(l) for l in open(trace)]
    rv = validate(ctx, trace, "main")
    ctx.states += rv.distinct
    ctx.transitions += rv.generated
    ctx.traces += len(recs)
    emit(ctx, rv, recs, args)
    rest = [x for x in recs if x["kind"] == "restore"]
    jail = [x for x in recs if x["kind"] == "jail"]
    if len(rest) < 10 or len(jail) < 5:
        raise vlib.ToolError("vacuity: restore cases %d, jail cases %d" % (len(rest), len(jail)))
    # negative controls
    base = next(x for x in rest if x["outcome"] == "ok" and len(x["post"]) > 5)
    n1 = json.loads(json.dumps(base)); n1["id"] = "neg-content"; n1["opts"]["verify"] = True
    f = next(e for e in n1["post"] if e["a"]["t"] == "file" and e["a"]["size"] != "0")
    f["a"]["sha"] = "f" * 16
    n2 = json.loads(json.dumps(base)); n2["id"] = "neg-extra-removed"; n2["opts"]["delete"] = False
    n2["pre"].append({"p": "7a7a7a", "a": {"t": "file", "size": "1", "sha": "aa", "target": "", "mode": "644", "mtime": "1.000000000"}})
    n3 = json.loads(json.dumps(jail[0])); n3["id"] = "neg-outside"
    n3["outside_after"] = n3["outside_after"] + [{"p": "6576696c", "a": {"t": "file", "size": "5", "sha": "x", "target": "", "mode": "644", "mtime": "1.0"}}]
    nf = os.path.join(ctx.out, "neg.ndjson")
    open(nf, "w").write("\n".join(json.dumps(x) for x in (n1, n2, n3)) + "\n")
    rn = validate(ctx, nf, "neg")
    flagged = {nc[2] for nc in rn.printed("NONCONF")}
    for n in (n1, n2, n3):
        ctx.negative_control(n["id"] in flagged, n["id"])
    kinds = {}
    for x in rest:
        k = x["what"].split()[0]
        kinds[k] = kinds.get(k, 0) + 1
    ctx.extra.update({"evaluations": len(recs), "distinct_nontrivial": len({x["what"] + json.dumps(x["opts"]) for x in rest}),
                      "rule": "destination states derived from a correct copy by one of 19 mutation kinds (incl. non-zero bytes over the snapshot's zero blocks in files of the same and of another size, symlinks to existing files / directories outside the destination, random chunk subsets overwritten, same-second mtime with other content) (or empty / unrelated) x the 16 option "
                              "combinations; 10 hostile node names", "mutations": kinds, "hostile_names": [x["name"] for x in jail]})
    ctx.sample({"id": base["id"], "what": base["what"], "opts": base["opts"], "pre": base["pre"][:4], "post": base["post"][:4]})
    ctx.assumptions += ["runs as root: ownership restore is possible and mode 000 entries are readable", "special files (devices, fifos) are not generated"]


def replay(ctx, path):
    rec = json.load(open(path))
    a = rec["args"]
    trace = os.path.join(ctx.out, "replay.ndjson")
    a[a.index("--out") + 1] = trace
    a[a.index("--work") + 1] = os.path.join(ctx.out, "tmp")
    vlib.vh(a, timeout=9000)
    recs = [x for x in (json.loads(l) for l in open(trace)) if x["id"] == rec["id"]]
    open(trace, "w").write("\n".join(json.dumps(x) for x in recs) + "\n")
    emit(ctx, validate(ctx, trace, "replay"), recs, a)
