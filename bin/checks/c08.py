"""C08 — pack files, their trailers and the index always agree; the index is rebuildable.

MC : Repo.tla with lost index files + repair-index: after a completed repair every snapshot whose blobs are
     physically present is recoverable (Rebuilt), for all histories <= 4 commands.
TV : every pack write and index write of every command (backup, prune repack fast / re-encoding, merge,
     rewrite, repair) is decoded by the independent parser: PackSelfDescribing (name = sha256, trailer lists
     exactly the regions, every region opens/decompresses/hashes to its id) and PackIndexAgree (index entry
     = trailer, size = file size), as step obligations of RepoTrace.tla.
RP : subsets of index files are removed, repair-index (read-all or not) is run: everything readable before
     must be readable again (Rebuild), real check clean, real restore identical.
"""
import json
import os
import random

import gen
import vlib
from repolib import classify, run_trace

LEVEL = "model_checking"
STATE_TAGS = {"Rebuild"}
STEP_TAGS = {"PackSelfDescribing", "PackIndexAgree", "IndexUndecodable", "SnapshotUndecodable", "Overwrite"}


def programs(seed, n):
    rng = random.Random(seed * 15485863 + 8)
    progs = []
    for i in range(n):
        steps, nsn, alive, files = gen.history(rng, rng.randint(2, 5), 3600, allow_instant=True)
        cfg = gen.rand_cfg(rng)
        if i % 4 == 1:
            # packs written under different compression settings, then merged by a fast (verbatim) repack:
            # one pack file then mixes uncompressed and compressed blobs
            cfg = {"chunk": 64, "pack": rng.choice([200, 600, 2000]), "compression": 0}
            f1 = gen.rand_files(rng, 3)
            f2 = gen.evolve(rng, f1)
            f3 = gen.evolve(rng, f2)
            steps = [{"cmd": "backup", "files": f1}, {"cmd": "config", "compression": rng.choice([1, 3, 19])},
                     {"cmd": "backup", "files": f2}, {"cmd": "backup", "files": f3}, {"cmd": "forget", "snaps": [rng.choice([0, 1])]},
                     {"cmd": "prune", "opts": {"fast": True, "repack_all": rng.random() < 0.7, "max_repack": "unlimited", "max_unused": "0%",
                                               "keep_delete": 0, "instant": rng.random() < 0.5}},
                     {"cmd": "check"}]
            files = f3
        # writers of packs other than backup
        extra = []
        for _ in range(rng.randint(0, 2)):
            k = rng.choice(["prune_repack", "prune_fast", "merge", "rewrite", "backup"])
            if k == "prune_repack":
                extra.append({"cmd": "prune", "opts": {"repack_all": True, "max_repack": "unlimited", "max_unused": "0%",
                                                       "keep_delete": 0, "instant": rng.random() < 0.5}})
            elif k == "prune_fast":
                extra.append({"cmd": "prune", "opts": {"repack_all": True, "fast": True, "max_repack": "unlimited",
                                                       "max_unused": "0%", "keep_delete": 0, "instant": rng.random() < 0.5}})
            elif k == "merge":
                extra.append({"cmd": "merge"})
            elif k == "rewrite":
                extra.append({"cmd": "rewrite", "glob": rng.choice(["a", "b", "x"]), "forget": False})
            else:
                files = gen.evolve(rng, files)
                extra.append({"cmd": "backup", "files": files})
        # lose a subset of the index files (selected by successive removals), or all of them
        lose = []
        mode = i % 3
        nlose = 8 if mode == 0 else rng.randint(1, 3)
        for _ in range(nlose):
            lose.append({"cmd": "damage", "kind": "index", "which": rng.randint(0, 5)})
        tail = [{"cmd": "remember"}] + lose + [{"cmd": "repair_index", "read_all": rng.random() < 0.3}, {"cmd": "check"}]
        progs.append({"id": "c08-%d-%d" % (seed, i), "seed": seed * 1000 + i, "cfg": cfg, "probe": "step",
                      "steps": steps + extra + tail, "cut": "repair_index-after-loss", "lose_all": mode == 0})
    return progs


def run(ctx):
    q = ctx.quick
    vlib.mc(ctx, "MCRepo.tla", "MCRepoRebuildQuick.cfg" if q else "MCRepoRebuild.cfg", workers=8, timeout=2400)
    # repair-index itself (list packs, walk the index files, re-read trailers, replace changed files): Rebuilt / Complete
    vlib.mc(ctx, "RepairIndex.tla", "MCRepairIndex.cfg", workers=4, timeout=600)
    vlib.mc(ctx, "RepairIndex.tla", "MCRepairIndexReadAll.cfg", workers=4, timeout=600)
    progs = programs(ctx.seed, 40 if q else 1500)
    by_id = {p["id"]: p for p in progs}
    recs, r = run_trace(ctx, progs, "main", timeout=6000)
    ctx.traces += len(progs)
    classify(ctx, r, recs, by_id, STATE_TAGS | {"Unreadable"}, STEP_TAGS | {"RealReadFails", "CheckNotClean"}, "pack/index agreement")
    # packs closed by the blob-count limit (about 10 000 blobs, compressed header entries): index removed, repair-index
    big = os.path.join(ctx.out, "bigpack.ndjson")
    rc, out = vlib.vh(["bigpack", "--seed", ctx.seed, "--out", big, "--counts", "9500,10000" if q else "9000,9024,9025,9500,9999,10000,10001,15000"], timeout=3000)
    if rc != 0:
        raise vlib.ToolError("bigpack driver failed: " + out[-1500:])
    brecs = [json.loads(l) for l in open(big)]
    rb = vlib.tlc("RebuildTrace.tla", "RebuildTrace.cfg", workers=1, timeout=600, env={"TRACE": big}, metadir=os.path.join(ctx.out, "tv-big"))
    if rb.error or rb.violated or rb.printed("TOOLERR"):
        raise vlib.ToolError("RebuildTrace failed: %s %s" % (rb.error or rb.violated, rb.printed("TOOLERR")[:1]))
    for nc in rb.printed("NONCONF"):
        rec = brecs[nc[1] - 1]
        for it in nc[3]["#set"]:
            if it[0].startswith("TOOLERR"):
                raise vlib.ToolError("bigpack scenario: %s" % it)
            ctx.violation({"id": rec["id"], "formula": "Rebuild", "kind": "bigpack", "what": "index not rebuildable from a pack of %s blobs: %s"
                           % (max(rec.get("pack_blobs", [0])), json.dumps(it)[:300]), "detail": it, "record": rec})
    sweeps = [x for x in brecs if x["id"].startswith("sizes-")]
    if len(sweeps) < 2 or not all(x.get("covers_boundary") for x in sweeps):
        raise vlib.ToolError("vacuity: the pack-size sweeps do not cover every size around 4096 / 8192: %s" % [(x["id"], x.get("pack_sizes"), x.get("result")) for x in sweeps])
    if not any(max(x.get("pack_blobs", [0])) >= 9025 for x in brecs):
        raise vlib.ToolError("vacuity: no pack with at least 9025 blobs was produced")
    ctx.traces += len(brecs)
    ctx.states += rb.distinct
    ctx.transitions += rb.generated
    nwp = sum(1 for e in recs if e["e"] == "wpack")
    nwi = sum(1 for e in recs if e["e"] == "widx")
    nrep = sum(1 for e in recs if e["e"] == "end" and e["res"] == "ok" and False)
    ndam = sum(1 for e in recs if e["e"] == "damage")
    writers = {}
    cur = {}
    for e in recs:
        if e["e"] == "begin":
            cur[e["proc"]] = e["cmd"] + ("-fast" if e.get("opts", {}).get("fast") else "")
        if e["e"] == "wpack":
            w = cur.get(e["proc"], "?")
            writers[w] = writers.get(w, 0) + 1
    if nwp == 0 or nwi == 0 or ndam == 0:
        raise vlib.ToolError("vacuity: no pack/index writes or no index loss in the traces")
    # negative controls: a pack event that is not self-describing / an index entry that disagrees must be flagged
    neg = []
    seen_p = seen_i = False
    for e in recs:
        if e["e"] == "reset" and neg:
            break
        e2 = json.loads(json.dumps(e))
        if e["e"] == "wpack" and not seen_p:
            e2["sd"] = False
            seen_p = True
        if e["e"] == "widx" and not seen_i and e["ents"]:
            e2["ents"][0]["agree"] = "no"
            seen_i = True
        if e2["e"] != "probe":
            neg.append(e2)
    f = os.path.join(ctx.out, "neg.ndjson")
    open(f, "w").write("\n".join(json.dumps(e) for e in neg) + "\n")
    rn = vlib.tlc("RepoTrace.tla", "RepoTrace.cfg", workers=1, timeout=600, env={"TRACE": f}, metadir=os.path.join(ctx.out, "tv-neg"))
    tags = {it[0] for nc in rn.printed("NONCONF") if nc[3] == "step" for it in nc[4]["#set"]}
    ctx.negative_control("PackSelfDescribing" in tags, "pack event with sd=false")
    ctx.negative_control("PackIndexAgree" in tags, "index entry disagreeing with the trailer")
    ctx.extra.update({"evaluations": nwp + nwi, "distinct_nontrivial": len(progs),
                      "rule": "every pack/index write of seeded histories (backup, prune repack fast/re-encoding, merge, rewrite) is "
                              "decoded independently; then index files are removed (all, or a random subset) and repair-index runs",
                      "pack_writes_checked": nwp, "index_writes_checked": nwi, "pack_writers": writers,
                      "index_files_removed": ndam, "events": len(recs)})
    for p in progs[:2]:
        ctx.sample({"id": p["id"], "steps": [s["cmd"] for s in p["steps"]], "cfg": p["cfg"]})
    ctx.assumptions += ["the independent decoder shares the AES-CTR/Poly1305, SHA-256 and zstd primitive crates with the implementation"]


def replay(ctx, path):
    rec = json.load(open(path))
    if rec.get("kind") == "bigpack":
        big = os.path.join(ctx.out, "replay-big.ndjson")
        vlib.vh(["bigpack", "--seed", ctx.seed, "--out", big, "--counts", str(rec["record"]["n"])], timeout=3000)
        rb = vlib.tlc("RebuildTrace.tla", "RebuildTrace.cfg", workers=1, timeout=600, env={"TRACE": big}, metadir=os.path.join(ctx.out, "tv-big"))
        for nc in rb.printed("NONCONF"):
            ctx.violation({"id": nc[2], "formula": "Rebuild", "kind": "bigpack", "what": "index not rebuildable: %s" % json.dumps(nc[3])[:300]})
        return
    prog = rec["program"]
    recs, r = run_trace(ctx, [prog], "replay")
    classify(ctx, r, recs, {prog["id"]: prog}, STATE_TAGS | {"Unreadable"}, STEP_TAGS | {"RealReadFails", "CheckNotClean"}, "pack/index agreement")
