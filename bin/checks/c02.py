"""C02 — forget and prune never lose data still referenced by a snapshot.

MC : Repo.tla sequential instance (AllReadable, BroughtBack, NoDangling in every state).
RP : Hist.tla enumerates all meaningful command histories of length N (backup / stale backup / forget /
     prune / tick); each is executed on the real repository with seeded prune options.
TV : the operation log of every history goes through RepoTrace.tla: Readable for every visible snapshot
     after every storage operation, keep-delete honoured at every pack removal, used blobs brought back
     by a completed prune, real check clean and real restore = recorded content after every command.
PL : the planning half of prune decision by decision (bin/planner.py): PruneDecide.tla transcribes count_used_blobs,
     PackInfo::from_pack, decide_packs and decide_repack; TLC checks the lemmas Safe / Timely / Thrifty / Accounted over
     all one-pack (thorough: two-pack) configurations; one-pack configurations from TLC and seeded 2-5 pack ones in 1-3
     index files are run through the real planner (hook PrunePlan::verif_decide) and PruneDecideTrace.tla compares every
     decision with Todo(c) and re-evaluates Safe / Timely on the real decisions.
"""
import json
import os
import random

import gen
import planner
import vlib
from repolib import classify, run_trace, tlc_histories

LEVEL = "model_checking"
STATE_TAGS = {"Unreadable", "NotBroughtBack", "Dangling"}
STEP_TAGS = {"KeepDelete", "RealReadFails", "CheckNotClean"}
KD = 3600


# versions for the directed histories: the root directory changes between v1 and v2, the sub-directory x does not
DIRECTED_VERS = {"v1": {"a": ["d1"], "x/c": ["d2", "d3"], "x/y/e": ["d4"]},
                 "v2": {"a": ["d9"], "x/c": ["d2", "d3"], "x/y/e": ["d4"]},
                 "v3": {"a": ["d9"], "b": ["d5"], "x/c": ["d2", "d3"], "x/y/e": ["d4"]}}


def to_program(rng, hist, pid, seed, vers=None):
    if vers is None:
        base = gen.rand_files(rng, rng.randint(2, 4))
        vers = {"v1": base}
        vers["v2"] = gen.evolve(rng, base)
        vers["v3"] = gen.evolve(rng, vers["v2"])
    steps = []
    order = []   # snapshot creation order -> version
    for st in hist:
        k = st[0]
        if k == "backup":
            if rng.random() < 0.12:
                # an interrupted backup first: leaves unreferenced packs behind
                steps.append({"cmd": "backup", "files": vers[st[1]], "fail_at": rng.randint(0, 3)})
            steps.append({"cmd": "backup", "files": vers[st[1]]})
            order.append(st[1])
        elif k == "load":
            steps.append({"cmd": "load", "h": 1})
        elif k == "stale":
            steps.append({"cmd": "backup", "files": vers[st[1]], "h": 1})
            order.append(st[1])
        elif k == "forget":
            idxs = [i for i, v in enumerate(order) if v == st[1]]
            steps.append({"cmd": "forget", "snaps": idxs})
        elif k == "prune":
            o = gen.prune_opts(rng, KD, allow_instant=False)
            o["keep_delete"] = KD
            if st[1]:
                o["instant"] = True
            if len(st) > 2 and st[2] == "all":
                o.update({"repack_all": True, "max_repack": "unlimited", "no_resize": False, "cacheable_only": False})
            steps.append({"cmd": "prune", "opts": o})
        elif k == "tick":
            steps.append({"cmd": "tick", "dt": KD + 7})
    return {"id": pid, "seed": seed, "cfg": gen.rand_cfg(rng), "probe": "step", "steps": steps,
            "hist": hist, "cut": "history"}


def run(ctx):
    q = ctx.quick
    vlib.mc(ctx, "MCRepo.tla", "MCRepoSeqQuick.cfg" if q else "MCRepoSeq.cfg", workers=8, timeout=2400)
    rng = random.Random(ctx.seed * 104729 + 2)
    h4 = tlc_histories(ctx, "Hist4.cfg")
    h5 = tlc_histories(ctx, "Hist5.cfg")
    # longer behaviours by simulation; keep those that can exercise Recover:
    # load < forget < non-instant prune < stale backup < prune
    h7 = tlc_histories(ctx, "Hist7.cfg", simulate=4000 if q else 40000, depth=8, seed=ctx.seed)

    def recover_shape(h):
        ks = [s[0] if s[0] != "prune" else ("prune-i" if s[1] else "prune") for s in h]
        try:
            a = ks.index("load")
            b = ks.index("forget", a)
            c = ks.index("prune", b)
            d = ks.index("stale", c)
            ks.index("prune", d)
            return True
        except ValueError:
            return False
    h7r = [h for h in h7 if recover_shape(h)]
    # directed: packs that are already older than keep-delete when they get marked, and a second prune right after the
    # first one - the marking time, not the creation time, starts keep-delete (seeded change C02-mark-time-not-reset)
    aged = []
    for v, w in (("v1", "v2"), ("v2", "v1"), ("v1", "v3")):
        aged.append([["backup", v], ["tick"], ["forget", v], ["prune", False], ["prune", False]])
        aged.append([["backup", v], ["backup", w], ["tick"], ["forget", v], ["prune", False], ["prune", False], ["backup", v]])
    # directed: a backup through a fresh handle whose parent snapshot was written by an overlapping (stale) backup
    # and shares an unchanged sub-directory with it
    directed = []
    for v, w in (("v1", "v2"), ("v1", "v3"), ("v2", "v3"), ("v1", "v1")):
        directed.append([["backup", v], ["load"], ["forget", v], ["prune", False], ["stale", w], ["backup", w], ["prune", False]])
        directed.append([["backup", v], ["load"], ["forget", v], ["prune", False], ["stale", w], ["backup", w], ["backup", v],
                         ["tick"], ["prune", False]])
        # the overlapping backup adds nothing new: the next prune has nothing to do but to recover the marked packs
        directed.append([["backup", v], ["load"], ["forget", v], ["prune", False], ["stale", v], ["prune", False]])
    # directed: content that was pruned away (its packs are marked and inside keep-delete) is backed up again into new packs, and
    # the next prune repacks everything: the still-marked copies must not count as providing the blobs (seeded change
    # C02-keepmarked-used-ids; pack ids are random, so which pack a prune picks for repacking is not repeatable without this)
    for v, w in (("v1", "v2"), ("v2", "v3"), ("v3", "v1")):
        directed.append([["backup", v], ["forget", v], ["prune", False], ["backup", v], ["prune", False, "all"]])
        directed.append([["backup", v], ["backup", w], ["forget", v], ["prune", False], ["backup", v], ["forget", w], ["prune", False, "all"]])
    if q:
        hs = rng.sample(h4, 50) + rng.sample(h5, 50) + h7r[:30]
    else:
        hs = h4 + rng.sample(h5, 1500) + h7r[:400]
    progs = [to_program(rng, h, "c02-%d-%d" % (ctx.seed, i), ctx.seed * 100000 + i) for i, h in enumerate(hs)]
    progs += [to_program(rng, h, "c02-%d-d%d" % (ctx.seed, i), ctx.seed * 100000 + 90000 + i, vers=DIRECTED_VERS)
              for i, h in enumerate(directed)]
    progs += [to_program(rng, h, "c02-%d-a%d" % (ctx.seed, i), ctx.seed * 100000 + 95000 + i) for i, h in enumerate(aged)]
    by_id = {p["id"]: p for p in progs}
    recs, r = run_trace(ctx, progs, "main", timeout=6000)
    ctx.traces += len(progs)
    classify(ctx, r, recs, by_id, STATE_TAGS, STEP_TAGS, "history safety")
    # vacuity: the interesting paths must have been exercised by real runs
    marked = sum(1 for e in recs if e["e"] == "widx" and any(x["mark"] for x in e["ents"]))
    rmpack = sum(1 for e in recs if e["e"] == "rm" and e["tpe"] == "pack")
    nprune = sum(1 for e in recs if e["e"] == "begin" and e["cmd"] == "prune")
    recovered, mk = 0, set()
    for e in recs:
        if e["e"] == "reset":
            mk = set()
        if e["e"] == "widx":
            for x in e["ents"]:
                if x["mark"]:
                    mk.add(x["p"])
                elif x["p"] in mk:
                    recovered += 1
                    mk.discard(x["p"])
    if marked == 0 or rmpack == 0 or recovered == 0:
        raise vlib.ToolError("vacuity: no pack was ever marked (%d) or removed (%d) or recovered (%d) in the replayed histories" % (marked, rmpack, recovered))
    ctx.extra.update({"evaluations": len(progs), "distinct_nontrivial": len({json.dumps(p["hist"]) for p in progs}),
                      "rule": "behaviours of Hist.tla (all histories of length 4 and 5 containing a forget; quick: seeded sample) "
                              "x seeded source versions, configs and prune options", "exhaustive": not q and False,
                      "histories_available": {"N4": len(h4), "N5": len(h5), "N7_simulated": len(h7), "N7_recover_shape": len(h7r)},
                      "packs_recovered": recovered,
                      "prunes": nprune, "index_writes_with_marks": marked, "pack_removals": rmpack, "events": len(recs)})
    for p in progs[:3]:
        ctx.sample({"id": p["id"], "hist": p["hist"], "cfg": p["cfg"]})
    ctx.assumptions += ["logical time: a tick is realised by shifting the stored pack times in the index files",
                        "instant-delete + early-delete-index is not generated (documented unsafe)"]
    # the planning half of prune, decision by decision (PruneDecide.tla)
    planner.run(ctx)


def replay(ctx, path):
    rec = json.load(open(path))
    if rec.get("kind") == "planner":
        return planner.replay(ctx, rec)
    prog = rec["program"]
    recs, r = run_trace(ctx, [prog], "replay")
    classify(ctx, r, recs, {prog["id"]: prog}, STATE_TAGS, STEP_TAGS, "history safety")
