"""C13 — results do not depend on thread scheduling, latency or pack boundaries; commands terminate.

MC : Packer.tla (TLC, all interleavings of the two packer threads, the writer actors and finalize, bounded writer
     queue): no deadlock, termination under weak fairness (temporal property), nothing submitted is dropped, no orphan
     pack; the set of blobs referenced is independent of the interleaving.
TV : the same backup (and backup + forget + repacking prune) on the same source is repeated under seeded back-end
     delay patterns x pack-size limits from one blob per pack upward x thread-pool sizes 1 / 2 / 8 (separate
     processes), each under a 60 s watchdog; SchedTrace.tla checks Deterministic, Terminates, NoOrphan, Readable.
"""
import json
import os

import vlib

LEVEL = "model_checking"


def validate(ctx, trace, tag):
    r = vlib.tlc("SchedTrace.tla", "SchedTrace.cfg", workers=1, timeout=12000, env={"TRACE": trace},
                 metadir=os.path.join(ctx.out, "tv-" + tag), heap="6g")
    if r.error or r.violated or r.printed("TOOLERR"):
        open(os.path.join(ctx.out, "tv-%s.log" % tag), "w").write(r.out)
        raise vlib.ToolError("SchedTrace failed: %s %s" % (r.error or r.violated, r.printed("TOOLERR")[:1]))
    return r


def run(ctx):
    q = ctx.quick
    vlib.mc(ctx, "MCPacker.tla", "MCPackerTyped.cfg", workers=4, timeout=900)
    vlib.mc(ctx, "MCPacker.tla", "MCPackerPlain.cfg", workers=4, timeout=900)
    # TreeStreamerOnce (caller + loader threads, unbounded id queue, bounded tree queue): every tree once, counters exact,
    # no deadlock, termination under fairness - over all forests; a bounded id queue deadlocks on a wide directory
    vlib.mc(ctx, "MCStreamer.tla", "MCStreamer.cfg", workers=4, timeout=900, must_cover=("Push", "Yield", "Send", "Finish"))
    r = vlib.tlc("MCStreamer.tla", "MCStreamerBounded.cfg", workers=1, timeout=300, metadir=os.path.join(ctx.out, "mc-bad"))
    ctx.negative_control("Deadlock reached" in r.out, "model: a bounded id queue must deadlock on a wide directory")
    if not q:
        vlib.mc(ctx, "MCPacker.tla", "MCPackerBig.cfg", workers=8, timeout=3000)
        vlib.mc(ctx, "MCStreamer.tla", "MCStreamerBig.cfg", workers=8, timeout=3000)
    nscen, nsched = (3, 6) if q else (40, 36)
    merged = {}
    for th in ("1", "2", "8"):
        t = os.path.join(ctx.out, "trace-%s.ndjson" % th)
        rc, out = vlib.vh(["sched", "--seed", ctx.seed, "--scenarios", nscen, "--schedules", nsched, "--out", t],
                          timeout=6000, env={"RAYON_NUM_THREADS": th})
        if rc != 0:
            raise vlib.ToolError("sched driver failed: " + out[-2000:])
        for l in open(t):
            r = json.loads(l)
            key = r["id"].replace("-t%s" % th, "")
            if key not in merged:
                merged[key] = {"kind": "sched", "id": key, "what": r["what"], "collision": r["collision"], "runs": []}
                if r.get("wide"):
                    merged[key]["wide"] = True
            merged[key]["runs"] += r["runs"]
    recs = [m for m in merged.values() if m["runs"]]
    trace = os.path.join(ctx.out, "trace.ndjson")
    open(trace, "w").write("\n".join(json.dumps(x) for x in recs) + "\n")
    rv = validate(ctx, trace, "main")
    ctx.states += rv.distinct
    ctx.transitions += rv.generated
    nruns = sum(len(x["runs"]) for x in recs)
    ctx.traces += nruns
    for nc in rv.printed("NONCONF"):
        rec = recs[nc[1] - 1]
        for it in nc[3]["#set"]:
            ctx.violation({"id": rec["id"], "formula": it[0], "what": "scheduling: %s violated in %s (%s)" % (it[0], rec["id"], rec["what"]),
                           "detail": it, "record": {k: v for k, v in rec.items() if k != "runs"},
                           "runs": [{k: v for k, v in x.items() if k != "needs"} for x in rec["runs"]], "seed": ctx.seed})
    # negative controls
    base = json.loads(json.dumps(recs[0]))
    n1 = json.loads(json.dumps(base)); n1["id"] = "neg-tree"; n1["runs"][1]["tree"] = "other"
    n2 = json.loads(json.dumps(base)); n2["id"] = "neg-timeout"; n2["runs"][2]["outcome"] = "timeout"
    n3 = json.loads(json.dumps(base)); n3["id"] = "neg-orphan"; n3["runs"][0]["orphans"] = 1
    nf = os.path.join(ctx.out, "neg.ndjson")
    open(nf, "w").write("\n".join(json.dumps(x) for x in (n1, n2, n3)) + "\n")
    rn = validate(ctx, nf, "neg")
    flagged = {nc[2] for nc in rn.printed("NONCONF")}
    for n in (n1, n2, n3):
        ctx.negative_control(n["id"] in flagged, n["id"])
    ctx.extra.update({"evaluations": nruns, "distinct_nontrivial": len(recs),
                      "rule": "scenario = seeded source tree (nested dirs, empty / tiny / constant / random files, duplicate files, every second "
                              "one with a file colliding with a tree serialisation); runs = delay pattern x pack size {64,150,400,5000,1e6} x "
                              "RAYON_NUM_THREADS {1,2,8}", "scenarios": len(recs), "runs": nruns})
    ctx.sample({"id": recs[0]["id"], "runs": [{k: v for k, v in x.items() if k != "needs"} for x in recs[0]["runs"][:4]]})
    ctx.assumptions += ["perturbation is external (back-end latency, pack boundaries, pool size); no hook inside the pipeline stages is used",
                        "a hang is detected by a 60 s watchdog per command"]


def replay(ctx, path):
    raise vlib.ToolError("C13 violations are re-established by re-running the check with the same VERIF_SEED (%s)" % json.load(open(path)).get("seed"))
