"""C19 — the local cache is transparent.

MC : Cache.tla: a client through the cache, a client directly on the repository, planted entries (for absent files,
     with wrong sizes): AfterList and SameResults hold in every state of every history <= 5 operations over 3 files;
     without cleaning on listing both fail (self-test).
TV : real histories of backup / forget / prune / check / read-back alternating between a handle with a cache directory
     and a handle without cache on the same store, with truncated / extended / foreign files planted in the cache
     directory between commands; CacheTrace.tla checks AfterList on the cache directory listing after every command
     through the cached handle and SameResults against a twin run of the same history without cache.
"""
import json
import os
import random

import gen
import vlib

LEVEL = "model_checking"
PLANTS = ["truncate_snapshot", "truncate_index", "truncate_pack", "extend_index", "foreign_snapshot", "foreign_index"]


def programs(seed, n):
    rng = random.Random(seed * 1299721 + 19)
    progs = []
    for i in range(n):
        steps, nsn, alive, files = gen.history(rng, rng.randint(3, 6), 3600, allow_instant=True)
        steps = [s for s in steps if s["cmd"] != "tick"]
        for s in steps:
            if s["cmd"] == "prune":
                s["opts"]["keep_delete"] = 0
                s["opts"]["keep_pack"] = 0
        body = []
        for s in steps:
            s = dict(s)
            s["cached"] = rng.random() < 0.55
            body.append(s)
            if rng.random() < 0.35:
                body.append({"cmd": "plant", "kind": rng.choice(PLANTS)})
            if rng.random() < 0.4:
                body.append({"cmd": rng.choice(["readback", "check"]), "cached": rng.random() < 0.7})
        body += [{"cmd": "plant", "kind": PLANTS[i % len(PLANTS)]}, {"cmd": "readback", "cached": True}, {"cmd": "check", "cached": True},
                 {"cmd": "readback", "cached": False}]
        cfg = gen.rand_cfg(rng)
        cfg.pop("version", None)
        progs.append({"id": "c19-%d-%d" % (seed, i), "seed": seed * 1000 + i, "cfg": cfg, "steps": body})
    return progs


def validate(ctx, trace, tag):
    r = vlib.tlc("CacheTrace.tla", "CacheTrace.cfg", workers=1, timeout=12000, env={"TRACE": trace},
                 metadir=os.path.join(ctx.out, "tv-" + tag), heap="6g")
    if r.error or r.violated or r.printed("TOOLERR"):
        open(os.path.join(ctx.out, "tv-%s.log" % tag), "w").write(r.out)
        raise vlib.ToolError("CacheTrace failed: %s %s" % (r.error or r.violated, r.printed("TOOLERR")[:1]))
    return r


def emit(ctx, r, recs, by_id):
    seen = set()
    for nc in r.printed("NONCONF"):
        line, sc, items = nc[1], nc[2], nc[3]["#set"]
        for it in items:
            key = (sc, it[0])
            if key in seen:
                continue
            seen.add(key)
            ctx.violation({"id": sc, "tag": it[0], "what": "cache: %s in %s (event %d)" % (it[0], sc, line), "detail": it,
                           "program": by_id.get(sc, {})})


def run(ctx):
    q = ctx.quick
    vlib.mc(ctx, "Cache.tla", "MCCache.cfg", workers=4, timeout=600)
    r = vlib.tlc("Cache.tla", "MCCacheNoPrune.cfg", workers=1, timeout=300, metadir=os.path.join(ctx.out, "mc-bad"))
    ctx.negative_control(r.violated in ("AfterList", "SameResults"), "model without cleaning on listing must violate AfterList")
    progs = programs(ctx.seed, 25 if q else 2000)
    by_id = {p["id"]: p for p in progs}
    pf = os.path.join(ctx.out, "programs.ndjson")
    open(pf, "w").write("\n".join(json.dumps(p) for p in progs) + "\n")
    trace = os.path.join(ctx.out, "trace.ndjson")
    rc, out = vlib.vh(["cache", "--programs", pf, "--out", trace], timeout=6000)
    if rc != 0:
        raise vlib.ToolError("cache driver failed: " + out[-2000:])
    recs = [json.loads(l) for l in open(trace)]
    rv = validate(ctx, trace, "main")
    ctx.states += rv.distinct
    ctx.transitions += rv.generated
    ctx.traces += len(progs)
    emit(ctx, rv, recs, by_id)
    lists = [e for e in recs if e["e"] == "cachelist"]
    nonempty = sum(1 for e in lists if e["cache"] and e["listed"])
    plants = [e["what"] for e in recs if e["e"] == "plant"]
    effective = sum(1 for w in plants if not w.endswith(":none") and w != "no-cache-dir")
    if nonempty == 0 or effective == 0:
        raise vlib.ToolError("vacuity: non-empty cache listings %d, effective plants %d" % (nonempty, effective))
    # negative controls: a cached snapshot the repository does not have; a differing twin result
    base = next(e for e in lists if e["cache"] and e["res"] == "ok" and e["listed"])
    n1 = json.loads(json.dumps(base))
    n1["sc"] = "neg-stale"
    n1["cache"].append({"k": "ab" * 32, "len": 5})
    tw = next(e for e in recs if e["e"] == "twin")
    n2 = json.loads(json.dumps(tw))
    n2["sc"] = "neg-twin"
    n2["cached"][0]["res"] = "err"
    nf = os.path.join(ctx.out, "neg.ndjson")
    open(nf, "w").write("\n".join(json.dumps(x) for x in (n1, n2)) + "\n")
    rn = validate(ctx, nf, "neg")
    flagged = {nc[2] for nc in rn.printed("NONCONF")}
    ctx.negative_control("neg-stale" in flagged, "cached snapshot absent from the repository")
    ctx.negative_control("neg-twin" in flagged, "twin result differs")
    ctx.extra.update({"evaluations": len(progs), "distinct_nontrivial": len({json.dumps(p["steps"]) for p in progs}),
                      "rule": "seeded histories alternating cached / uncached handles with plants between commands; each followed by "
                              "read-back and check through both handles; twin run without cache",
                      "cache_listings_checked": len(lists), "non_empty_cache_listings": nonempty, "plants": len(plants),
                      "effective_plants": effective})
    ctx.sample({"id": progs[0]["id"], "steps": [(s["cmd"], s.get("cached", s.get("kind"))) for s in progs[0]["steps"]]})
    ctx.assumptions += ["planted entries are wrong-size or foreign files (the property's list); same-size corrupted cache content is not covered",
                        "deviation D4: reading a snapshot by full id without any listing is not part of the histories"]


def replay(ctx, path):
    rec = json.load(open(path))
    prog = rec["program"]
    pf = os.path.join(ctx.out, "replay-prog.ndjson")
    open(pf, "w").write(json.dumps(prog) + "\n")
    trace = os.path.join(ctx.out, "replay.ndjson")
    vlib.vh(["cache", "--programs", pf, "--out", trace], timeout=600)
    recs = [json.loads(l) for l in open(trace)]
    emit(ctx, validate(ctx, trace, "replay"), recs, {prog["id"]: prog})
