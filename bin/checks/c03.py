"""C03 — every crash point or failed write leaves only fully readable snapshots.

MC : Repo.tla (sequential instance): a crash between any two storage operations of backup / forget /
     prune (also instant-delete) keeps AllReadable, NoDangling, BroughtBack;  the excluded
     instant-delete + early-delete-index order is shown to violate AllReadable (model self-test).
TV : every storage operation of the command under test is an event; RepoTrace evaluates the formulas
     after every event (= every crash point of the observed linearisation) and compares Readable with
     the real read path (check --read-data, ls + dump) run on that very prefix of the store.
FI : for every position k the command is re-run on a copy of the pre-state with its k-th mutating
     operation failing: the formulas must hold afterwards and the command must not report success.
"""
import json
import os
import random

import gen
import vlib
from repolib import classify, negative_controls, run_trace

LEVEL = "model_checking"
RELEVANT_STATE = {"Unreadable", "Dangling"}
RELEVANT_STEP = {"RealReadFails", "FailReported"}


KINDS = ["backup", "prune", "repair_index_all", "prune", "repair_snapshots", "forget", "repair_index", "prune",
         "config", "merge", "backup", "rewrite", "add_key", "prune", "repair_index_all", "copy_into"]


def under_test(rng, i, nsn, alive, files, kd):
    """(pre-steps, command under test); kinds cycle so that every tier covers every command"""
    kind = KINDS[i % len(KINDS)]
    pre = []
    if kind == "backup":
        return pre, {"cmd": "backup", "files": gen.evolve(rng, files)}
    if kind == "forget" and alive:
        return pre, {"cmd": "forget", "snaps": rng.sample(alive, rng.randint(1, len(alive)))}
    if kind in ("repair_index", "repair_index_all"):
        if rng.random() < 0.5:
            pre.append({"cmd": "damage", "kind": "index", "which": rng.randint(0, 3)})
        return pre, {"cmd": "repair_index", "read_all": kind == "repair_index_all"}
    if kind == "repair_snapshots":
        pre.append({"cmd": "damage", "kind": rng.choice(["pack_data", "pack_data", "pack_tree"]), "which": rng.randint(0, 5)})
        pre.append({"cmd": "repair_index"})
        return pre, {"cmd": "repair_snapshots", "delete": rng.random() < 0.5}
    if kind == "config":
        return pre, {"cmd": "config", "compression": rng.choice([1, 3]), "pack": rng.choice([150, 400])}
    if kind == "add_key":
        return pre, {"cmd": "add_key"}
    if kind == "merge":
        return pre, {"cmd": "merge"}
    if kind == "copy_into":
        # partly the blobs this repository already has, partly new ones
        return pre, {"cmd": "copy_into", "files": gen.evolve(rng, files)}
    if kind == "rewrite":
        return pre, {"cmd": "rewrite", "glob": rng.choice(["a", "b", "x", "*"]), "forget": rng.random() < 0.5}
    return pre, {"cmd": "prune", "opts": gen.prune_opts(rng, kd, allow_instant=True, allow_early=False)}


def programs(seed, n):
    rng = random.Random(seed * 7919 + 3)
    kd = 3600
    progs = []
    for i in range(n):
        steps, nsn, alive, files = gen.history(rng, rng.randint(1, 4), kd, allow_instant=True)
        pre, cut = under_test(rng, i, nsn, alive, files, kd)
        cfg = gen.rand_cfg(rng)
        if cut["cmd"] == "config":
            cfg.pop("version", None)
        progs.append({"id": "c03-%d-%d" % (seed, i), "seed": seed * 1000 + i, "cfg": cfg, "probe": "none",
                      "steps": steps + pre + [cut], "sweep": len(steps) + len(pre),
                      "cut": cut["cmd"] + ("-read-all" if cut.get("read_all") else "")})
        if i % 3 == 1:
            # after each failure position: the repository stays in use - a backup that may re-use what the failed command left,
            # then one of the commands that rewrite the index, then another backup; nothing readable may become unreadable
            newer = gen.evolve(rng, files)
            fix = [{"cmd": "repair_index", "read_all": rng.random() < 0.3}] if rng.random() < 0.5 else \
                [{"cmd": "prune", "opts": gen.prune_opts(rng, kd, allow_instant=False, allow_early=False)}]
            progs[-1]["after"] = [{"cmd": "backup", "files": newer if rng.random() < 0.6 else files}] + fix + [{"cmd": "backup", "files": gen.evolve(rng, newer)}] + \
                ([{"cmd": "tick", "dt": kd + 7}, {"cmd": "prune", "opts": gen.prune_opts(rng, kd, allow_instant=False, allow_early=False)}] if rng.random() < 0.5 else [])
    # directed: the command under test runs on what an interrupted prune left behind - its new index files next to the old ones,
    # so packs are listed normally and with a delete mark at once - after a further backup started to use those packs again
    for k in range(max(12, n // 8)):
        files = gen.rand_files(rng, 3)
        cfg = gen.rand_cfg(rng)
        cfg.pop("index_flush", None)
        cut = {"cmd": "repair_index", "read_all": k % 6 == 5} if k % 4 != 3 else \
            {"cmd": "prune", "opts": gen.prune_opts(rng, kd, allow_instant=False, allow_early=False)}
        steps = [{"cmd": "backup", "files": files}, {"cmd": "forget", "snaps": [0]},
                 {"cmd": "prune", "opts": {"keep_delete": kd, "keep_pack": 0, "max_unused": "unlimited", "max_repack": "10%", "instant": False},
                  "fail_at": 1},      # the removal of the old index file fails: old and new index files stay
                 {"cmd": "backup", "files": files if k % 2 == 0 else gen.evolve(rng, files)}]
        progs.append({"id": "c03-%d-int%d" % (seed, k), "seed": seed * 1000 + 800 + k, "cfg": cfg, "probe": "none",
                      "steps": steps + [cut], "sweep": len(steps), "cut": "after-interrupted-prune:" + cut["cmd"]})
    return progs


def run(ctx):
    q = ctx.quick
    vlib.mc(ctx, "MCRepo.tla", "MCRepoSeqQuick.cfg" if q else "MCRepoSeq.cfg", workers=8, timeout=2400)
    # model self-test: the excluded order must be able to violate the formula
    r = vlib.tlc("MCRepo.tla", "MCRepoUnsafeEarly.cfg", workers=4, timeout=600, metadir=os.path.join(ctx.out, "mc-unsafe"))
    ctx.negative_control(r.violated == "AllReadable", "model: instant-delete + early-delete-index must violate AllReadable")
    # commands deriving a snapshot from snapshots of the repository (merge / rewrite / repair-snapshots): trees, index, snapshot,
    # then (rewrite --forget, repair --delete) removal of the sources - every crash point; snapshot-first must fail
    # a command may write an index file with what it has indexed so far at any moment (several index files per command)
    vlib.mc(ctx, "MCRepo.tla", "MCRepoPartialFlush.cfg", workers=8, timeout=1800)
    vlib.mc(ctx, "MCRepo.tla", "MCRepoDerive.cfg", workers=8, timeout=1800)
    r = vlib.tlc("MCRepo.tla", "MCRepoDeriveSnapFirst.cfg", workers=4, timeout=900, metadir=os.path.join(ctx.out, "mc-snapfirst"))
    ctx.negative_control(r.violated == "AllReadable", "model: a derived snapshot saved before its trees are flushed must violate AllReadable")

    # repair-index as a step machine over every small store / index state (duplicate, stale and marked entries, lost and damaged
    # packs): nothing readable becomes unreadable at any step or crash point; pre-fix variants must fail
    vlib.mc(ctx, "RepairIndex.tla", "MCRepairIndex.cfg", workers=4, timeout=600)
    vlib.mc(ctx, "RepairIndex.tla", "MCRepairIndexReadAll.cfg", workers=4, timeout=600)
    if not q:
        vlib.mc(ctx, "RepairIndex.tla", "MCRepairIndex3.cfg", workers=8, timeout=3000)     # three index entries
    for cfg, what in (("MCRepairIndexFirstWins.cfg", "keeps the first entry met for a pack, marked or not (the library before fix b9e4409)"),
                      ("MCRepairIndexRemoveFirst.cfg", "replaces the changed index files before the re-read packs are indexed again")):
        r = vlib.tlc("RepairIndex.tla", cfg, workers=4, timeout=600, metadir=os.path.join(ctx.out, "mc-" + cfg))
        ctx.negative_control(r.violated == "NothingLost", "model: a repair-index that %s must violate NothingLost" % what)
    n = 40 if q else 600
    progs = programs(ctx.seed, n)
    by_id = {p["id"]: p for p in progs}
    recs, r = run_trace(ctx, progs, "main", timeout=3000 if q else 20000)
    scen = [e for e in recs if e["e"] == "reset"]
    ctx.traces += len(scen)
    classify(ctx, r, recs, by_id, RELEVANT_STATE, RELEVANT_STEP, "crash/fault safety")
    negative_controls(ctx, recs)
    cuts = {}
    for p in progs:
        cuts[p["cut"]] = cuts.get(p["cut"], 0) + 1
    nprobe = sum(1 for e in recs if e["e"] == "probe")
    nfail = sum(1 for e in recs if e["e"] == "fail")
    ctx.extra.update({"evaluations": len(scen), "distinct_nontrivial": len({json.dumps(p["steps"], sort_keys=True) for p in progs}),
                      "rule": "seeded histories (1-4 commands) + a command under test; every prefix of its operation log is probed "
                              "with the real read path, and every single-operation failure position is re-run on a copy of the pre-state",
                      "commands_under_test": cuts, "crash_points_probed": nprobe, "injected_failures": nfail, "events": len(recs)})
    for p in progs[:2]:
        ctx.sample({"id": p["id"], "cut": p["cut"], "steps": [s["cmd"] for s in p["steps"]], "cfg": p["cfg"]})
    ctx.assumptions += ["a failed write/remove leaves the store unchanged (atomic failure)",
                        "crash = the command stops between two storage operations of the observed linearisation; "
                        "instant-delete + early-delete-index is excluded as documented"]


def replay(ctx, path):
    rec = json.load(open(path))
    prog = rec["program"]
    recs, r = run_trace(ctx, [prog], "replay")
    classify(ctx, r, recs, {prog["id"]: prog}, RELEVANT_STATE, RELEVANT_STEP, "crash/fault safety")
