"""C05 — check is sound and complete with respect to restorability.

MC : Check.tla: an abstract repository (two snapshots; two root-tree-only packs and two data packs of pairwise identical
     layout, a sub-tree pack, an unreferenced pack, one index) x every single-file damage kind incl. swap with a sibling:
     Verdict (the stages of check --read-data, computed over what is actually read through the index) = clean implies
     AllRestorable, for every choice of the copy of a twice-stored blob that check's and restore's index lookups return;
     a check that skips pack contents, the root-tree packs, the file-hash comparison or the other copies violates it
     (negative controls; the last three are the library before its three fixes).
TV : repositories produced by real histories (several snapshots, forgotten ones, marked and repacked packs, compression
     on/off); for every stored file except the config x {remove, truncate to structural and generic lengths, bit flips in
     every structural region (envelope nonce / body / tag, each blob region, trailer, length field) and random ones, swap
     with a sibling of the same type, extension, duplicated index entry, dropped index entry} the fault is applied to a
     copy, the real check --read-data and the real read-back (ls + dump vs recorded source content) of every snapshot are
     run; CheckTrace.tla evaluates Sound on every record (undamaged repositories included).
"""
import json
import os
import random

import gen
import vlib

LEVEL = "model_checking"


def programs(seed, n):
    rng = random.Random(seed * 2750159 + 5)
    progs = []
    for i in range(n):
        steps, nsn, alive, files = gen.history(rng, rng.randint(3, 6), 3600, allow_instant=True)
        steps = [s for s in steps if s["cmd"] != "tick"]
        if not alive:
            steps.append({"cmd": "backup", "files": gen.evolve(rng, files)})
        cfg = gen.rand_cfg(rng)
        progs.append({"id": "c05-%d-%d" % (seed, i), "seed": seed * 1000 + i, "cfg": cfg, "probe": "none", "steps": steps})
    # directed: every blob stored twice (the second backup goes through a handle that loaded the index before the first
    # one ran) - check and restore may resolve a blob to different copies
    for k in range(max(1, n // 10)):
        files = gen.rand_files(rng, 3)
        cfg = gen.rand_cfg(rng)
        cfg.pop("version", None)
        progs.append({"id": "c05-%d-dup%d" % (seed, k), "seed": seed * 1000 + 900 + k, "cfg": cfg, "probe": "none",
                      "steps": [{"cmd": "load", "h": 1}, {"cmd": "backup", "files": files}, {"cmd": "backup", "files": files, "h": 1}]})
    # directed: the needed blobs exist twice, once in packs marked for deletion (forget + prune with a long keep-delete)
    # and once in the packs a later backup of the same files wrote - only the second copy counts
    for k in range(max(1, n // 10)):
        files = gen.rand_files(rng, 3)
        cfg = gen.rand_cfg(rng)
        cfg.pop("version", None)
        progs.append({"id": "c05-%d-marked%d" % (seed, k), "seed": seed * 1000 + 950 + k, "cfg": cfg, "probe": "none",
                      "steps": [{"cmd": "backup", "files": files}, {"cmd": "forget", "snaps": [0]},
                                {"cmd": "prune", "opts": {"keep_delete": 1000000, "keep_pack": 0, "max_unused": "unlimited", "max_repack": "10%",
                                                          "instant": False, "early_delete_index": False}},
                                {"cmd": "backup", "files": gen.evolve(rng, files) if k % 2 else files}]})
    # directed: what an interrupted prune leaves behind (packs listed normally in the old index file and with a delete mark in
    # the new one), then a backup that uses those packs again
    for k in range(max(1, n // 10)):
        files = gen.rand_files(rng, 3)
        cfg = gen.rand_cfg(rng)
        cfg.pop("version", None)
        cfg.pop("index_flush", None)
        progs.append({"id": "c05-%d-int%d" % (seed, k), "seed": seed * 1000 + 970 + k, "cfg": cfg, "probe": "none",
                      "steps": [{"cmd": "backup", "files": files}, {"cmd": "forget", "snaps": [0]},
                                {"cmd": "prune", "opts": {"keep_delete": 1000000, "keep_pack": 0, "max_unused": "unlimited", "max_repack": "10%",
                                                          "instant": False, "early_delete_index": False}, "fail_at": 1},
                                {"cmd": "backup", "files": files if k % 2 == 0 else gen.evolve(rng, files)}]})
    return progs


def validate(ctx, trace, tag):
    r = vlib.tlc("CheckTrace.tla", "CheckTrace.cfg", workers=1, timeout=12000, env={"TRACE": trace},
                 metadir=os.path.join(ctx.out, "tv-" + tag), heap="6g")
    if r.error or r.violated or r.printed("TOOLERR"):
        open(os.path.join(ctx.out, "tv-%s.log" % tag), "w").write(r.out)
        raise vlib.ToolError("CheckTrace failed: %s %s" % (r.error or r.violated, r.printed("TOOLERR")[:1]))
    return r


def emit(ctx, r, recs, progs):
    for nc in r.printed("NONCONF"):
        rec = recs[nc[1] - 1]
        for it in nc[3]["#set"]:
            ctx.violation({"id": rec["id"], "formula": it[0], "tpe": rec["tpe"], "fault": rec["fault"], "faultkind": rec["fault"].split()[0],
                           "what": "check: %s - %s file %s, fault '%s', verdict %s, read-back %s" % (it[0], rec["tpe"], rec["file"], rec["fault"], rec["verdict"], json.dumps(rec["rest"])),
                           "detail": it, "record": rec, "program": progs[rec["repo"]] if rec["repo"] < len(progs) else {}})


def run(ctx):
    q = ctx.quick
    vlib.mc(ctx, "Check.tla", "MCCheck.cfg", workers=1, timeout=300)
    for cfg, what in (("MCCheckNoRead.cfg", "does not read pack data"),
                      ("MCCheckNoRoot.cfg", "does not read the packs of the snapshots' root trees (the library before fix 30d2429)"),
                      ("MCCheckNoFileHash.cfg", "does not compare snapshot files with their id (the library before fix f20e079)"),
                      ("MCCheckOneCopy.cfg", "reads only the copy of a twice-stored blob that its own lookup returned (the library before fix eac9a9d)")):
        r = vlib.tlc("Check.tla", cfg, workers=1, timeout=300, metadir=os.path.join(ctx.out, "mc-" + cfg))
        ctx.negative_control(r.violated == "Sound", "model: a check that %s must violate Sound" % what)
    progs = programs(ctx.seed, 3 if q else 120)
    pf = os.path.join(ctx.out, "programs.ndjson")
    open(pf, "w").write("\n".join(json.dumps(p) for p in progs) + "\n")
    trace = os.path.join(ctx.out, "trace.ndjson")
    args = ["damage", "--programs", pf, "--seed", ctx.seed, "--out", trace] + ([] if q else ["--full", "1"])
    rc, out = vlib.vh(args, timeout=9000)
    if rc != 0:
        raise vlib.ToolError("damage driver failed: " + out[-2000:])
    recs = [json.loads(l) for l in open(trace)]
    rv = validate(ctx, trace, "main")
    ctx.states += rv.distinct
    ctx.transitions += rv.generated
    ctx.traces += len(recs)
    emit(ctx, rv, recs, progs)
    table = {}
    for x in recs:
        ok = all(v == "ok" for v in x["rest"].values())
        k = "%s/%s/%s/%s" % (x["tpe"], x["fault"].split()[0], x["verdict"], "restorable" if ok else "broken")
        table[k] = table.get(k, 0) + 1
    broken_detected = sum(v for k, v in table.items() if k.endswith("error/broken"))
    silent_ok = sum(v for k, v in table.items() if "/clean/restorable" in k and not k.startswith("none"))
    if broken_detected == 0 or silent_ok == 0:
        raise vlib.ToolError("vacuity: no fault broke a snapshot (%d) or none was harmless (%d)" % (broken_detected, silent_ok))
    # negative controls
    base = next(x for x in recs if x["verdict"] == "error" and any(v != "ok" for v in x["rest"].values()))
    n1 = json.loads(json.dumps(base)); n1["id"] = "neg-silent"; n1["verdict"] = "clean"
    nf = os.path.join(ctx.out, "neg.ndjson")
    open(nf, "w").write(json.dumps(n1) + "\n")
    rn = validate(ctx, nf, "neg")
    ctx.negative_control(any(nc[2] == "neg-silent" for nc in rn.printed("NONCONF")), "clean verdict with a broken snapshot")
    ctx.extra.update({"evaluations": len(recs), "distinct_nontrivial": len({(x["repo"], x["file"], x["fault"]) for x in recs}),
                      "rule": "every stored file (config excluded) of %d repositories x fault grid; outcome table below" % len(progs),
                      "outcomes": table, "exhaustive": False})
    ctx.sample({k: base[k] for k in ("id", "tpe", "file", "fault", "verdict", "rest")})
    ctx.assumptions += ["single-store repositories opened with the master key (key files are not needed to read)",
                        "'restores correctly' is decided by ls + dump of every snapshot against the content recorded from the source"]


def replay(ctx, path):
    rec = json.load(open(path))
    prog = rec["program"]
    pf = os.path.join(ctx.out, "replay-prog.ndjson")
    open(pf, "w").write(json.dumps(prog) + "\n")
    trace = os.path.join(ctx.out, "replay.ndjson")
    vlib.vh(["damage", "--programs", pf, "--seed", ctx.seed, "--out", trace], timeout=3000)
    recs = [x for x in (json.loads(l) for l in open(trace)) if x["tpe"] == rec["tpe"] and x["fault"].split()[0] == rec["faultkind"]]
    open(trace, "w").write("\n".join(json.dumps(x) for x in recs) + "\n")
    emit(ctx, validate(ctx, trace, "replay"), recs, [prog])
