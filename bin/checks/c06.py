"""C06 — chunking is a lossless, bounded, content-defined partition.

MC : MCChunker.tla: the buffer algorithm of the chunk iterator (carried read-ahead buffer, take(min)+read_to_end,
     slide loop, short reads, Interrupted) refines the function Chunks for EVERY stream <= 7 bytes over {0,1}, every
     hit set of 2-byte windows, all (min,max) and every fragmentation; the pre-fix behaviour (whole carried buffer
     moved into the next chunk) violates it (self-test); Locality of the definition for all stream pairs.
TV : real chunk lists from the cfg-gated iterator for seeded streams (random, zero, periodic, boundary-dense) x 10
     parameter triples x 3 polynomials x 4 fragmentation/hint patterns, and from full backups; hit positions come
     from a from-definition GF(2) reference; ChunkerTrace.tla checks partition, bounds, every cut = CutLen, equality
     across fragmentations, locality for suffix-sharing pairs, fixed-size cuts, and recomputes sampled fingerprints
     from Rabin.tla.
"""
import json
import os

import vlib

LEVEL = "model_checking"


def validate(ctx, trace, tag, timeout=3000):
    r = vlib.tlc("ChunkerTrace.tla", "ChunkerTrace.cfg", workers=1, timeout=timeout, env={"TRACE": trace},
                 metadir=os.path.join(ctx.out, "tv-" + tag), heap="8g")
    if r.error or r.violated or r.printed("TOOLERR"):
        open(os.path.join(ctx.out, "tv-%s.log" % tag), "w").write(r.out)
        raise vlib.ToolError("ChunkerTrace failed: %s %s" % (r.error or r.violated, r.printed("TOOLERR")[:1]))
    return r


def emit(ctx, r, recs, args):
    for nc in r.printed("NONCONF"):
        rec = recs[nc[1] - 1]
        items = nc[3]["#set"]
        if any(isinstance(it[0], str) and it[0].startswith("TOOLERR") for it in items):
            raise vlib.ToolError("reference fingerprint differs from Rabin.tla: %s" % rec["id"])
        slim = {k: v for k, v in rec.items() if k not in ("hl", "hd")}
        ctx.violation({"id": rec["id"], "kind": rec["kind"], "what": "chunking differs from Chunker.tla: %s" % items[0][0],
                       "detail": items[:3], "params": [rec.get("avg"), rec.get("min"), rec.get("max")],
                       "outcome": rec.get("outcome"), "msg": rec.get("msg", ""), "record": slim, "args": [str(a) for a in args]})


def run(ctx):
    q = ctx.quick
    vlib.mc(ctx, "MCChunker.tla", "MCChunker.cfg", workers=8, timeout=1200)
    if not q:
        vlib.mc(ctx, "MCChunker.tla", "MCChunkerLocality.cfg", workers=8, timeout=2400)
    r = vlib.tlc("MCChunker.tla", "MCChunkerCarryAll.cfg", workers=4, timeout=600, metadir=os.path.join(ctx.out, "mc-carry"))
    ctx.negative_control(r.violated == "Refines", "model: moving the whole carried buffer into the next chunk must violate Refines")

    trace = os.path.join(ctx.out, "trace.ndjson")
    args = ["chunker", "--seed", ctx.seed, "--streams", 40 if q else 900, "--fpsamples", 12 if q else 64,
            "--backups", 3 if q else 20, "--lenfactor", 3 if q else 6, "--out", trace]
    rc, out = vlib.vh(args, timeout=3000)
    if rc != 0:
        raise vlib.ToolError("chunker driver failed: " + out[-2000:])
    recs = [json.loads(l) for l in open(trace)]
    rv = validate(ctx, trace, "main", timeout=6000)
    ctx.states += rv.distinct
    ctx.transitions += rv.generated
    ctx.traces += len(recs)
    emit(ctx, rv, recs, args)
    # negative controls: move one cut by one byte; break equality across fragmentations; corrupt a fingerprint
    base = next(x for x in recs if x["kind"] == "chunks" and x["outcome"] == "ok" and len(x["runs"][0]) >= 3)
    n1 = json.loads(json.dumps(base))
    n1["id"] = "neg-cut"
    for k in range(len(n1["runs"])):
        n1["runs"][k][0] += 1
        n1["runs"][k][1] -= 1
        n1["starts"][k][1] += 1
    n2 = json.loads(json.dumps(base))
    n2["id"] = "neg-frag"
    n2["runs"][2] = n2["runs"][2][:-1]
    f0 = next(x for x in recs if x["kind"] == "fp")
    n3 = json.loads(json.dumps(f0))
    n3["id"] = "neg-fp"
    n3["w"][5] ^= 1
    nf = os.path.join(ctx.out, "neg.ndjson")
    open(nf, "w").write("\n".join(json.dumps(x) for x in (n1, n2, n3)) + "\n")
    rn = vlib.tlc("ChunkerTrace.tla", "ChunkerTrace.cfg", workers=1, timeout=600, env={"TRACE": nf}, metadir=os.path.join(ctx.out, "tvn"))
    flagged = {nc[2] for nc in rn.printed("NONCONF")}
    for n in (n1, n2, n3):
        ctx.negative_control(n["id"] in flagged, n["id"])
    kinds = {}
    for x in recs:
        kinds[x["kind"]] = kinds.get(x["kind"], 0) + 1
    nchunks = sum(len(x["runs"][0]) for x in recs if x["kind"] == "chunks" and x["outcome"] == "ok")
    ctx.extra.update({"evaluations": len(recs), "distinct_nontrivial": sum(1 for x in recs if x["kind"] == "chunks" and x["N"] > x["min"]),
                      "rule": "seeded streams (random / zero / periodic / boundary-dense / mixed; length 0..lenfactor*max) cycling through "
                              "10 (avg,min,max) triples and 3 polynomials, each chunked under 4 fragmentation+hint patterns; non-trivial = "
                              "stream longer than the minimum size", "records_by_kind": kinds, "cuts_checked": nchunks})
    ctx.sample({k: v for k, v in base.items() if k not in ("hl", "hd")})
    ctx.assumptions += ["deviation D1 (window after the minimum size skips one byte for 63 positions) is accepted as well as the literal window",
                        "the GF(2) reference in the harness is tied to Rabin.tla by TLC recomputing sampled fingerprints"]


def replay(ctx, path):
    rec = json.load(open(path))
    trace = os.path.join(ctx.out, "replay.ndjson")
    a = rec["args"]
    a[a.index("--out") + 1] = trace
    vlib.vh(a, timeout=3000)
    recs = [json.loads(l) for l in open(trace)]
    keep = [x for x in recs if x["id"] == rec["id"]]
    open(trace, "w").write("\n".join(json.dumps(x) for x in keep) + "\n")
    rv = validate(ctx, trace, "replay")
    emit(ctx, rv, keep, a)
