"""C04 — stored data is authenticated ciphertext; tampering is always detected; only the right password / master key opens.

MC : Sealed.tla - files as sequences of sealed messages (whole-file messages; packs = blob messages + header + length
     field), an adversary (flip any message / the length field, truncate, extend, substitute by a sibling, remove) and
     the library's readers (whole-file read, blob window read through the index).  MCSealed.cfg (readers verify name
     and blob id) satisfies Authentic, Detected, NonceFresh for <= 2 adversary steps over 6 files; MCSealedAsIsNoSubst
     (readers as in the library, no substitution) too; MCSealedAsIs (library readers + substitution) violates Authentic
     and MCSealedReuse (nonces drawn with replacement) violates NonceFresh - both are negative controls, the first one
     is the known finding below.  Keys.tla - key files, sessions, add / remove / open: Access, OnlyRight.
TV : (1) the sealing primitive through the cfg-gated hook: EVERY single-bit flip, EVERY truncation, extensions, splices,
     wrong keys for messages of 18 (quick) / 50 (thorough) lengths; thousands of nonce draws; interoperability with an
     independent implementation in both directions.  (2) marker-laden repositories (names, contents, link targets,
     host / label / tags / description, paths): every file the library EVER wrote (storage log, key files excluded) is
     scanned for markers and structural JSON keys, decoded by the independent decoder (sealed under the master key,
     packs covered without gaps), all nonces collected; then every stored file x {bit flips in every structural region,
     truncations, extensions, substitution by same-type siblings} with the affected reads (cat_file; cat_blob of every
     blob of the pack) classified same / diff / err.  SealedTrace.tla evaluates NoPlain, NonceFresh, Authentic, Detected.
RP : behaviours of Keys.tla (every sequence of 4 operations; simulated ones of 6) are replayed on real repositories
     (scrypt key files, passwords differing by case / blank / prefix / non-ASCII, master keys differing in one bit) and the
     recorded results validated by KeysTrace.tla (OnlyRight both directions, Stored).
"""
import json
import os
import random

import vlib

LEVEL = "model_checking"


def tv(ctx, spec, trace, tag):
    r = vlib.tlc(spec + ".tla", spec + ".cfg", workers=1, timeout=12000, env={"TRACE": trace},
                 metadir=os.path.join(ctx.out, "tv-" + tag), heap="6g")
    if r.error or r.violated or r.printed("TOOLERR"):
        open(os.path.join(ctx.out, "tv-%s.log" % tag), "w").write(r.out)
        raise vlib.ToolError("%s failed: %s %s" % (spec, r.error or r.violated, r.printed("TOOLERR")[:1]))
    ctx.states += r.distinct
    ctx.transitions += r.generated
    return r


def window_in_other(rec, i):
    if rec.get("tpe") != "pack" or rec.get("fault") != "swap":
        return False
    if i == 0:      # the restore read: any blob window that also frames a blob in the substituted pack
        return any(w in rec.get("olayout", []) for w in rec["layout"])
    return rec["layout"][i - 1] in rec.get("olayout", [])


def emit(ctx, r, recs, what, extra=None):
    seen = set()
    for nc in r.printed("NONCONF"):
        line, sc, items = nc[1], nc[2], nc[3]["#set"]
        rec = recs[line - 1]
        for it in items:
            formula = it[0]
            v = {"id": sc, "formula": formula, "tpe": rec.get("tpe", rec.get("op", rec["e"])), "fault": rec.get("fault", ""),
                 "what": "%s: %s in %s (event %d): %s" % (what, formula, sc, line, json.dumps(it)[:300]), "detail": it, "record": rec}
            if rec["e"] == "tamper" and formula == "Authentic":
                v["window_in_other"] = window_in_other(rec, it[3])
            key = (sc, formula, v["tpe"], v["fault"], v.get("window_in_other"))
            if key in seen:
                continue
            seen.add(key)
            v.update(extra or {})
            ctx.violation(v)


def key_behaviours(ctx, q):
    r = vlib.tlc("Keys.tla", "MCKeys4.cfg", workers=4, timeout=900, metadir=os.path.join(ctx.out, "mc-keys4"))
    if r.error or r.violated:
        raise vlib.ToolError("Keys.tla/MCKeys4: %s" % (r.error or r.violated))
    ctx.states += r.distinct
    ctx.transitions += r.generated
    ctx.mc_runs.append({"module": "Keys.tla", "cfg": "MCKeys4.cfg", "distinct": r.distinct, "generated": r.generated})
    behs = sorted({json.dumps(x[1]) for x in r.printed("REPLAY")})
    rng = random.Random(ctx.seed * 7919 + 4)
    interesting = [b for b in behs if '"add"' in b and ('"remove"' in b or '"close"' in b)]
    rest = [b for b in behs if b not in set(interesting)]
    if q:
        pick = rng.sample(interesting, min(40, len(interesting))) + rng.sample(rest, min(16, len(rest)))
    else:
        pick = rng.sample(interesting, min(500, len(interesting))) + rng.sample(rest, min(200, len(rest)))
        r6 = vlib.tlc("Keys.tla", "MCKeys6.cfg", workers=1, timeout=900, simulate=400, depth=8, seed=ctx.seed,
                      metadir=os.path.join(ctx.out, "sim-keys6"))
        if r6.error or r6.violated:
            raise vlib.ToolError("Keys.tla/MCKeys6 simulation: %s" % (r6.error or r6.violated))
        pick += sorted({json.dumps(x[1]) for x in r6.printed("REPLAY")})[:300]
    return [json.loads(b) for b in pick], len(behs)


def run(ctx):
    q = ctx.quick
    vlib.mc(ctx, "MCSealed.tla", "MCSealed.cfg", workers=4, timeout=900)
    vlib.mc(ctx, "MCSealed.tla", "MCSealedAsIsNoSubst.cfg", workers=4, timeout=900)
    r = vlib.tlc("MCSealed.tla", "MCSealedAsIs.cfg", workers=1, timeout=300, metadir=os.path.join(ctx.out, "mc-asis"))
    ctx.negative_control(r.violated == "Authentic", "model: readers that verify neither file name nor blob id must violate Authentic under substitution")
    r = vlib.tlc("MCSealed.tla", "MCSealedReuse.cfg", workers=1, timeout=300, metadir=os.path.join(ctx.out, "mc-reuse"))
    ctx.negative_control(r.violated == "NonceFresh", "model: nonces drawn with replacement must violate NonceFresh")

    if not q:
        # unbounded in the number of steps and key files: Access, NoWrongKey are inductive (Apalache, KeysInd.tla)
        ok = vlib.apalache_inductive(ctx, "KeysInd")
        if ok != (True, True):
            raise vlib.ToolError("KeysInd: invariant not inductive: %s" % (ok,))
        bad = vlib.apalache_inductive(ctx, "KeysInd", subst={"/\\ IF sess = k THEN UNCHANGED <<keys, next, sess>>": "/\\ IF FALSE THEN UNCHANGED <<keys, next, sess>>"}, neg=True)
        ctx.negative_control(bad[1] is False, "Apalache: removing the key in use must break the induction step")
    # (1) the primitive
    msg = os.path.join(ctx.out, "msg.ndjson")
    rc, out = vlib.vh(["sealed-msg", "--seed", ctx.seed, "--out", msg] + ([] if q else ["--full", "1"]), timeout=3000)
    if rc != 0:
        raise vlib.ToolError("sealed-msg driver failed: " + out[-1500:])
    mrecs = [json.loads(l) for l in open(msg)]
    emit(ctx, tv(ctx, "SealedTrace", msg, "msg"), mrecs, "sealing primitive")
    trials = sum(sum(c.values()) for x in mrecs if x["e"] == "msg" for c in x["tally"].values())

    # (2) repositories
    store = os.path.join(ctx.out, "store.ndjson")
    nrepos = 3 if q else 60
    rc, out = vlib.vh(["sealed-store", "--seed", ctx.seed, "--repos", nrepos, "--out", store] + ([] if q else ["--full", "1"]), timeout=9000)
    if rc != 0:
        raise vlib.ToolError("sealed-store driver failed: " + out[-1500:])
    srecs = [json.loads(l) for l in open(store)]
    if any(x["e"] in ("toolerr", "buildfail") for x in srecs):
        raise vlib.ToolError("sealed-store: %s" % [x for x in srecs if x["e"] in ("toolerr", "buildfail")][:2])
    emit(ctx, tv(ctx, "SealedTrace", store, "store"), srecs, "repository storage", {"seed": ctx.seed, "repos": nrepos})
    scans = [x for x in srecs if x["e"] == "scan"]
    tampers = [x for x in srecs if x["e"] == "tamper"]
    table = {}
    for x in tampers:
        for rd in x["reads"]:
            k = "%s/%s/%s" % (x["tpe"], x["fault"], rd["res"])
            table[k] = table.get(k, 0) + 1
    if not scans or any(s["marks_in_plaintext"] == 0 for s in scans):
        raise vlib.ToolError("vacuity: markers not found inside the decrypted plaintext (scan is meaningless)")
    for tpe in ("snapshot", "index", "config", "pack"):
        if not any(k.startswith(tpe + "/flip/err") for k in table):
            raise vlib.ToolError("vacuity: no detected flip for file type " + tpe)
    if not any(k.startswith("pack/flip/same") for k in table):
        raise vlib.ToolError("vacuity: no pack flip left the other blobs readable")

    # (3) access
    behs, nall = key_behaviours(ctx, q)
    pf = os.path.join(ctx.out, "key-programs.ndjson")
    open(pf, "w").write("\n".join(json.dumps(b) for b in behs) + "\n")
    kt = os.path.join(ctx.out, "keys.ndjson")
    rc, out = vlib.vh(["keys", "--programs", pf, "--out", kt, "--threads", 12], timeout=9000)
    if rc != 0:
        raise vlib.ToolError("keys driver failed: " + out[-1500:])
    krecs = [json.loads(l) for l in open(kt)]
    emit(ctx, tv(ctx, "KeysTrace", kt, "keys"), krecs, "key files / open")
    opens = [x for x in krecs if x["e"] == "op" and x["op"] == "open"]
    ok_opens = sum(1 for x in opens if x["res"] == "ok")
    if ok_opens == 0 or ok_opens == len(opens):
        raise vlib.ToolError("vacuity: opens ok %d of %d" % (ok_opens, len(opens)))
    if any(x["res"] == "ok" and not x.get("right_master") for x in opens):
        raise vlib.ToolError("an opened session does not hold the repository's master key")
    mism = [x for x in krecs if x["e"] == "op" and x["op"] != "init" and x["res"] != x["model_res"]]
    ctx.traces += len(behs) + len(scans) + 1

    # negative controls: corrupted records must be rejected
    negs = []
    st = next(x for x in srecs if x["e"] == "stored")
    n = json.loads(json.dumps(st)); n["plain_hits"] = ["CONTENTMARK"]; negs.append(("neg-plain", n))
    n = json.loads(json.dumps(st)); n["sealed"] = False; negs.append(("neg-unsealed", n))
    n = json.loads(json.dumps(st)); n["nonces"] = n["nonces"] + n["nonces"][:1]; negs.append(("neg-nonce", n))
    tp = next(x for x in tampers if x["tpe"] == "snapshot" and x["fault"] == "flip")
    n = json.loads(json.dumps(tp)); n["reads"][0]["res"] = "same"; negs.append(("neg-undetected", n))
    n = json.loads(json.dumps(tp)); n["reads"][0]["res"] = "diff"; negs.append(("neg-diff", n))
    tpk = next(x for x in tampers if x["tpe"] == "pack" and x["fault"] == "flip" and any(r["res"] == "err" for r in x["reads"]))
    n = json.loads(json.dumps(tpk))
    for rd in n["reads"]:
        rd["res"] = "same"
    negs.append(("neg-blob-undetected", n))
    ms = next(x for x in mrecs if x["e"] == "msg" and x["len"] == 33)
    n = json.loads(json.dumps(ms)); n["tally"]["flip"]["same"] = 1; negs.append(("neg-msg-flip", n))
    nf = os.path.join(ctx.out, "neg.ndjson")
    with open(nf, "w") as f:
        for name, rec in negs:
            f.write(json.dumps({"e": "reset", "id": name}) + "\n" + json.dumps(rec) + "\n")
    flagged = {nc[2] for nc in tv(ctx, "SealedTrace", nf, "neg").printed("NONCONF")}
    for name, _ in negs:
        ctx.negative_control(name in flagged, name)
    ko = next(x for x in opens if x["res"] != "ok")
    n1 = json.loads(json.dumps(ko)); n1["res"] = "ok"; n1["kid"] = 1; n1["pw"] = "wx"
    ko2 = next(x for x in opens if x["res"] == "ok")
    n2 = json.loads(json.dumps(ko2)); n2["res"] = "err"
    nk = os.path.join(ctx.out, "neg-keys.ndjson")
    i0 = next(x for x in krecs if x["e"] == "op" and x["op"] == "init" and x["pw"] == ko2["pw"])
    with open(nk, "w") as f:
        f.write(json.dumps({"e": "reset", "id": "neg-wrong-opens"}) + "\n" + json.dumps(i0) + "\n" + json.dumps(n1) + "\n")
        f.write(json.dumps({"e": "reset", "id": "neg-right-refused"}) + "\n" + json.dumps(i0) + "\n" + json.dumps(n2) + "\n")
    flagged = {nc[2] for nc in tv(ctx, "KeysTrace", nk, "negk").printed("NONCONF")}
    ctx.negative_control("neg-wrong-opens" in flagged, "a wrong password opening")
    ctx.negative_control("neg-right-refused" in flagged, "a right password refused")

    ctx.extra.update({"evaluations": trials + sum(len(x["reads"]) for x in tampers) + len(opens),
                      "distinct_nontrivial": len(tampers) + len(behs),
                      "rule": "primitive: all single-bit flips and truncations per message length; repositories: every stored file x "
                              "fault grid (structural positions + random); keys: behaviours of Keys.tla",
                      "primitive_trials": trials, "files_scanned": sum(s["files"] for s in scans),
                      "markers": sum(s["marks"] for s in scans), "tamper_trials": len(tampers), "read_outcomes": table,
                      "key_behaviours_replayed": len(behs), "key_behaviours_of_model": nall, "opens": len(opens), "opens_ok": ok_opens,
                      "results_differing_from_Keys_tla": len(mism), "exhaustive": False})
    ctx.sample({"tamper": {k: tp[k] for k in ("tpe", "fault", "pos", "reads")}})
    ctx.sample({"key_behaviour": behs[0]})
    ctx.assumptions += ["key files are outside the claim (the property excludes them); their host/user fields are plaintext by format",
                        "the independent decoder uses the same AES-CTR / Poly1305-AES crate as the library; independence is in the composition and the format parsing",
                        "randomness of nonces is judged by distinctness and per-byte diversity of draws, not by a statistical test suite"]
    # (Open(p) of Keys.tla may pick any key file with that password, the library takes the first one it lists: with two key
    # files of one password a later "remove" can be refused for the one and allowed for the other - KeysTrace.tla judges
    # the real results on their own; the number of differing results is recorded, not judged)


def replay(ctx, path):
    rec = json.load(open(path))
    if rec["record"]["e"] in ("tamper", "stored"):
        store = os.path.join(ctx.out, "replay.ndjson")
        vlib.vh(["sealed-store", "--seed", rec.get("seed", ctx.seed), "--repos", rec.get("repos", 3), "--out", store], timeout=9000)
        recs = [json.loads(l) for l in open(store)]
        emit(ctx, tv(ctx, "SealedTrace", store, "replay"), recs, "repository storage")
    elif rec["record"]["e"] in ("msg", "draws"):
        msg = os.path.join(ctx.out, "replay.ndjson")
        vlib.vh(["sealed-msg", "--seed", ctx.seed, "--out", msg], timeout=3000)
        emit(ctx, tv(ctx, "SealedTrace", msg, "replay"), [json.loads(l) for l in open(msg)], "sealing primitive")
    else:
        raise vlib.ToolError("key violations are replayed by re-running the check (behaviours are regenerated from Keys.tla)")
