"""C10 — backups running concurrently with prune or with each other stay intact.

MC : Repo.tla with two processes (one backup process, one prune process; and two backup processes), every interleaving
     of their storage steps, no tick inside a prune (assumption A2), keep-delete > backup duration: AllRecoverable in
     every state, AllReadable once a prune that overlapped with nothing has completed; backup || backup: AllReadable.
RP : for every gate position k (and sampled pairs (k, j)) the real commands are interleaved on one store: A parked
     before its k-th back-end operation, B run completely (or up to its j-th operation while A finishes); pre-histories
     are behaviours of Hist.tla; then a trailing prune, a tick beyond keep-delete, another prune and a check.
TV : the merged operation log (linearised by the store lock) goes through RepoTrace.tla: Recoverable for every snapshot
     at every step, Readable for every snapshot not written during an overlap, everything Readable and restorable after
     the next completed prune, keep-delete honoured at every pack removal.
"""
import json
import os
import random

import gen
import vlib
from repolib import classify, run_trace, tlc_histories

LEVEL = "model_checking"
STATE_TAGS = {"Unrecoverable", "Unreadable", "NotBroughtBack"}
STEP_TAGS = {"RealReadFails", "CheckNotClean", "KeepDelete", "PruneFails"}
KD = 3600


def prehistory(rng, hist, vers):
    steps, order = [], []
    for st in hist:
        k = st[0]
        if k == "backup":
            steps.append({"cmd": "backup", "files": vers[st[1]]})
            order.append(st[1])
        elif k == "forget":
            steps.append({"cmd": "forget", "snaps": [i for i, v in enumerate(order) if v == st[1]]})
        elif k == "prune":
            steps.append({"cmd": "prune", "opts": {"keep_delete": KD, "max_unused": rng.choice(["0%", "50%", "unlimited"]),
                                                   "max_repack": "unlimited"}})
        elif k == "tick":
            steps.append({"cmd": "tick", "dt": KD + 7})
    return steps


# directed pre-histories: the late backup stores exactly a forgotten version again, so it adds no data of its own and
# everything it needs lives in packs the concurrent prune marks (added after seeded change C10-recover-index-not-rewritten)
DIRECTED = [[["backup", "v1"], ["tick"], ["forget", "v1"]],      # packs older than keep-delete when the overlapping prune marks them
            [["backup", "v1"], ["forget", "v1"]],
            [["backup", "v1"], ["backup", "v2"], ["forget", "v1"]],
            [["backup", "v1"], ["forget", "v1"], ["prune", False], ["backup", "v2"]]]


def schedule_programs(ctx, rng, hists, gates, pairs):
    progs = []
    n = 0
    for hi, hist in enumerate(hists):
        base = gen.rand_files(rng, 3)
        vers = {"v1": base}
        vers["v2"] = gen.evolve(rng, base)
        vers["v3"] = gen.evolve(rng, vers["v2"])
        pre = prehistory(rng, hist, vers)
        directed = hist in DIRECTED
        newfiles = vers["v1"] if directed else gen.evolve(rng, vers[rng.choice(["v1", "v2", "v3"])])
        popts = {"keep_delete": KD, "max_unused": rng.choice(["0%", "5%", "unlimited"]), "max_repack": "unlimited",
                 "repack_all": rng.random() < 0.3}
        tail = [{"cmd": "prune", "opts": {"keep_delete": KD, "max_unused": "0%", "max_repack": "unlimited"}},
                {"cmd": "tick", "dt": KD + 7},
                {"cmd": "prune", "opts": {"keep_delete": KD, "max_unused": "0%", "max_repack": "unlimited"}},
                {"cmd": "check"}]
        bk = {"cmd": "backup", "files": newfiles}
        bk2 = {"cmd": "backup", "files": gen.evolve(rng, newfiles)}
        pr = {"cmd": "prune", "opts": popts}
        variants = []
        for k in gates:
            variants.append(("backup@%d|prune" % k, {"cmd": "conc", "a": bk, "b": pr, "gate": k}))
            variants.append(("prune@%d|backup" % k, {"cmd": "conc", "a": pr, "b": bk, "gate": k}))
            if k % 2 == 0:
                variants.append(("backup@%d|backup" % k, {"cmd": "conc", "a": bk, "b": bk2, "gate": k}))
        for (k, j) in pairs:
            variants.append(("backup@%d|prune@%d" % (k, j), {"cmd": "conc", "a": bk, "b": pr, "gate": k, "bgate": j}))
            variants.append(("prune@%d|backup@%d" % (k, j), {"cmd": "conc", "a": pr, "b": bk, "gate": k, "bgate": j}))
        if directed:
            variants = [v for v in variants if v[0].startswith("backup@") and "|prune" in v[0]]
        for name, cst in variants:
            cfg = {"chunk": 64, "pack": rng.choice([150, 300, 1000])}
            progs.append({"id": "c10-%d-%d" % (ctx.seed, n), "seed": ctx.seed * 100000 + n, "cfg": cfg, "probe": "step",
                          "steps": pre + [cst] + tail, "cut": name.split("@")[0] + "|" + name.split("|")[1].split("@")[0],
                          "schedule": name, "hist": hist})
            n += 1
    return progs


def run(ctx):
    q = ctx.quick
    vlib.mc(ctx, "MCRepo.tla", "MCRepoConcA2Quick.cfg" if q else "MCRepoConcA2.cfg", workers=8, timeout=3000)
    vlib.mc(ctx, "MCRepo.tla", "MCRepoConcBB.cfg", workers=8, timeout=3000)
    rng = random.Random(ctx.seed * 48611 + 10)
    h3 = [h for h in tlc_histories(ctx, "Hist3.cfg") if not any(s[0] in ("load", "stale") or (s[0] == "prune" and s[1]) for s in h)]
    h4 = [h for h in tlc_histories(ctx, "Hist4.cfg") if not any(s[0] in ("load", "stale") or (s[0] == "prune" and s[1]) for s in h)]
    # pre-histories that leave marked packs behind are the interesting ones
    marked = [h for h in h3 + h4 if any(s[0] == "prune" for s in h)]
    plain = [h for h in h3 if not any(s[0] == "prune" for s in h)]
    if q:
        hists = [rng.choice(marked), rng.choice(plain)]
        gates = list(range(0, 34, 3))
        pairs = [(rng.randint(3, 25), rng.randint(3, 30)) for _ in range(6)]
    else:
        hists = rng.sample(marked, 8) + rng.sample(plain, 4)
        gates = list(range(0, 40))
        pairs = [(rng.randint(0, 30), rng.randint(0, 35)) for _ in range(40)]
    hists = hists + (DIRECTED[:3] if q else DIRECTED)
    progs = schedule_programs(ctx, rng, hists, gates, pairs)
    by_id = {p["id"]: p for p in progs}
    recs, r = run_trace(ctx, progs, "main", timeout=9000)
    ctx.traces += len(progs)
    classify(ctx, r, recs, by_id, STATE_TAGS, STEP_TAGS, "concurrent commands")
    parked = sum(1 for e in recs if e["e"] == "note" and e.get("parked"))
    graced = sum(1 for e in recs if e["e"] == "begin" and e.get("stale"))
    if parked == 0:
        raise vlib.ToolError("vacuity: no command was ever parked at its gate")
    kinds = {}
    for p in progs:
        kinds[p["cut"]] = kinds.get(p["cut"], 0) + 1
    ctx.extra.update({"evaluations": len(progs), "distinct_nontrivial": parked,
                      "rule": "pre-histories from Hist.tla x gate positions of command A (every back-end operation incl. reads) x "
                              "{B completely, B up to its own gate}; non-trivial = A really parked at its gate",
                      "schedules_by_kind": kinds, "parked": parked, "overlapping_backups": graced, "events": len(recs),
                      "prehistories": hists})
    for p in progs[:2]:
        ctx.sample({"id": p["id"], "schedule": p["schedule"], "hist": p["hist"]})
    ctx.assumptions += ["A2: no logical time passes while a prune runs; ticks happen only between commands",
                        "keep-delete (3600 s) exceeds every backup's duration (milliseconds here)",
                        "prune runs non-instant; instant-delete is outside the property"]


def replay(ctx, path):
    rec = json.load(open(path))
    prog = rec["program"]
    recs, r = run_trace(ctx, [prog], "replay")
    classify(ctx, r, recs, {prog["id"]: prog}, STATE_TAGS, STEP_TAGS, "concurrent commands")
