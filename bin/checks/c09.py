"""C09 — retention decisions follow the documented keep rules.

MC : MCForget (all timelines <= MaxLen over boundary instants x rule x counter): operational rule ==
     declarative reading, monotone in the counter, delete marks dominate.
TV : real KeepOptions::apply / grouped variant on generated timelines; TLC evaluates Forget!Keep on the
     logged input (ForgetTrace.tla) - the deciding part.
"""
import json
import os

import vlib

LEVEL = "model_checking"


def validate(ctx, trace, tag):
    r = vlib.tlc("ForgetTrace.tla", "ForgetTrace.cfg", workers=1, timeout=1800,
                 env={"TRACE": trace}, metadir=os.path.join(ctx.out, "tv-" + tag))
    if r.error or r.violated:
        open(os.path.join(ctx.out, "tv-%s.log" % tag), "w").write(r.out)
        raise vlib.ToolError("trace validation failed to run: %s" % (r.error or r.violated))
    terr = r.printed("TOOLERR")
    if terr:
        raise vlib.ToolError("trace spec reported: %s" % terr[:3])
    return r


def run(ctx):
    q = ctx.quick
    # 1. design level
    vlib.mc(ctx, "MCForget.tla", "MCForgetQuick.cfg" if q else "MCForget.cfg", workers=8, timeout=1500)
    vlib.mc(ctx, "MCForget.tla", "MCForgetMarks.cfg", workers=8, timeout=1500)

    # 2. real executions
    cases = 600 if q else 12000
    trace = os.path.join(ctx.out, "trace.ndjson")
    rc, out = vlib.vh(["forget", "--seed", ctx.seed, "--cases", cases, "--out", trace], timeout=900)
    if rc != 0:
        raise vlib.ToolError("forget driver failed: " + out[-2000:])
    recs = [json.loads(l) for l in open(trace)]

    # 3. validate
    r = validate(ctx, trace, "main")
    ctx.states += r.distinct
    ctx.transitions += r.generated
    ctx.traces += sum(1 for x in recs if x["kind"] != "cal")
    for nc in r.printed("NONCONF"):
        line, rid, problems = nc[1], nc[2], nc[3]
        rec = recs[line - 1]
        ctx.violation({"id": rid, "what": "real retention output differs from Forget!Keep",
                       "detail": problems, "seed": rec.get("seed"), "cases": rec.get("cases"), "record": rec})
    nontrivial = set()
    for x in recs:
        if x["kind"] == "case" and len(x["snaps"]) >= 2:
            nontrivial.add(json.dumps([x["snaps"], x["opts"]], sort_keys=True))
    ctx.extra.update({"evaluations": len(recs), "distinct_nontrivial": len(nontrivial),
                      "rule": "seeded timelines (1..40 snapshots clustered at period boundaries, mixed offsets, "
                              "duplicates, tags, ids, delete marks) x random keep options; non-trivial = >= 2 snapshots; "
                              "every 5th case goes through the grouped API, about half carry a raised-counter twin",
                      "records_by_kind": {k: sum(1 for x in recs if x["kind"] == k) for k in ("case", "group", "cal")}})
    for x in recs:
        if x["kind"] == "case" and 3 <= len(x["snaps"]) <= 5:
            ctx.sample({"id": x["id"], "opts": {k: v for k, v in x["opts"]["count"].items() if v != -2},
                        "snaps": [s["time"] for s in x["snaps"]], "out": x["out"]})
            if len(ctx.samples) >= 3:
                break

    # 4. negative controls: corrupt real records so that the property must fail
    base = [x for x in recs if x["kind"] == "case" and not x["err"] and len(x["out"]) >= 3][:40]
    neg = []
    for i, x in enumerate(base[:3]):
        y = json.loads(json.dumps(x))
        y.pop("out2", None)
        y.pop("opts2", None)
        y["id"] = "neg-flip-%d" % i
        y["out"][1]["keep"] = not y["out"][1]["keep"]
        neg.append(y)
    for x in base:
        ts = [json.dumps(x["snaps"][o["ix"] - 1]["time"], sort_keys=True) for o in x["out"]]
        if ts[0] != ts[-1]:
            y = json.loads(json.dumps(x))
            y.pop("out2", None)
            y.pop("opts2", None)
            y["id"] = "neg-order"
            y["out"][0], y["out"][-1] = y["out"][-1], y["out"][0]
            neg.append(y)
            break
    negf = os.path.join(ctx.out, "neg.ndjson")
    with open(negf, "w") as f:
        for y in neg:
            f.write(json.dumps(y) + "\n")
    rn = validate(ctx, negf, "neg")
    flagged = {nc[2] for nc in rn.printed("NONCONF")}
    for y in neg:
        ctx.negative_control(y["id"] in flagged, "corrupted forget record " + y["id"])

    # 5. thorough: exhaustive small scope through the real code
    if not q:
        grid = os.path.join(ctx.out, "grid.ndjson")
        rc, out = vlib.vh(["forget", "--grid", "3", "--times", os.path.join(vlib.SPEC, "forget_times.ndjson"),
                           "--out", grid], timeout=900)
        if rc != 0:
            raise vlib.ToolError("forget grid driver failed: " + out[-2000:])
        rg = validate(ctx, grid, "grid")
        grecs = [json.loads(l) for l in open(grid)]
        ctx.states += rg.distinct
        ctx.transitions += rg.generated
        ctx.traces += len(grecs)
        ctx.extra["grid_records"] = len(grecs)
        for nc in rg.printed("NONCONF"):
            rec = grecs[nc[1] - 1]
            ctx.violation({"id": nc[2], "what": "real retention output differs from Forget!Keep (grid)",
                           "detail": nc[3], "record": rec, "grid": True})
    ctx.assumptions += ["jiff converts civil fields + fixed offset to an instant correctly (cross-checked on sampled dates "
                        "against Calendar.tla by the 'cal' records)",
                        "delete-unchanged stays off in deciding runs (not one of the stated rules)"]


def replay(ctx, path):
    rec = json.load(open(path))
    one = os.path.join(ctx.out, "replay.ndjson")
    if rec.get("grid"):
        with open(one, "w") as f:
            f.write(json.dumps(rec["record"]) + "\n")
        raise vlib.ToolError("grid records are replayed by the thorough tier only")
    rc, out = vlib.vh(["forget", "--seed", rec["seed"], "--cases", rec["cases"], "--only", rec["id"], "--out", one])
    lines = [l for l in open(one) if '"kind":"cal"' not in l and '"cal"' not in l[:40]]
    recs = [json.loads(l) for l in open(one)]
    keep = [x for x in recs if x["kind"] != "cal"]
    with open(one, "w") as f:
        for x in keep:
            f.write(json.dumps(x) + "\n")
    r = validate(ctx, one, "replay")
    for nc in r.printed("NONCONF"):
        ctx.violation({"id": nc[2], "what": "real retention output differs from Forget!Keep", "detail": nc[3],
                       "seed": rec["seed"], "cases": rec["cases"], "record": keep[nc[1] - 1]})
