"""C20 — local storage back ends are exact maps and publish files atomically.

MC : Backend.tla: with the temporary-file + atomic publish design every listed file is complete in every state,
     including after a crash at any point of a write; the naive design (no temporary file) violates it (self-test).
TV : random call sequences (write / overwrite / remove / full read / ranged read / list, all file types, lengths
     0..maxlen, stray and temporary files planted) on LocalBackend, OpenDAL(fs) and OpenDAL(memory); every call with
     arguments and result is an event checked by BackendTrace.tla against the map.  On the directory back end a
     cfg-gated hook lists and reads at the pre-publish point (the new content must be invisible) and interrupts
     some writes there (nothing partial may be listed afterwards).
"""
import json
import os

import vlib

LEVEL = "model_checking"


def validate(ctx, trace, tag):
    r = vlib.tlc("BackendTrace.tla", "BackendTrace.cfg", workers=1, timeout=12000, env={"TRACE": trace},
                 metadir=os.path.join(ctx.out, "tv-" + tag), heap="6g")
    if r.error or r.violated or r.printed("TOOLERR"):
        open(os.path.join(ctx.out, "tv-%s.log" % tag), "w").write(r.out)
        raise vlib.ToolError("BackendTrace failed: %s %s" % (r.error or r.violated, r.printed("TOOLERR")[:1]))
    return r


def run(ctx):
    q = ctx.quick
    vlib.mc(ctx, "Backend.tla", "MCBackend.cfg", workers=4, timeout=600)
    r = vlib.tlc("Backend.tla", "MCBackendNaive.cfg", workers=1, timeout=300, metadir=os.path.join(ctx.out, "mc-naive"))
    ctx.negative_control(r.violated == "ListedComplete", "model: writing straight to the final name must violate ListedComplete")

    trace = os.path.join(ctx.out, "trace.ndjson")
    args = ["backend", "--seed", ctx.seed, "--seqs", 8 if q else 150, "--ops", 70 if q else 300,
            "--maxlen", 300000 if q else 4 * 1024 * 1024, "--out", trace]
    rc, out = vlib.vh(args, timeout=3000)
    if rc != 0:
        raise vlib.ToolError("backend driver failed: " + out[-2000:])
    recs = [json.loads(l) for l in open(trace)]
    rv = validate(ctx, trace, "main")
    ctx.states += rv.distinct
    ctx.transitions += rv.generated
    scen = [e for e in recs if e["e"] == "reset"]
    ctx.traces += len(scen)
    seen = set()
    for nc in rv.printed("NONCONF"):
        line, sc, items = nc[1], nc[2], nc[3]["#set"]
        for it in items:
            key = (sc, it[0])
            if key in seen:
                continue
            seen.add(key)
            ctx.violation({"id": sc, "what": "back end differs from the map model: %s" % it[0], "detail": it,
                           "backend": sc.rsplit("-", 1)[0], "event": recs[line - 1], "seed": ctx.seed, "args": [str(a) for a in args]})
    kinds = {}
    for e in recs:
        kinds[e["e"]] = kinds.get(e["e"], 0) + 1
    pre = sum(1 for e in recs if e.get("where") == "pre-publish")
    intr = sum(1 for e in recs if e["e"] == "write" and e.get("interrupted"))
    if pre == 0 or intr == 0 or kinds.get("stray", 0) == 0:
        raise vlib.ToolError("vacuity: pre-publish observations %d, interruptions %d, stray plants %d" % (pre, intr, kinds.get("stray", 0)))
    # negative controls on a copy of the first scenario
    first = []
    for e in recs:
        if e["e"] == "reset" and first:
            break
        first.append(e)
    negs = []
    a = json.loads(json.dumps(first))
    i = next(i for i, e in enumerate(a) if e["e"] == "list" and e["items"])
    a[i]["items"][0]["len"] += 1
    negs.append(("list-size", a))
    b = json.loads(json.dumps(first))
    i = next(i for i, e in enumerate(b) if e["e"] == "read" and e["ok"])
    b[i]["match"] = []
    negs.append(("read-other-content", b))
    c = json.loads(json.dumps(first))
    i = next(i for i, e in enumerate(c) if e["e"] == "write" and e["ok"])
    c.insert(i, {"e": "list", "tpe": c[i]["tpe"], "ok": True, "where": "pre-publish",
                 "items": [{"k": c[i]["k"], "len": c[i]["len"] + 12345}]})
    negs.append(("visible-before-publish", c))
    for name, tr in negs:
        f = os.path.join(ctx.out, "neg-%s.ndjson" % name)
        open(f, "w").write("\n".join(json.dumps(e) for e in tr) + "\n")
        rn = validate(ctx, f, "neg")
        ctx.negative_control(bool(rn.printed("NONCONF")), name)
    ctx.extra.update({"evaluations": len(recs), "distinct_nontrivial": len(scen),
                      "rule": "seeded call sequences per back end (local directory, OpenDAL fs, OpenDAL memory); 6 ids x 5 file types "
                              "so that overwrite / remove / re-write of the same key occur; lengths 0, 1..64, 4096, random up to maxlen",
                      "events_by_kind": kinds, "pre_publish_observations": pre, "interrupted_writes": intr})
    ctx.sample([e for e in first[:12]])
    ctx.assumptions += ["interruption = the writer stops at the hook point between sync and rename; torn pages / power loss "
                        "semantics of the file system are not modelled", "reads beyond the end of a file are not specified by the property"]


def replay(ctx, path):
    rec = json.load(open(path))
    trace = os.path.join(ctx.out, "replay.ndjson")
    a = rec["args"]
    a[a.index("--out") + 1] = trace
    rc, out = vlib.vh(a, timeout=3000)
    recs = [json.loads(l) for l in open(trace)]
    rv = validate(ctx, trace, "replay")
    for nc in rv.printed("NONCONF"):
        if nc[2] == rec["id"]:
            ctx.violation({"id": nc[2], "what": "back end differs from the map model", "detail": nc[3], "event": recs[nc[1] - 1],
                           "seed": rec["seed"], "args": rec["args"]})
            break
