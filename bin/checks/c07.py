"""C07 — identical content is stored once; unchanged data adds nothing; typed identity.

MC : Packer.tla: the backup pipeline (two packers with their three "already stored?" filters, writer actors, shared
     indexer) in all interleavings: nothing submitted is dropped, no orphan packs, termination - with typed identity;
     with the identity reduced to the id alone a tree and a data blob of equal id lose one of the two (self-test and
     the design-level picture of the defect the check found in the code).  Repo.tla: backup uploads Needs \\ View.
TV : pairs of consecutive backups related by edit scripts (prepend / insert / delete / overwrite / append / duplicate /
     rename / add / nothing) under Rabin and fixed-size chunkers; uploads are read off the storage log with the
     independent decoder; DedupTrace.tla checks NoNewBlobs, ExactDelta (data and trees), SnapshotChunks, Shift,
     readability; collision scenarios (file = serialisation of a sibling directory) check TypedBothKept.
"""
import json
import os

import vlib

LEVEL = "model_checking"


def validate(ctx, trace, tag):
    r = vlib.tlc("DedupTrace.tla", "DedupTrace.cfg", workers=1, timeout=12000, env={"TRACE": trace},
                 metadir=os.path.join(ctx.out, "tv-" + tag), heap="6g")
    if r.error or r.violated or r.printed("TOOLERR"):
        open(os.path.join(ctx.out, "tv-%s.log" % tag), "w").write(r.out)
        raise vlib.ToolError("DedupTrace failed: %s %s" % (r.error or r.violated, r.printed("TOOLERR")[:1]))
    return r


def emit(ctx, r, recs, args):
    for nc in r.printed("NONCONF"):
        rec = recs[nc[1] - 1]
        for it in nc[3]["#set"]:
            if isinstance(it[0], str) and it[0].startswith("TOOLERR"):
                raise vlib.ToolError("scenario construction failed: %s" % rec["id"])
            ctx.violation({"id": rec["id"], "kind": rec["kind"], "formula": it[0], "what": "dedup: %s violated in %s (%s)" % (it[0], rec["id"], rec.get("edit", rec.get("file"))),
                           "detail": it, "record": rec, "args": [str(a) for a in args]})


def run(ctx):
    q = ctx.quick
    vlib.mc(ctx, "MCPacker.tla", "MCPackerTyped.cfg", workers=4, timeout=900)
    vlib.mc(ctx, "MCPacker.tla", "MCPackerPlain.cfg", workers=4, timeout=900)
    r = vlib.tlc("MCPacker.tla", "MCPackerUntyped.cfg", workers=2, timeout=600, metadir=os.path.join(ctx.out, "mc-untyped"))
    ctx.negative_control(r.violated == "NothingDropped", "model: untyped identity in the indexer must drop a blob")
    trace = os.path.join(ctx.out, "trace.ndjson")
    args = ["dedup", "--seed", ctx.seed, "--pairs", 45 if q else 4000, "--collisions", 8 if q else 60, "--out", trace]
    rc, out = vlib.vh(args, timeout=6000)
    if rc != 0:
        raise vlib.ToolError("dedup driver failed: " + out[-2000:])
    recs = [json.loads(l) for l in open(trace)]
    rv = validate(ctx, trace, "main")
    ctx.states += rv.distinct
    ctx.transitions += rv.generated
    ctx.traces += len(recs)
    emit(ctx, rv, recs, args)
    pairs = [x for x in recs if x["kind"] == "pair" and x["outcome"] == "ok"]
    coll = [x for x in recs if x["kind"] == "collide"]
    if not pairs or not coll or not any(x["same"] for x in pairs) or not any(x["exp_data"] for x in pairs):
        raise vlib.ToolError("vacuity: pairs %d, collisions %d" % (len(pairs), len(coll)))
    # negative controls
    base = next(x for x in pairs if len(x["up_data"]) >= 2)
    n1 = json.loads(json.dumps(base))
    n1["id"] = "neg-missing-upload"
    n1["up_data"] = n1["up_data"][1:]
    n2 = json.loads(json.dumps(next(x for x in pairs if x["same"])))
    n2["id"] = "neg-reupload"
    n2["up_data"] = ["b1"]
    n3 = json.loads(json.dumps(coll[0]))
    n3["id"] = "neg-collision"
    n3["tree_indexed"] = False
    nf = os.path.join(ctx.out, "neg.ndjson")
    open(nf, "w").write("\n".join(json.dumps(x) for x in (n1, n2, n3)) + "\n")
    rn = validate(ctx, nf, "neg")
    flagged = {nc[2] for nc in rn.printed("NONCONF")}
    for n in (n1, n2, n3):
        ctx.negative_control(n["id"] in flagged, n["id"])
    edits = {}
    for x in pairs:
        k = x["edit"].split()[0]
        edits[k] = edits.get(k, 0) + 1
    ctx.extra.update({"evaluations": len(recs), "distinct_nontrivial": sum(1 for x in pairs if x["exp_data"] or x["up_tree"]),
                      "rule": "seeded source trees (one file of 2..6 maximum chunk sizes, small files, nested directories, sometimes a twin "
                              "file) x edit scripts x {rabin 256/64/1024, rabin 1024/512/4096, fixed 128} x pack sizes; half of the second "
                              "backups with --force; collision scenarios with the copy sorted before / after the directory and tiny / large packs",
                      "edits": edits, "collisions": len(coll)})
    ctx.sample({k: v for k, v in base.items() if k not in ("ref_data2", "snap_data2")})
    ctx.assumptions += ["expected chunk ids come from the repository's own chunk iterator (validated against Chunker.tla by C06) applied to the sources",
                        "duplicates inside one run (a blob submitted again while its pack is queued) are tolerated, as the statement promises dedup after the index is reloaded"]


def replay(ctx, path):
    rec = json.load(open(path))
    trace = os.path.join(ctx.out, "replay.ndjson")
    a = rec["args"]
    a[a.index("--out") + 1] = trace
    vlib.vh(a, timeout=3000)
    recs = [x for x in (json.loads(l) for l in open(trace)) if x["id"] == rec["id"]]
    open(trace, "w").write("\n".join(json.dumps(x) for x in recs) + "\n")
    emit(ctx, validate(ctx, trace, "replay"), recs, a)
