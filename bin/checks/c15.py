"""C15 — append-only and dry-run modes never remove or overwrite stored data.

MC : Repo.tla with AppendOnly = TRUE: action property NoRemoval (no snapshot / index / pack ever leaves the store).
RP : (alphabet incl. copy-into from a second repository) Prog.tla enumerates all programs of <= 2 operations (quick) and simulated programs of <= 4 over the public
     operation alphabet; each runs on an append-only repository.  Separately every command runs with its dry-run flag.
TV : RepoTrace.tla over the storage log: AppendOnly (no remove of snapshot/index/pack while append-only),
     RefusedEarly (a command refused for append-only has issued no mutating operation), Overwrite, DryRun
     (a dry-run command issues no mutating operation at all).
"""
import json
import os
import random

import gen
import vlib
from repolib import classify, run_trace

LEVEL = "model_checking"
STATE_TAGS = set()
STEP_TAGS = {"AppendOnly", "RefusedEarly", "Overwrite", "DryRun"}


def op_step(rng, name, files, nsn):
    if name == "backup":
        return {"cmd": "backup", "files": gen.evolve(rng, files)}
    if name == "forget":
        return {"cmd": "forget", "snaps": [rng.randrange(max(nsn, 1))]}
    if name == "prune":
        return {"cmd": "prune", "opts": gen.prune_opts(rng, 3600, allow_instant=False)}
    if name == "prune_instant":
        o = gen.prune_opts(rng, 3600, allow_instant=False)
        o["instant"] = True
        return {"cmd": "prune", "opts": o}
    if name == "repair_index":
        return {"cmd": "repair_index", "read_all": rng.random() < 0.5}
    if name == "repair_snapshots":
        return {"cmd": "repair_snapshots", "delete": False}
    if name == "repair_snapshots_delete":
        return {"cmd": "repair_snapshots", "delete": True}
    if name == "rewrite":
        return {"cmd": "rewrite", "glob": rng.choice(["a", "b", "x"]), "forget": False}
    if name == "rewrite_forget":
        return {"cmd": "rewrite", "glob": rng.choice(["a", "b", "x"]), "forget": True}
    if name == "config":
        return {"cmd": "config", "compression": rng.choice([1, 5]), "pack": rng.choice([150, 500])}
    if name == "config_ao_off":
        return {"cmd": "config", "append_only": False}
    if name == "add_key":
        return {"cmd": "add_key"}
    if name == "merge":
        return {"cmd": "merge"}
    if name == "copy_into":
        return {"cmd": "copy_into", "files": gen.evolve(rng, files)}
    raise ValueError(name)


def ao_program(rng, ops, pid, seed):
    steps, nsn, alive, files = gen.history(rng, rng.randint(2, 3), 3600, allow_instant=False)
    # garbage and damage make the removing commands want to remove something
    pre = list(steps)
    if rng.random() < 0.5:
        pre.append({"cmd": "damage", "kind": rng.choice(["pack_data", "index_packs"]), "which": rng.randint(0, 3)})
    if rng.random() < 0.6:
        # an interrupted backup: packs no index file lists (a prune would remove them)
        pre.append({"cmd": "backup", "files": gen.evolve(rng, gen.evolve(rng, files)), "fail_at": rng.randint(1, 4)})
    pre.append({"cmd": "config", "append_only": True})
    body = [op_step(rng, o, files, nsn) for o in ops]
    cfg = gen.rand_cfg(rng)
    cfg.pop("version", None)
    return {"id": pid, "seed": seed, "cfg": cfg, "probe": "none", "steps": pre + body, "ops": ops, "cut": "+".join(ops)}


DRY = [{"cmd": "backup", "dry": True}, {"cmd": "repair_index", "dry": True, "read_all": True},
       {"cmd": "repair_index", "dry": True}, {"cmd": "repair_snapshots", "dry": True, "delete": True},
       {"cmd": "rewrite", "dry": True, "glob": "a", "forget": True}, {"cmd": "prune_plan", "opts": {"max_unused": "0%"}}]


def dry_program(rng, k, pid, seed):
    steps, nsn, alive, files = gen.history(rng, rng.randint(2, 4), 3600, allow_instant=False)
    pre = list(steps)
    if rng.random() < 0.75:
        # (index_packs: all packs of one index file vanish - that index file is completely stale afterwards)
        pre.append({"cmd": "damage", "kind": rng.choice(["pack_data", "index", "index_packs", "index_packs"]), "which": rng.randint(0, 3)})
    st = dict(DRY[k % len(DRY)])
    if st["cmd"] == "backup":
        st["files"] = gen.evolve(rng, files)
    return {"id": pid, "seed": seed, "cfg": gen.rand_cfg(rng), "probe": "none", "steps": pre + [st], "cut": "dry-" + st["cmd"]}


def prog_lists(ctx, cfg, simulate=None):
    r = vlib.tlc("Prog.tla", cfg, workers=1, timeout=600, metadir=os.path.join(ctx.out, "prog-" + cfg),
                 simulate=simulate, depth=5 if simulate else None, seed=ctx.seed if simulate else None)
    if r.error or r.violated:
        raise vlib.ToolError("Prog.tla/%s: %s" % (cfg, r.error or r.violated))
    ctx.states += r.distinct
    ctx.transitions += r.generated
    seen, out = set(), []
    for x in r.printed("REPLAY"):
        k = json.dumps(x[1])
        if k not in seen:
            seen.add(k)
            out.append(x[1])
    return out


def run(ctx):
    q = ctx.quick
    vlib.mc(ctx, "MCRepo.tla", "MCRepoAppendOnly.cfg", workers=8, timeout=1200)
    vlib.mc(ctx, "RepairIndex.tla", "MCRepairIndexDry.cfg", workers=4, timeout=600)      # DryRunInert for repair-index
    rng = random.Random(ctx.seed * 32452843 + 15)
    p2 = prog_lists(ctx, "Prog2.cfg")
    p4 = [p for p in prog_lists(ctx, "Prog4.cfg", simulate=400 if q else 6000) if len(p) >= 3]
    ops = (p2 if not q else [p for p in p2 if len(p) == 1] + rng.sample([p for p in p2 if len(p) == 2], 45)) + \
        (p4[:25] if q else p4[:2500])
    progs = [ao_program(rng, o, "c15-ao-%d-%d" % (ctx.seed, i), ctx.seed * 10000 + i) for i, o in enumerate(ops)]
    ndry = 36 if q else 300
    progs += [dry_program(rng, k, "c15-dry-%d-%d" % (ctx.seed, k), ctx.seed * 10000 + 5000 + k) for k in range(ndry)]
    by_id = {p["id"]: p for p in progs}
    recs, r = run_trace(ctx, progs, "main", timeout=6000)
    ctx.traces += len(progs)
    classify(ctx, r, recs, by_id, STATE_TAGS, STEP_TAGS, "append-only / dry-run")
    refused = sum(1 for e in recs if e["e"] == "end" and e.get("ao_refused"))
    drycmds = sum(1 for e in recs if e["e"] == "begin" and e.get("dry"))
    if refused == 0 or drycmds == 0:
        raise vlib.ToolError("vacuity: no command was refused for append-only (%d) or ran dry (%d)" % (refused, drycmds))
    # negative controls: a removal inside an append-only scenario, a write inside a dry-run command
    first = []
    for e in recs:
        if e["e"] == "reset" and first:
            break
        first.append(e)
    neg = [e for e in first if e["e"] != "probe"]
    cfgpos = max(i for i, e in enumerate(neg) if e["e"] == "cfg" and e["append_only"])
    neg.insert(cfgpos + 1, {"e": "rm", "tpe": "snapshot", "id": "s1", "proc": 77, "sc": neg[0]["id"], "seq": 0, "store": 0})
    f = os.path.join(ctx.out, "neg-ao.ndjson")
    open(f, "w").write("\n".join(json.dumps(e) for e in neg) + "\n")
    rn = vlib.tlc("RepoTrace.tla", "RepoTrace.cfg", workers=1, timeout=600, env={"TRACE": f}, metadir=os.path.join(ctx.out, "tv-neg"))
    tags = {it[0] for nc in rn.printed("NONCONF") if nc[3] == "step" for it in nc[4]["#set"]}
    ctx.negative_control("AppendOnly" in tags, "removal after the repository became append-only")
    neg2 = [{"e": "reset", "id": "negdry", "cfg": {}, "sc": "negdry"},
            {"e": "begin", "cmd": "backup", "proc": 1, "now": 0, "dry": True, "sc": "negdry"},
            {"e": "wpack", "proc": 1, "p": "p1", "blobs": [["data", "b1"]], "sd": True, "size": 1, "ow": False, "sc": "negdry", "seq": 1, "store": 0},
            {"e": "end", "proc": 1, "res": "ok", "msg": "", "ao_refused": False, "sc": "negdry"}]
    f = os.path.join(ctx.out, "neg-dry.ndjson")
    open(f, "w").write("\n".join(json.dumps(e) for e in neg2) + "\n")
    rn = vlib.tlc("RepoTrace.tla", "RepoTrace.cfg", workers=1, timeout=600, env={"TRACE": f}, metadir=os.path.join(ctx.out, "tv-neg"))
    tags = {it[0] for nc in rn.printed("NONCONF") if nc[3] == "step" for it in nc[4]["#set"]}
    ctx.negative_control("DryRun" in tags, "pack write inside a dry-run backup")
    ctx.extra.update({"evaluations": len(progs), "distinct_nontrivial": len({p["cut"] for p in progs}),
                      "rule": "behaviours of Prog.tla (all programs of <= 2 operations, simulated ones of 3-4) on an append-only "
                              "repository with garbage/damage present; each command x dry-run flag",
                      "programs_len2_available": len(p2), "commands_refused_for_append_only": refused, "dry_run_commands": drycmds,
                      "events": len(recs)})
    for p in progs[:2] + progs[-1:]:
        ctx.sample({"id": p["id"], "cut": p["cut"], "steps": [s["cmd"] for s in p["steps"]]})
    ctx.assumptions += ["key files are outside the statement (delete_key is not refused in append-only mode, deviation D3)"]


def replay(ctx, path):
    rec = json.load(open(path))
    prog = rec["program"]
    recs, r = run_trace(ctx, [prog], "replay")
    classify(ctx, r, recs, {prog["id"]: prog}, STATE_TAGS, STEP_TAGS, "append-only / dry-run")
