"""C11 — an incremental backup with parents equals a full backup.

MC : Parent.tla - the per-entry decision of a parent-based backup (Parent::is_parent / process and the tree short-cut):
     every combination of {current kind} x {parent node: absent / file / dir / link, same or different size, mtime,
     ctime, inode, content, blobs indexed or not} for one and two parents x {ignore-ctime, compare-inode}:
     Equal (under the property's premise the content recorded is the content read), Present (reuse only of indexed
     blobs), ReadIfMissing.  The decision without the index test / without the type test violates Present / Equal
     (negative controls).
RP : every case of the one-parent model (and sampled two-parent cases) becomes one path of a real source tree; the real
     backup with explicit parents runs after the parents' blobs of chosen files were really lost from the index (packs
     removed + repair-index) or the parents' tree packs were removed; then the same source is backed up with --force.
TV : ParentTrace.tla on the real facts (parents' / result's / forced backup's nodes by path through ls, index content
     before the backup by the independent decoder, files the archiver opened, tree ids, read-back, saved or skipped):
     ReuseOK, EqualP per path, Equal (tree ids), Present, SkipOK.  Cases outside the premise (content changed, metadata
     identical) must really produce a differing tree - otherwise the comparison would be blind (vacuity guard).
"""
import json
import os
import random

import vlib

LEVEL = "model_checking"
T0 = 1_600_000_000


def cases(ctx, cfg):
    r = vlib.tlc("Parent.tla", cfg, workers=1, timeout=900, metadir=os.path.join(ctx.out, "gen-" + cfg))
    if r.error or r.violated:
        raise vlib.ToolError("Parent.tla/%s: %s" % (cfg, r.error or r.violated))
    ctx.states += r.distinct
    ctx.transitions += r.generated
    ctx.mc_runs.append({"module": "Parent.tla", "cfg": cfg, "distinct": r.distinct, "generated": r.generated})
    out, seen = [], set()
    for x in r.printed("REPLAY"):
        k = json.dumps(x[1:])
        if k not in seen:
            seen.add(k)
            out.append({"cur": x[1], "pars": x[2], "ignore_ctime": x[3], "compare_inode": x[4], "class": x[5], "opened": x[6]})
    return out


def entry(path, n, kind):
    e = {"path": path, "kind": kind, "seed": 1000 + n, "size": 100 + n % 90, "mtime": T0 + n, "ctime": T0 + n, "inode": 50 + n}
    if kind == "link":
        e["target"] = "T%d" % n
    return e


def realise(case_list, opts, nparents, damage, rng):
    """one program: every case becomes a path; returns (program, per-path case)"""
    cur, pars = [], [[] for _ in range(nparents)]
    dirs = set()
    bypath = {}
    for n, c in enumerate(case_list):
        d = "g%d" % (n // 16)
        if d not in dirs:
            dirs.add(d)
            cur.append({"path": d, "kind": "dir", "mtime": T0, "ctime": T0, "inode": 7})
            for p in pars:
                p.append({"path": d, "kind": "dir", "mtime": T0, "ctime": T0, "inode": 7})
        path = "%s/c%03d" % (d, n)
        bypath["src/" + path] = c
        ce = entry(path, n, c["cur"])
        cur.append(ce)
        if c["cur"] == "dir":
            cur.append(entry(path + "/k", 5000 + n, "file"))
        for i, rel in enumerate(c["pars"][:nparents]):
            kind, size, mtime, ctime, inode, content, indexed = rel
            if kind == "absent":
                continue
            pe = entry(path, n, kind)
            j = i + 1
            if kind == "file":
                if not content:
                    pe["seed"] += 500000 * j
                if not size:
                    pe["size"] += 13 * j
                pe["lose"] = not indexed
            elif kind == "link" and not content:
                pe["target"] = "U%d_%d" % (n, j)
            if not mtime:
                pe["mtime"] -= 1000 * j
            if not ctime:
                pe["ctime"] -= 2000 * j
            if not inode:
                pe["inode"] += 100000 * j
            pars[i].append(pe)
            if kind == "dir":
                ke = entry(path + "/k", 5000 + n, "file")
                if not content or c["cur"] != "dir":
                    ke["seed"] += 700000 * j
                pars[i].append(ke)
    o = dict(opts)
    o["damage"] = damage
    return {"opts": o, "parents": pars, "cur": cur, "pack": rng.choice([200, 400, 1000])}, bypath


NAMES = ["a", "a.b", "a-b", "a b", "b", "B", "c", "\u00e4", "z", "k", "0", "_"]


def rand_tree(rng, prefix, depth, nid):
    """entries of a random tree below `prefix` (list of dicts), unique seeds from nid[0]"""
    out = []
    for name in rng.sample(NAMES, rng.randint(1, 5)):
        path = prefix + "/" + name if prefix else name
        nid[0] += 1
        n = nid[0]
        r = rng.random()
        if r < 0.3 and depth > 0:
            out.append({"path": path, "kind": "dir", "mtime": T0 + n, "ctime": T0 + n, "inode": 50 + n})
            out += rand_tree(rng, path, depth - 1, nid)
        elif r < 0.4:
            out.append(entry(path, n, "link"))
        else:
            e = entry(path, n, "file")
            e["size"] = rng.choice([1, 63, 64, 65, 128, 200, 333])
            out.append(e)
    return out


def edit_tree(rng, entries, nid, honest):
    """a later state of the source.  honest: every content change comes with a size / mtime / ctime change"""
    out = []
    dropped = []
    for e in entries:
        if any(e["path"].startswith(d + "/") for d in dropped):
            continue
        e = dict(e)
        r = rng.random()
        nid[0] += 1
        n = nid[0]
        if e["kind"] == "file":
            if r < 0.35:
                pass
            elif r < 0.45:
                e["mtime"] += 5                                  # touched
            elif r < 0.55:
                e["seed"] += 900000; e["mtime"] += 7             # same size, new content, new mtime
            elif r < 0.62:
                e["seed"] += 900000; e["ctime"] += 9             # same size and mtime, new content, new ctime only
            elif r < 0.70:
                e["seed"] += 900000; e["size"] += rng.choice([1, 64])  # new size, same mtime
            elif r < 0.74 and not honest:
                e["seed"] += 900000                              # outside the premise
            elif r < 0.80:
                e["inode"] += 1000                               # moved to another inode, unchanged
            elif r < 0.86:
                dropped.append(e["path"]); continue              # removed
            elif r < 0.92:
                e = {"path": e["path"], "kind": "dir", "mtime": T0 + n, "ctime": T0 + n, "inode": 50 + n}
                out.append(e)
                out.append(entry(e["path"] + "/k", n, "file"))
                continue
            else:
                e = entry(e["path"], n, "link")
        elif e["kind"] == "dir":
            if r < 0.1:
                dropped.append(e["path"]); continue
            elif r < 0.2:
                dropped.append(e["path"])                        # directory replaced by a file
                out.append(entry(e["path"], n, "file")); continue
            elif r < 0.3:
                e["mtime"] += 3
        else:
            if r < 0.2:
                e["target"] = "V%d" % n
            elif r < 0.3:
                out.append(entry(e["path"], n, "file")); continue
        out.append(e)
    # renames: a surviving top-level entry (with everything below it) gets a new name that sorts elsewhere
    tops = sorted({e["path"].split("/")[0] for e in out})
    if tops and rng.random() < 0.7:
        old = rng.choice(tops)
        new = rng.choice([x for x in NAMES + ["zz", "00"] if x not in tops])
        for e in out:
            if e["path"] == old or e["path"].startswith(old + "/"):
                e["path"] = new + e["path"][len(old):]
    nid2 = [nid[0] + 100000]
    have = {e["path"] for e in out}
    for e in rand_tree(rng, "", 1, nid2):
        if e["path"].split("/")[0] not in {h.split("/")[0] for h in have}:
            out.append(e)
    nid[0] = nid2[0]
    return out


def random_program(rng, pid, honest):
    nid = [0]
    s0 = rand_tree(rng, "", 3, nid)
    s1 = edit_tree(rng, s0, nid, True)
    cur = edit_tree(rng, s1 if rng.random() < 0.7 else s0, nid, honest)
    two = rng.random() < 0.5
    damage = rng.choice(["none", "none", "data", "tree", "subtree", "subtree"])
    if damage == "data":
        for e in s0 + s1:
            if e["kind"] == "file" and rng.random() < 0.3:
                e["lose"] = True
    opts = {"ignore_ctime": rng.random() < 0.4, "ignore_inode": rng.random() < 0.4, "skip_if_unchanged": rng.random() < 0.3, "damage": damage}
    return {"id": pid, "opts": opts, "parents": [s0, s1] if two else [s1], "cur": cur, "pack": rng.choice([200, 400, 1000])}


def validate(ctx, trace, tag):
    r = vlib.tlc("ParentTrace.tla", "ParentTrace.cfg", workers=1, timeout=12000, env={"TRACE": trace},
                 metadir=os.path.join(ctx.out, "tv-" + tag), heap="8g")
    if r.error or r.violated or r.printed("TOOLERR"):
        open(os.path.join(ctx.out, "tv-%s.log" % tag), "w").write(r.out)
        raise vlib.ToolError("ParentTrace failed: %s %s" % (r.error or r.violated, r.printed("TOOLERR")[:1]))
    ctx.states += r.distinct
    ctx.transitions += r.generated
    return r


def emit(ctx, r, recs, progs):
    for nc in r.printed("NONCONF"):
        rec = recs[nc[1] - 1]
        seen = set()
        for it in nc[3]["#set"]:
            if it[0] in seen:
                continue
            seen.add(it[0])
            ctx.violation({"id": rec["id"], "formula": it[0], "what": "parent-based backup: %s in %s: %s" % (it[0], rec["id"], json.dumps(it)[:300]),
                           "detail": it, "opts": rec["opts"], "program": progs.get(rec["id"], {})})


def run(ctx):
    q = ctx.quick
    vlib.mc(ctx, "Parent.tla", "MCParent1.cfg", workers=2, timeout=600)
    vlib.mc(ctx, "Parent.tla", "MCParent.cfg", workers=8, timeout=900)
    r = vlib.tlc("Parent.tla", "MCParentNoIndex.cfg", workers=1, timeout=300, metadir=os.path.join(ctx.out, "mc-noindex"))
    ctx.negative_control(r.violated == "Present", "model: reuse without the index test must violate Present")
    r = vlib.tlc("Parent.tla", "MCParentNoType.cfg", workers=1, timeout=300, metadir=os.path.join(ctx.out, "mc-notype"))
    ctx.negative_control(r.violated == "Equal", "model: matching without the type test must violate Equal")

    rng = random.Random(ctx.seed * 15485863 + 11)
    c1 = cases(ctx, "MCParentGen1.cfg")
    progs = {}
    # all one-parent cases, grouped by the options they were enumerated with
    for ic in (False, True):
        for ci in (False, True):
            group = [c for c in c1 if c["ignore_ctime"] == ic and c["compare_inode"] == ci]
            if q:
                group = rng.sample(group, 120)
            for damage in ("none", "data", "subtree") + (() if q else ("tree",)):
                # compare_inode: the library compares inodes exactly when its ignore_inode flag is set (see DESIGN, observation O1)
                opts = {"ignore_ctime": ic, "ignore_inode": ci, "skip_if_unchanged": rng.random() < 0.3}
                p, _ = realise(group, opts, 1, damage, rng)
                p["id"] = "c11-%d-%d" % (ctx.seed, len(progs))
                progs[p["id"]] = p
    # two parents: sampled cases of the two-parent model
    c2 = cases(ctx, "MCParentGen2.cfg") if not q else None
    for k in range(2 if q else 16):
        if c2:
            group = rng.sample(c2, 300)
        else:
            group = [{"cur": a["cur"], "pars": a["pars"] + b["pars"], "ignore_ctime": a["ignore_ctime"], "compare_inode": a["compare_inode"]}
                     for a, b in zip(rng.sample(c1, 150), rng.sample(c1, 150)) if a["cur"] == b["cur"] or True]
        ic, ci = rng.random() < 0.5, rng.random() < 0.5
        opts = {"ignore_ctime": ic, "ignore_inode": ci, "skip_if_unchanged": False}
        p, _ = realise(group, opts, 2, rng.choice(["none", "data"]), rng)
        p["id"] = "c11-%d-%d" % (ctx.seed, len(progs))
        progs[p["id"]] = p
    # nothing changed at all: skip-if-unchanged must leave the snapshot out, and only then
    same = [c for c in c1 if c["pars"][0][:6] == [c["cur"], True, True, True, True, True] and c["pars"][0][6]][:40]
    for skip in (True, False):
        p, _ = realise(same, {"ignore_ctime": False, "ignore_inode": False, "skip_if_unchanged": skip}, 1, "none", rng)
        p["id"] = "c11-%d-%d" % (ctx.seed, len(progs))
        progs[p["id"]] = p
    # random trees (depth <= 3, names that sort around each other) and random edits: touch, change with / without size change,
    # ctime-only change, removal, rename of whole subtrees, file <-> dir <-> symlink, additions; some outside the premise
    for k in range(12 if q else 400):
        pid = "c11-%d-r%d" % (ctx.seed, k)
        progs[pid] = random_program(rng, pid, honest=k % 4 != 0)
    pf = os.path.join(ctx.out, "programs.ndjson")
    open(pf, "w").write("\n".join(json.dumps(p) for p in progs.values()) + "\n")
    trace = os.path.join(ctx.out, "trace.ndjson")
    rc, out = vlib.vh(["parent", "--programs", pf, "--out", trace], timeout=9000)
    if rc != 0:
        raise vlib.ToolError("parent driver failed: " + out[-1500:])
    recs = [json.loads(l) for l in open(trace)]
    if any(x["e"] == "toolerr" for x in recs):
        raise vlib.ToolError("parent driver: %s" % [(x["what"], x["msg"]) for x in recs if x["e"] == "toolerr"][:2])
    rv = validate(ctx, trace, "main")
    emit(ctx, rv, recs, progs)
    ctx.traces += len(recs)
    ok = [x for x in recs if x.get("result") == "ok"]
    nfiles = sum(1 for x in ok for p, n in x["fnodes"].items() if n["kind"] == "file")
    reused = sum(1 for x in ok for p, n in x["fnodes"].items() if n["kind"] == "file" and p not in set(x["opened"]))
    differing = sum(1 for x in ok if x["rtree"] != x["ftree"])
    lost = sum(1 for x in ok if x["lost_packs"] > 0)
    skipped = sum(1 for x in ok if not x["saved"])
    if reused == 0 or reused == nfiles or differing == 0 or lost == 0 or skipped == 0:
        raise vlib.ToolError("vacuity: files %d reused %d, runs with differing tree (premise violated) %d, runs with lost packs %d, skipped %d"
                             % (nfiles, reused, differing, lost, skipped))
    # negative controls: records corrupted in one field
    base = next(x for x in ok if x["rtree"] == x["ftree"] and x["opts"]["damage"] == "none")
    negs = []
    n = json.loads(json.dumps(base)); n["id"] = "neg-tree"; n["rtree"] = "0" * 10
    # make the premise hold trivially by dropping the parents
    n["parents"] = []; n["opened"] = [p for p, v in n["fnodes"].items() if v["kind"] == "file"]; negs.append(n)
    n = json.loads(json.dumps(base)); n["id"] = "neg-reuse"; n["parents"] = []; n["opened"] = []; negs.append(n)
    n = json.loads(json.dumps(base)); n["id"] = "neg-unindexed"; n["indexed"] = []; negs.append(n)
    n = json.loads(json.dumps(base)); n["id"] = "neg-skip"; n["saved"] = False; n["opts"]["skip_if_unchanged"] = False; negs.append(n)
    nf = os.path.join(ctx.out, "neg.ndjson")
    open(nf, "w").write("\n".join(json.dumps(x) for x in negs) + "\n")
    flagged = {nc[2] for nc in validate(ctx, nf, "neg").printed("NONCONF")}
    for x in negs:
        ctx.negative_control(x["id"] in flagged, x["id"])
    ctx.extra.update({"evaluations": nfiles, "distinct_nontrivial": len(c1) + (len(c2) if c2 else 0),
                      "rule": "every case of Parent.tla (one parent) as one path of a real source x {ignore-ctime, compare-inode} x {no damage, "
                              "blobs lost, tree packs lost}; sampled two-parent cases; unchanged sources with / without skip-if-unchanged",
                      "backups": len(ok), "files": nfiles, "files_reused": reused, "runs_outside_premise_with_differing_tree": differing,
                      "runs_with_lost_packs": lost, "snapshots_skipped": skipped, "one_parent_cases": len(c1), "exhaustive": False})
    ctx.sample({"id": base["id"], "opts": base["opts"], "rtree": base["rtree"], "ftree": base["ftree"], "summary": base["summary"]})
    ctx.assumptions += ["sources are in-memory trees with controlled size / mtime / ctime / inode; special files are not generated",
                        "parents are given explicitly (selection by group / latest is not part of the property's statement)",
                        "observation O1 (DESIGN.md): the library compares inodes exactly when ignore_inode is set; irrelevant for the property"]


def replay(ctx, path):
    rec = json.load(open(path))
    prog = rec["program"]
    pf = os.path.join(ctx.out, "replay-prog.ndjson")
    open(pf, "w").write(json.dumps(prog) + "\n")
    trace = os.path.join(ctx.out, "replay.ndjson")
    vlib.vh(["parent", "--programs", pf, "--out", trace], timeout=3000)
    recs = [json.loads(l) for l in open(trace)]
    emit(ctx, validate(ctx, trace, "replay"), recs, {prog["id"]: prog})
