"""C16 — hot/cold repositories keep the hot copy complete at every moment.

MC : HotCold.tla: every store operation refined into its hot and cold halves with an interruption between them:
     HotComplete and NoDataInHot hold in every state for write = hot-then-cold, remove = cold-then-hot; each of the
     two swapped orders violates HotComplete (self-tests).
TV : histories of backup / forget / prune / config / repair-index / restore / check on a real hot/cold pair (two
     in-memory stores on one clock; the cold one optionally REJECTS reads of files that were not warmed up since they
     were written); every operation of both stores is an event of HotColdTrace.tla: HotComplete and NoDataInHot after
     every event (= every interruption point), WarmBeforeRead at every cold read, Equivalent against a twin run on a
     single store; then classes of hot files are removed and the hot/cold repair must restore completeness.
"""
import json
import os
import random

import gen
import vlib

LEVEL = "model_checking"


def programs(seed, n):
    rng = random.Random(seed * 6700417 + 16)
    progs = []
    for i in range(n):
        steps, nsn, alive, files = gen.history(rng, rng.randint(2, 5), 3600, allow_instant=True)
        steps = [s for s in steps if s["cmd"] != "tick"]
        for s in steps:
            if s["cmd"] == "prune":
                s["opts"]["keep_delete"] = 0
                s["opts"]["keep_pack"] = 0
        body = []
        for s in steps:
            body.append(s)
            if rng.random() < 0.3:
                body.append({"cmd": "restore"})
        body.append({"cmd": "restore"})
        if rng.random() < 0.4:
            body.append({"cmd": "repair_index", "read_all": rng.random() < 0.5})
        if rng.random() < 0.3:
            body.append({"cmd": "config", "compression": rng.choice([1, 4])})
        if i % 5 == 3:
            # a configuration change must reach the store new handles read it from: append-only, then commands that it refuses
            k = rng.randrange(1, len(body) + 1)
            body[k:k] = [{"cmd": "config", "append_only": True}, {"cmd": "forget", "snaps": [0]}, {"cmd": "prune", "opts": {"keep_delete": 0, "keep_pack": 0, "instant": True, "max_repack": "unlimited", "max_unused": "0"}},
                         {"cmd": "config", "append_only": False}]
        body.append({"cmd": "check"})
        mode = ["all", "meta", "packs", "some"][i % 4]
        body += [{"cmd": "hot_damage", "mode": mode, "seed": seed * 100 + i}, {"cmd": "repair_hotcold"}, {"cmd": "check"},
                 {"cmd": "restore"}]
        cfg = gen.rand_cfg(rng)
        cfg.pop("version", None)
        progs.append({"id": "c16-%d-%d" % (seed, i), "seed": seed * 1000 + i, "cfg": cfg, "strict": i % 3 != 2,
                      "steps": body, "damage": mode})
    # many cold files in one warm-up batch: one blob per pack, 21 - 47 data packs (and as many snapshots as backups) are
    # warmed up by one restore / repair-index / hot-cold repair (batches are split among worker tasks)
    for k in range(2 if n <= 30 else max(4, n // 50)):
        nblobs = rng.choice([21, 23, 27, 33, 41, 47])
        toks = ["d%d" % (100 + j) for j in range(nblobs)]
        files, pos = {}, 0
        while pos < nblobs:
            m = rng.randint(2, 6)
            files["w%d" % pos] = toks[pos:pos + m]
            pos += m
        body = [{"cmd": "backup", "files": files}, {"cmd": "restore"}, {"cmd": "repair_index", "read_all": True}, {"cmd": "check"},
                {"cmd": "hot_damage", "mode": ["all", "meta"][k % 2], "seed": seed * 100 + 90 + k}, {"cmd": "repair_hotcold"}, {"cmd": "check"},
                {"cmd": "restore"}]
        progs.append({"id": "c16-%d-w%d" % (seed, k), "seed": seed * 1000 + 900 + k, "cfg": {"chunk": 64, "pack": 100}, "strict": True,
                      "steps": body, "damage": "wide"})
    return progs


def validate(ctx, trace, tag):
    r = vlib.tlc("HotColdTrace.tla", "HotColdTrace.cfg", workers=1, timeout=12000, env={"TRACE": trace},
                 metadir=os.path.join(ctx.out, "tv-" + tag), heap="6g")
    if r.error or r.violated or r.printed("TOOLERR"):
        open(os.path.join(ctx.out, "tv-%s.log" % tag), "w").write(r.out)
        raise vlib.ToolError("HotColdTrace failed: %s %s" % (r.error or r.violated, r.printed("TOOLERR")[:1]))
    return r


def emit(ctx, r, recs, by_id):
    seen = set()
    for nc in r.printed("NONCONF"):
        line, sc, kind, items = nc[1], nc[2], nc[3], nc[4]["#set"]
        for it in items:
            key = (sc, it[0])
            if key in seen:
                continue
            seen.add(key)
            ctx.violation({"id": sc, "tag": it[0], "what": "hot/cold: %s in %s after event %d" % (it[0], sc, line),
                           "detail": it, "event": recs[line - 1] if 0 < line <= len(recs) else {}, "program": by_id.get(sc, {})})


def run(ctx):
    q = ctx.quick
    vlib.mc(ctx, "MCHotCold.tla", "MCHotCold.cfg", workers=2, timeout=300)
    for cfg in ("MCHotColdBadWrite.cfg", "MCHotColdBadRemove.cfg"):
        r = vlib.tlc("MCHotCold.tla", cfg, workers=1, timeout=300, metadir=os.path.join(ctx.out, "mc-bad"))
        ctx.negative_control(r.violated == "HotComplete", "model %s must violate HotComplete" % cfg)
    # the warm-up protocol of restore / repack / repair-index against a cold store that forgets warm-ups between commands
    vlib.mc(ctx, "WarmUp.tla", "MCWarmUp.cfg", workers=2, timeout=300)
    r = vlib.tlc("WarmUp.tla", "MCWarmUpFirst.cfg", workers=1, timeout=300, metadir=os.path.join(ctx.out, "mc-bad"))
    ctx.negative_control(r.violated == "WarmBeforeRead", "model: a warm-up list decided by each pack's first blob must violate WarmBeforeRead")
    # hot/cold repair as a step machine: with hot files REMOVED (the property's quantifier) the hot store is recreated and the cold
    # one is never written; the model also records observation O3 (DESIGN 0.4): once hot files can be DAMAGED, the library's rule
    # (a size mismatch puts the file on both copy lists) overwrites the intact cold copy - not decided by any check
    vlib.mc(ctx, "HotRepair.tla", "MCHotRepair.cfg", workers=1, timeout=120)
    vlib.mc(ctx, "HotRepair.tla", "MCHotRepairIgnore.cfg", workers=1, timeout=120)
    r = vlib.tlc("HotRepair.tla", "MCHotRepairDamaged.cfg", workers=1, timeout=120, metadir=os.path.join(ctx.out, "mc-bad"))
    ctx.negative_control(r.violated == "ColdIntact", "model: copying size-mismatched files both ways must violate ColdIntact (observation O3)")
    # the configuration is the one file overwritten in place: cold first, then hot; new handles read the hot copy
    vlib.mc(ctx, "HotConfig.tla", "MCHotConfig.cfg", workers=1, timeout=120)
    r = vlib.tlc("HotConfig.tla", "MCHotConfigKeep.cfg", workers=1, timeout=120, metadir=os.path.join(ctx.out, "mc-bad"))
    ctx.negative_control(r.violated == "SeenIsCurrent", "model: a hot configuration that is never overwritten must violate SeenIsCurrent")
    if not q:
        # unbounded in the number of operations: HotComplete + the promise of the pending half-operation is inductive (Apalache)
        ok = vlib.apalache_inductive(ctx, "HotColdInd", subst={"WriteHotFirst \\in BOOLEAN /\\ RemoveColdFirst \\in BOOLEAN": "WriteHotFirst = TRUE /\\ RemoveColdFirst = TRUE"})
        if ok != (True, True):
            raise vlib.ToolError("HotColdInd: the invariant is not inductive for the library's write / remove order: %s" % (ok,))
        for a, b in (("FALSE", "TRUE"), ("TRUE", "FALSE")):
            bad = vlib.apalache_inductive(ctx, "HotColdInd", subst={"WriteHotFirst \\in BOOLEAN /\\ RemoveColdFirst \\in BOOLEAN": "WriteHotFirst = %s /\\ RemoveColdFirst = %s" % (a, b)}, neg=True)
            ctx.negative_control(bad[1] is False, "Apalache: the unsafe write / remove order must break the induction step")
    progs = programs(ctx.seed, 30 if q else 2000)
    by_id = {p["id"]: p for p in progs}
    pf = os.path.join(ctx.out, "programs.ndjson")
    open(pf, "w").write("\n".join(json.dumps(p) for p in progs) + "\n")
    trace = os.path.join(ctx.out, "trace.ndjson")
    rc, out = vlib.vh(["hotcold", "--programs", pf, "--out", trace], timeout=6000)
    if rc != 0:
        raise vlib.ToolError("hotcold driver failed: " + out[-2000:])
    recs = [json.loads(l) for l in open(trace)]
    r = validate(ctx, trace, "main")
    ctx.states += r.distinct
    ctx.transitions += r.generated
    ctx.traces += len(progs)
    emit(ctx, r, recs, by_id)
    ops = sum(1 for e in recs if e["e"] == "op")
    warm = sum(1 for e in recs if e["e"] == "op" and e["kind"] == "warm_up")
    coldreads = sum(1 for e in recs if e["e"] == "op" and e["store"] == 0 and e["kind"].startswith("read"))
    dmg = sum(1 for e in recs if e["e"] == "hdamage")
    if warm == 0 or coldreads == 0 or dmg == 0:
        raise vlib.ToolError("vacuity: warm-ups %d, cold reads %d, hot files removed %d" % (warm, coldreads, dmg))
    # negative controls on the first scenario: swap a hot/cold write pair; drop a warm-up; put a data pack into hot
    first = []
    for e in recs:
        if e["e"] == "reset" and first:
            break
        first.append(e)
    a = json.loads(json.dumps(first))
    i = next(i for i, e in enumerate(a) if e["e"] == "op" and e["kind"] == "write" and e["store"] == 1 and e["tpe"] in ("index", "snapshot"))
    j = next(j for j in range(i + 1, len(a)) if a[j]["e"] == "op" and a[j]["kind"] == "write" and a[j]["store"] == 0 and a[j]["k"] == a[i]["k"])
    a[i], a[j] = a[j], a[i]
    b = [e for e in json.loads(json.dumps(first)) if not (e["e"] == "op" and e["kind"] == "warm_up")]
    c = json.loads(json.dumps(first))
    k = next(k for k, e in enumerate(c) if e["e"] == "op" and e["kind"] == "write" and e["store"] == 0 and e["pk"] == "data")
    d = dict(c[k])
    d["store"] = 1
    c.insert(k, d)
    for name, tr, tag in (("cold-before-hot", a, "HotComplete"), ("no-warm-up", b, "WarmBeforeRead"), ("data-pack-in-hot", c, "NoDataInHot")):
        f = os.path.join(ctx.out, "neg-%s.ndjson" % name)
        open(f, "w").write("\n".join(json.dumps(e) for e in tr if e["e"] != "twin") + "\n")
        rn = validate(ctx, f, "neg")
        tags = {it[0] for nc in rn.printed("NONCONF") for it in nc[4]["#set"]}
        ctx.negative_control(tag in tags, name)
    ctx.extra.update({"evaluations": len(progs), "distinct_nontrivial": len({json.dumps(p["steps"]) for p in progs}),
                      "rule": "seeded histories with interleaved restores; two thirds on a cold store that rejects reads of files not "
                              "warmed up; 4 classes of hot-file removal (all / metadata / packs / random half) before repair",
                      "store_operations": ops, "warm_up_requests": warm, "cold_reads": coldreads, "hot_files_removed": dmg})
    ctx.sample({"id": progs[0]["id"], "strict": progs[0]["strict"], "steps": [s["cmd"] for s in progs[0]["steps"]]})
    ctx.assumptions += ["check --read-data is unsupported on hot/cold pairs by design (deviation D2) and not run",
                        "interruption = stop between two store operations; each store operation itself is atomic"]


def replay(ctx, path):
    rec = json.load(open(path))
    prog = rec["program"]
    pf = os.path.join(ctx.out, "replay-prog.ndjson")
    open(pf, "w").write(json.dumps(prog) + "\n")
    trace = os.path.join(ctx.out, "replay.ndjson")
    vlib.vh(["hotcold", "--programs", pf, "--out", trace], timeout=600)
    recs = [json.loads(l) for l in open(trace)]
    emit(ctx, validate(ctx, trace, "replay"), recs, {prog["id"]: prog})
