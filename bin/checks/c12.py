"""C12 — copy, merge, rewrite and repair preserve all content they keep.

MC : Trees.tla writes merge, rewrite and repair twice - level by level as the code walks (merge_trees / merge_nodes,
     TreeModifier with the rewrite / repair visitors) and as the property reads (IsMerge: nothing invented, latest
     mtime wins, a path is present iff a directory won on its parent; Rewrite: exactly the paths without a hit
     ancestor-or-self, unchanged; Repair: identity if nothing is lost, kept paths keep their node).  MCTrees checks over
     ALL trees of depth 2 over two names (files / links / dirs, two mtimes) that both sides agree: all pairs (and triples
     with a repeated tree) for merge, all hit sets for rewrite and repair.
TV : real commands on real repositories, inputs and outputs read back as flattened trees with the digest of the content
     really dumped: merges of 2-4 snapshots with overlapping names of differing types (and names whose order differs
     between raw and escaped form); rewrites with exclude-glob sets (basename, anchored, directory-only, **/ forms; hits
     decided by the generator's own matcher) with and without --forget; repair-snapshots on undamaged repositories (no
     storage mutation, same trees) and after the loss of one data or tree pack; copies into repositories with another
     key / compression / pack size, empty or already holding part of the blobs, in one or two rounds, incl. a file whose
     content is the serialisation of a directory (tree / data id collision) with the destination holding only one of the
     two.  TreesTrace.tla evaluates the property side of Trees.tla on every record.
"""
import fnmatch
import json
import os
import random

import vlib

LEVEL = "model_checking"
T0 = 1_600_000_000
PLAIN = ["a", "b", "c", "d", "e", "k", "x.txt", "y.txt", "z.log", "Makefile"]
ODD = ["a\"q", "a1", "a\tb", "aXb", "a\\b", "a]b", "ä", "a b", "a.b", "a-b", "A", "中", "a\nb"]


def rand_entries(rng, names, depth, nid, prefix=""):
    out = []
    for name in rng.sample(names, rng.randint(1, min(5, len(names)))):
        path = prefix + "/" + name if prefix else name
        nid[0] += 1
        n = nid[0]
        r = rng.random()
        mt = T0 + rng.randint(0, 5)
        if r < 0.35 and depth > 0:
            out.append({"path": path, "kind": "dir", "mtime": mt, "ctime": mt, "inode": n})
            out += rand_entries(rng, names, depth - 1, nid, path)
        elif r < 0.45:
            out.append({"path": path, "kind": "link", "target": "T%d" % n, "mtime": mt, "ctime": mt, "inode": n})
        else:
            out.append({"path": path, "kind": "file", "seed": rng.choice([n, rng.randint(1, 6)]), "size": rng.choice([0, 1, 63, 64, 65, 130, 400]),
                        "mtime": mt, "ctime": mt, "inode": n})
    return out


def matches(pat, path, is_dir):
    """the generator's own reading of an exclude glob '!pat' (gitignore style) for one path"""
    p = pat[1:]
    dir_only = p.endswith("/")
    if dir_only:
        p = p[:-1]
        if not is_dir:
            return False
    if p.startswith("**/"):
        tail = p[3:]
        return path == tail or path.endswith("/" + tail)
    if p.startswith("/"):
        return path == p[1:]
    if "/" in p:
        return path == p
    return fnmatch.fnmatchcase(path.rsplit("/", 1)[-1], p)


def rewrite_prog(rng, pid):
    nid = [0]
    nsrc = rng.randint(1, 2)
    sources = [rand_entries(rng, PLAIN + (ODD[:4] if rng.random() < 0.6 else []), 3, nid) for _ in range(nsrc)]
    globs = []
    # the same sub-tree at two paths (a directory copied / moved between two backups: same tree blob) and an exclude
    # anchored below only one of them (added after seeded change C12-rewrite-memo-by-tree-id)
    dirs0 = [e["path"] for e in sources[0] if e["kind"] == "dir" and "/" not in e["path"]
             and any(x["path"].startswith(e["path"] + "/") and x["kind"] != "dir" for x in sources[0])
             and e["path"].isascii() and not any(ch in e["path"] for ch in "\t\\]\n *?[")]
    if dirs0 and rng.random() < 0.6:
        d = rng.choice(dirs0)
        twin = "twin_" + d
        target = sources[-1] if rng.random() < 0.5 else sources[0]
        for e in [x for x in sources[0] if x["path"] == d or x["path"].startswith(d + "/")]:
            c = dict(e)
            c["path"] = twin + e["path"][len(d):]
            target.append(c)
        kids = [x["path"] for x in sources[0] if x["path"].startswith(d + "/") and x["path"].isascii()
                and not any(ch in x["path"] for ch in "\t\\]\n *?[")]
        if kids:
            globs.append("!/src/" + rng.choice(kids))
    allp = sorted({"src/" + e["path"] for s in sources for e in s})
    for _ in range(rng.randint(1, 3)):
        k = rng.random()
        cand = rng.choice(allp)
        base = cand.rsplit("/", 1)[-1]
        if any(ch in base for ch in "\t\\]\n *?[") or not base.isascii():
            base = rng.choice(PLAIN)
        if k < 0.3:
            globs.append("!" + base)
        elif k < 0.45:
            globs.append("!*." + rng.choice(["txt", "log"]))
        elif k < 0.6 and cand.isascii() and not any(ch in cand for ch in "\t\\]\n *?["):
            globs.append("!/" + cand)
        elif k < 0.7 and cand.isascii() and "/" in cand and not any(ch in cand for ch in "\t\\]\n *?["):
            globs.append("!" + cand)
        elif k < 0.8:
            globs.append("!" + base + "/")
        elif k < 0.9 and cand.count("/") >= 2 and cand.isascii() and not any(ch in cand for ch in "\t\\]\n *?["):
            globs.append("!**/" + "/".join(cand.split("/")[-2:]))
        else:
            globs.append("!nonexistent-name")
    hits = []
    for s in sources:
        kinds = {"src/" + e["path"]: e["kind"] for e in s}
        kinds["src"] = "dir"
        hits.append(sorted(p for p, k in kinds.items() if any(matches(g, p, k == "dir") for g in globs)))
    return {"id": pid, "op": "rewrite", "cfg": {"chunk": 64, "pack": rng.choice([200, 1000])}, "sources": sources,
            "opts": {"globs": globs, "forget": rng.random() < 0.4}, "hits": hits}


def merge_prog(rng, pid, odd):
    nid = [0]
    names = (ODD if odd else PLAIN[:5] + ODD[:3])
    sources = [rand_entries(rng, names, 2, nid) for _ in range(rng.randint(2, 4))]
    return {"id": pid, "op": "merge", "cfg": {"chunk": 64, "pack": rng.choice([200, 1000])}, "sources": sources, "opts": {}}


def repair_prog(rng, pid, damage):
    nid = [0]
    base = rand_entries(rng, PLAIN, 3, nid)
    sources = [base]
    for _ in range(rng.randint(0, 2)):
        more = [dict(e) for e in sources[-1] if rng.random() < 0.8]
        keep = {e["path"] for e in more}
        more = [e for e in more if "/" not in e["path"] or e["path"].rsplit("/", 1)[0] in keep]
        have = {e["path"].split("/")[0] for e in more}
        more += [e for e in rand_entries(rng, PLAIN, 2, nid) if e["path"].split("/")[0] not in have]
        sources.append(more)
    return {"id": pid, "op": "repair", "cfg": {"chunk": 64, "pack": rng.choice([150, 300, 1000])}, "sources": sources,
            "opts": {"damage": damage, "which": rng.randint(0, 20)}}


def copy_prog(rng, pid, collide, k=0, pruned=False):
    nid = [0]
    base = rand_entries(rng, PLAIN + ODD[:3], 3, nid)
    if pruned:
        for d in ("pa", "pb"):
            if not any(e["path"] == d for e in base):
                base.append({"path": d, "kind": "dir", "mtime": T0, "ctime": T0, "inode": 900 + len(base)})
                base.append({"path": d + "/f", "kind": "file", "seed": 900 + len(base), "size": 130, "mtime": T0, "ctime": T0, "inode": 900 + len(base)})
    sources = [base]
    for _ in range(rng.randint(0, 2)):
        more = [dict(e) for e in sources[-1] if rng.random() < 0.8]
        keep = {e["path"] for e in more}
        more = [e for e in more if "/" not in e["path"] or e["path"].rsplit("/", 1)[0] in keep]
        sources.append(more)
    p = {"id": pid, "op": "copy", "cfg": {"chunk": 64, "pack": rng.choice([200, 1000]), "compression": rng.choice([0, 3])}, "sources": sources,
         "dest_cfg": {"chunk": 64, "pack": rng.choice([150, 600, 3000]), "compression": rng.choice([-3, 0, 10])},
         "opts": {"twice": rng.random() < 0.4}}
    if rng.random() < 0.5:
        p["dest_pre"] = [[dict(e) for e in base if rng.random() < 0.5 and e["kind"] == "file" and "/" not in e["path"]]]
    if not collide and (pruned or rng.random() < 0.25):
        # the destination has a history of its own: it once held the snapshot to be copied next to two partial ones, forgot
        # it and pruned - with repacking off a kept pack may still list the snapshot's root tree while its children are gone
        full = sources[0] if pruned else sources[rng.randrange(len(sources))]
        tops = sorted({e["path"].split("/")[0] for e in full})
        if len(tops) >= 2:
            # the snapshot's own trees land in one pack of the second backup; the third backup keeps part of that pack in use
            # (pb) while everything only the first backup wrote (pa) becomes unused
            a = set(rng.sample(tops, rng.randint(1, len(tops) - 1)))
            if pruned:
                a = (a | {"pa"}) - {"pb"}
            b = {t for t in tops if t not in a} | ({t for t in a if rng.random() < 0.3} if rng.random() < 0.2 else set())
            p["dest_cfg"]["pack"] = 20000 if pruned else rng.choice([600, 3000])
            p["dest_pre"] = [[dict(e) for e in full if e["path"].split("/")[0] in a], [dict(e) for e in full],
                             [dict(e) for e in full if e["path"].split("/")[0] in b]]
            p["dest_forget"] = [0, 1]
            p["dest_prune"] = {"instant": rng.random() < 0.7, "max_repack": "0" if pruned and k % 2 == 0 else rng.choice(["0", "10%", "unlimited"]),
                               "max_unused": rng.choice(["5%", "unlimited"])}
    if collide:
        dirs = [e["path"] for e in base if e["kind"] == "dir"]
        if not dirs:
            base.append({"path": "cd", "kind": "dir", "mtime": T0, "ctime": T0, "inode": 900})
            base.append({"path": "cd/f", "kind": "file", "seed": 901, "size": 100, "mtime": T0, "ctime": T0, "inode": 901})
            dirs = ["cd"]
        p["collide"] = "src/" + rng.choice(dirs)
        # the destination holds neither / only the tree / only the data blob of the colliding id - in turn
        p["collide_pre"] = ["none", "tree", "data"][k % 3]
        if p["collide_pre"] == "none":
            p["opts"]["twice"] = False
        p["cfg"]["chunk"] = 8192
        p["dest_cfg"]["chunk"] = 8192
        p.pop("dest_pre", None)
    return p


def validate(ctx, trace, tag):
    r = vlib.tlc("TreesTrace.tla", "TreesTrace.cfg", workers=1, timeout=12000, env={"TRACE": trace},
                 metadir=os.path.join(ctx.out, "tv-" + tag), heap="8g")
    if r.error or r.violated or r.printed("TOOLERR"):
        open(os.path.join(ctx.out, "tv-%s.log" % tag), "w").write(r.out)
        raise vlib.ToolError("TreesTrace failed: %s %s" % (r.error or r.violated, r.printed("TOOLERR")[:1]))
    ctx.states += r.distinct
    ctx.transitions += r.generated
    return r


def emit(ctx, r, recs, progs):
    for nc in r.printed("NONCONF"):
        rec = recs[nc[1] - 1]
        seen = set()
        for it in nc[3]["#set"]:
            if it[0] in seen:
                continue
            seen.add(it[0])
            ctx.violation({"id": rec["id"], "op": rec["e"], "formula": it[0], "what": "%s: %s in %s: %s" % (rec["e"], it[0], rec["id"], json.dumps(it)[:300]),
                           "detail": it, "program": progs.get(rec["id"], {})})


def run(ctx):
    q = ctx.quick
    vlib.mc(ctx, "MCTrees.tla", "MCTreesRewrite.cfg", workers=4, timeout=900)
    vlib.mc(ctx, "MCTrees.tla", "MCTreesRepair.cfg", workers=4, timeout=900)
    vlib.mc(ctx, "MCTrees.tla", "MCTreesMergeQ.cfg" if q else "MCTreesMerge.cfg", workers=8, timeout=3000)
    # copy.rs as a four-step algorithm over every source forest / destination index of three ids (ids may name a tree and a data blob)
    vlib.mc(ctx, "Copy.tla", "MCCopy.cfg" if q else "MCCopyFull.cfg", workers=8, timeout=1200)
    for cfg, what in (("MCCopySkipRoots.cfg", "does not walk snapshots whose root tree the destination lists"),
                      ("MCCopyUntyped.cfg", "shares an untyped 'already written' set between the data and the tree copier")):
        r = vlib.tlc("Copy.tla", cfg, workers=8, timeout=1200, metadir=os.path.join(ctx.out, "mc-" + cfg))
        ctx.negative_control(r.violated == "Complete", "model: a copy that %s must violate Complete" % what)
    rng = random.Random(ctx.seed * 32452843 + 12)
    progs = {}

    def add(p):
        progs[p["id"]] = p
    n = {"merge": 24, "rewrite": 24, "repair": 18, "copy": 16} if q else {"merge": 2000, "rewrite": 2000, "repair": 1200, "copy": 900}
    for i in range(n["merge"]):
        add(merge_prog(rng, "c12-%d-m%d" % (ctx.seed, i), odd=i % 2 == 0))
    for i in range(n["rewrite"]):
        add(rewrite_prog(rng, "c12-%d-w%d" % (ctx.seed, i)))
    for i in range(n["repair"]):
        add(repair_prog(rng, "c12-%d-p%d" % (ctx.seed, i), ["none", "data", "tree"][i % 3]))
    for i in range(n["copy"]):
        add(copy_prog(rng, "c12-%d-c%d" % (ctx.seed, i), collide=i % 4 == 0, k=i // 4, pruned=i % 4 == 1))
    pf = os.path.join(ctx.out, "programs.ndjson")
    open(pf, "w").write("\n".join(json.dumps(p) for p in progs.values()) + "\n")
    trace = os.path.join(ctx.out, "trace.ndjson")
    rc, out = vlib.vh(["trees", "--programs", pf, "--out", trace], timeout=9000)
    if rc != 0:
        raise vlib.ToolError("trees driver failed: " + out[-1500:])
    recs = [json.loads(l) for l in open(trace)]
    te = [x for x in recs if x["e"] == "toolerr"]
    if te:
        raise vlib.ToolError("trees driver: %s" % [(x["id"], x["what"], x["msg"][:200]) for x in te][:3])
    rv = validate(ctx, trace, "main")
    emit(ctx, rv, recs, progs)
    ctx.traces += len(recs)
    # vacuity
    merges = [x for x in recs if x["e"] == "merge" and x["result"] == "ok"]
    conflicts = sum(1 for x in merges for p in x["output"] if len({t[p]["k"] for t in x["inputs"] if p in t}) > 1)
    rew = [x for x in recs if x["e"] == "rewrite" and x["result"] == "ok"]
    removed = sum(len(t) - len(o["nodes"]) for x in rew for t, o in zip(x["inputs"], x["outputs"]))
    rep = [x for x in recs if x["e"] == "repair" and x["result"] == "ok"]
    marked = sum(1 for x in rep for o in x["outputs"] for p, nd in o["nodes"].items() if nd["base"])
    undamaged = sum(1 for x in rep if x["removed_packs"] == 0)
    cop = [x for x in recs if x["e"] == "copy" and x["result"] == "ok"]
    unhealthy = [x["id"] for x in recs if x.get("dest_check_pre", "clean") != "clean"]
    if unhealthy:
        raise vlib.ToolError("copy: the destination was not clean before the copy in %s" % unhealthy[:3])
    ctx.extra["copies_into_pruned_destination"] = sum(1 for x in cop if "dest_check_pre" in x)
    collisions = sum(1 for x in cop if "collide_id" in x)
    if not (conflicts and removed and marked and undamaged and cop and collisions):
        raise vlib.ToolError("vacuity: merge type conflicts %d, rewritten-away nodes %d, marked files %d, undamaged repairs %d, copies %d, collisions %d"
                             % (conflicts, removed, marked, undamaged, len(cop), collisions))
    # negative controls
    negs = []
    m = next(x for x in merges if len(x["output"]) > 3)
    k = json.loads(json.dumps(m)); k["id"] = "neg-merge-drop"
    leaf = next(p for p in k["output"] if k["output"][p]["k"] != "dir"); del k["output"][leaf]; negs.append(k)
    k = json.loads(json.dumps(m)); k["id"] = "neg-merge-loser"
    p = next(p for p in k["output"] if k["output"][p]["k"] == "file"); k["output"][p]["sig"] += "x"; negs.append(k)
    w = next(x for x in rew if any(len(t) > len(o["nodes"]) for t, o in zip(x["inputs"], x["outputs"])))
    k = json.loads(json.dumps(w)); k["id"] = "neg-rewrite-kept"; k["hits"] = [[] for _ in k["hits"]]; negs.append(k)
    w2 = next(x for x in rew if any(o["nodes"] for o in x["outputs"]))
    k = json.loads(json.dumps(w2)); k["id"] = "neg-rewrite-changed"
    o = next(o for o in k["outputs"] if o["nodes"]); p = sorted(o["nodes"])[-1]; o["nodes"][p]["sig"] += "x"; negs.append(k)
    rp = next(x for x in rep if x["removed_packs"] == 0)
    k = json.loads(json.dumps(rp)); k["id"] = "neg-repair-mutated"; k["mutations"] = 2; negs.append(k)
    rp2 = next(x for x in rep if any(nd["k"] == "file" and not nd["base"] for o in x["outputs"] for nd in o["nodes"].values()))
    k = json.loads(json.dumps(rp2)); k["id"] = "neg-repair-content"
    o = next(o for o in k["outputs"] if any(nd["k"] == "file" and not nd["base"] for nd in o["nodes"].values()))
    p = next(p for p, nd in o["nodes"].items() if nd["k"] == "file" and not nd["base"]); o["nodes"][p]["c"] = "deadbeef00"; negs.append(k)
    c = next(x for x in cop if any(o["nodes"] for o in x["outputs"]))
    k = json.loads(json.dumps(c)); k["id"] = "neg-copy-missing"
    o = next(o for o in k["outputs"] if o["nodes"]); del o["nodes"][sorted(o["nodes"])[-1]]; negs.append(k)
    nf = os.path.join(ctx.out, "neg.ndjson")
    open(nf, "w").write("\n".join(json.dumps(x) for x in negs) + "\n")
    flagged = {nc[2] for nc in validate(ctx, nf, "neg").printed("NONCONF")}
    for x in negs:
        ctx.negative_control(x["id"] in flagged, x["id"])
    ctx.extra.update({"evaluations": len(recs), "distinct_nontrivial": len(recs),
                      "rule": "seeded random source trees (depth <= 3, plain and odd names) per command; see module docstring",
                      "merges": len(merges), "merge_paths_with_type_conflict": conflicts, "rewrites": len(rew), "nodes_rewritten_away": removed,
                      "repairs": len(rep), "repairs_undamaged": undamaged, "files_marked_by_repair": marked, "copies": len(cop),
                      "copies_with_id_collision": collisions, "exhaustive": False})
    ctx.sample({"id": m["id"], "inputs": [sorted(t) for t in m["inputs"]], "output": sorted(m["output"])})
    ctx.assumptions += ["merge ordering used: later mtime wins (ties: any of the latest)",
                        "exclude globs are restricted to forms whose meaning the generator's own matcher decides (basename, *.ext, anchored path, "
                        "directory-only, **/a/b); names with glob metacharacters are never used as patterns",
                        "repair: loss of one whole pack (data or tree) followed by repair-index; single-blob losses are packs with one blob"]


def replay(ctx, path):
    rec = json.load(open(path))
    prog = rec["program"]
    pf = os.path.join(ctx.out, "replay-prog.ndjson")
    open(pf, "w").write(json.dumps(prog) + "\n")
    trace = os.path.join(ctx.out, "replay.ndjson")
    vlib.vh(["trees", "--programs", pf, "--out", trace], timeout=3000)
    recs = [json.loads(l) for l in open(trace)]
    emit(ctx, validate(ctx, trace, "replay"), recs, {prog["id"]: prog})
