"""C01 — backup followed by restore reproduces the source exactly (inputs x configurations).

MC : Packer.tla (the chunk -> pack -> index pipeline with its three dedup filters, typed identity): nothing an accepted
     input submits is dropped; Repo.tla: a completed backup's snapshot is Readable.
TV : source trees built on a real directory (sizes 0, 1, chunk-1, chunk, chunk+1, k*max, > pack size; random / zero /
     periodic content; a file equal to the serialisation of a sibling directory; names with backslash, quotes, newline,
     control bytes, invalid UTF-8, 255 bytes; symlinks incl. dangling and non-UTF-8 targets; hard-link groups; empty and
     12-deep directories; modes incl. setuid/setgid/sticky/000; mtimes with nanoseconds, negative, after 2038) x 8
     configurations (v1/v2, compression -5/0/19/default, Rabin with small accepted triples, fixed size incl. 1 byte,
     pack sizes 1 byte .. default).  Each is backed up through LocalSource and read back by restore-to-disk, ls + dump,
     ranged reads (across chunk borders and past EOF) and check --read-data; RoundTripTrace.tla compares the projection
     of the SOURCE taken from the file system with every read-back.
"""
import json
import os

import vlib

LEVEL = "model_checking"


def validate(ctx, trace, tag):
    r = vlib.tlc("RoundTripTrace.tla", "RoundTripTrace.cfg", workers=1, timeout=12000, env={"TRACE": trace},
                 metadir=os.path.join(ctx.out, "tv-" + tag), heap="6g")
    if r.error or r.violated or r.printed("TOOLERR"):
        open(os.path.join(ctx.out, "tv-%s.log" % tag), "w").write(r.out)
        raise vlib.ToolError("RoundTripTrace failed: %s %s" % (r.error or r.violated, r.printed("TOOLERR")[:1]))
    return r


def emit(ctx, r, recs, args):
    for nc in r.printed("NONCONF"):
        rec = recs[nc[1] - 1]
        seen = set()
        for it in nc[3]["#set"]:
            if it[0] in seen:
                continue
            seen.add(it[0])
            ctx.violation({"id": rec["id"], "formula": it[0], "cfg": rec["cfg"], "what": "round trip: %s for tree %s under '%s'" % (it[0], rec["id"], rec["cfg"]),
                           "detail": it, "args": [str(a) for a in args]})


def run(ctx):
    q = ctx.quick
    vlib.mc(ctx, "MCPacker.tla", "MCPackerTyped.cfg", workers=4, timeout=900)
    vlib.mc(ctx, "MCRepo.tla", "MCRepoTyped.cfg" if not q else "MCRepoSeqQuick.cfg", workers=8, timeout=3000)
    work = os.path.join(ctx.out, "tmp")
    trace = os.path.join(ctx.out, "trace.ndjson")
    args = ["roundtrip", "--seed", ctx.seed, "--trees", 12 if q else 400, "--configs", 3 if q else 8, "--work", work, "--out", trace]
    rc, out = vlib.vh(args, timeout=9000)
    if rc != 0:
        raise vlib.ToolError("roundtrip driver failed: " + out[-2000:])
    recs = [json.loads(l) for l in open(trace)]
    rv = validate(ctx, trace, "main")
    ctx.states += rv.distinct
    ctx.transitions += rv.generated
    ctx.traces += len(recs)
    emit(ctx, rv, recs, args)
    # negative controls: a byte of content, a mode bit, a lost entry
    base = next(x for x in recs if x["backup"] == "ok" and x["restore"] == "ok")
    n1 = json.loads(json.dumps(base)); n1["id"] = "neg-content"
    f = next(e for e in n1["restored"] if e["a"]["t"] == "file")
    f["a"]["sha"] = "0" * 16
    n2 = json.loads(json.dumps(base)); n2["id"] = "neg-mode"
    f = next(e for e in n2["ls"] if "mode" in e["a"])
    f["a"]["mode"] = "123"
    n3 = json.loads(json.dumps(base)); n3["id"] = "neg-lost"
    n3["restored"] = n3["restored"][1:]
    nf = os.path.join(ctx.out, "neg.ndjson")
    open(nf, "w").write("\n".join(json.dumps(x) for x in (n1, n2, n3)) + "\n")
    rn = validate(ctx, nf, "neg")
    flagged = {nc[2] for nc in rn.printed("NONCONF")}
    for n in (n1, n2, n3):
        ctx.negative_control(n["id"] in flagged, n["id"])
    cfgs = {}
    for x in recs:
        cfgs[x["cfg"]] = cfgs.get(x["cfg"], 0) + 1
    nent = sum(len(x["src"]) for x in recs)
    ctx.extra.update({"evaluations": len(recs), "distinct_nontrivial": len({json.dumps(x["src"]) + x["cfg"] for x in recs}),
                      "rule": "seeded trees x configurations cycling through 8 configs; every tree has >= 15 entries of all kinds",
                      "configs": cfgs, "source_entries_compared": nent,
                      "collision_trees": sum(1 for x in recs if any(bytes.fromhex(e["p"]).endswith(b"zz-copy-of-cdir-tree") for e in x["src"]))})
    s = base
    ctx.sample({"id": s["id"], "cfg": s["cfg"], "entries": [{"path": bytes.fromhex(e["p"]).decode("latin1"), "a": e["a"]} for e in s["src"][:8]]})
    ctx.assumptions += ["codec fidelity (zstd, AES-CTR, JSON escaping) is covered by sampling only: the breadth is that of the generator",
                        "ownership and extended attributes are not part of the statement and not compared; special files are not generated"]


def replay(ctx, path):
    rec = json.load(open(path))
    a = rec["args"]
    trace = os.path.join(ctx.out, "replay.ndjson")
    a[a.index("--out") + 1] = trace
    a[a.index("--work") + 1] = os.path.join(ctx.out, "tmp")
    vlib.vh(a, timeout=9000)
    recs = [x for x in (json.loads(l) for l in open(trace)) if x["id"] == rec["id"]]
    open(trace, "w").write("\n".join(json.dumps(x) for x in recs) + "\n")
    emit(ctx, validate(ctx, trace, "replay"), recs, a)
