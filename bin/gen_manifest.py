#!/usr/bin/env python3
"""Regenerates /verif/MANIFEST.json from the table below (single source of truth for the interface)."""
import json
import os
import subprocess

ROOT = os.path.dirname(os.path.dirname(os.path.abspath(__file__)))
props = [json.loads(l) for l in open(os.path.join(ROOT, "properties.jsonl"))]

CHECKS = {
    "C12": dict(
        text="Trees.tla writes merge, rewrite and repair twice - level by level as the code walks and as the property reads - and "
             "MCTrees checks over all trees of depth 2 over two names (files / links / dirs, two mtimes; all pairs and repeated-tree triples "
             "for merge, all hit sets for rewrite and repair) that both agree. Real commands on real repositories: merges of 2-4 snapshots "
             "with overlapping names of differing types and names whose raw and escaped orders differ; rewrites with exclude-glob sets "
             "(hits decided by the generator's own matcher) with / without --forget; repair-snapshots on undamaged repositories and after "
             "the loss of a data or tree pack; copies into repositories with another key / compression / pack size, empty or partly "
             "filled, in one or two rounds, incl. tree / data id collisions with the destination holding only one of the two. Inputs and "
             "outputs are read back as flattened trees with digests of the really dumped content; TreesTrace.tla evaluates the property "
             "side of Trees.tla on every record (IsMerge, exact removal, identity on undamaged, kept files keep their content, copies equal). "
             "Copy.tla is copy.rs as a four-step algorithm (collect by walking the source, copy data, copy trees through the shared typed "
             "indexer, save snapshots) over every source forest and every - also non-closed - destination index of three ids that may "
             "name a tree and a data blob at once; TLC checks Complete / NoRewrite / BlobsFirst and shows that skipping known roots or an "
             "untyped indexer breaks Complete; copies also go into destinations with a forget / prune history of their own.",
        note="Merge ordering: later mtime wins. Exclude globs restricted to forms the generator's matcher decides. Repair damage = loss of "
             "one whole pack. Duplicate names in a produced directory are reported as DuplicateName.",
        technique="TLC equivalence check of code-shaped vs property-shaped tree operations over all small trees; TLC validation of recorded real input/output trees",
        design="4/C12"),
    "C11": dict(
        text="Parent.tla: the per-entry decision of a parent-based backup over every combination of current kind x parent node "
             "(absent / file / dir / link; same or different size, mtime, ctime, inode, content; blobs indexed or not) for one and two "
             "parents x options: Equal, Present, ReadIfMissing; the decision without index test / type test violates them (negative "
             "controls). Every one-parent case (and sampled two-parent cases) becomes a path of a real source; random trees with random "
             "edits (touch, change with / without size change, ctime-only, removal, subtree rename, file <-> dir <-> symlink) are added. "
             "The real backup with explicit parents runs after chosen parent blobs were really lost from the index (packs removed + "
             "repair-index) or the parents' tree packs were removed, then the same source is backed up with --force. ParentTrace.tla "
             "evaluates ReuseOK, EqualP, Equal (tree ids), Present, SkipOK on the recorded real facts.",
        note="In-memory sources with controlled metadata. Parent selection by group/latest is not exercised (explicit parents). "
             "Runs outside the property's premise must show a differing tree (vacuity guard).",
        technique="TLC enumeration of the parent decision table, replayed as real backups; TLC validation of recorded node facts of parent-based vs forced backup",
        design="4/C11"),
    "C04": dict(
        text="Sealed.tla: stored files as sequences of sealed messages (whole-file messages; packs = blob messages + header + "
             "unauthenticated length), adversary actions flip / truncate / extend / substitute / remove, the library's readers "
             "(whole-file read; blob window through the index): Authentic, Detected, NonceFresh hold when readers verify file name and "
             "blob id and without substitution; with the library's readers substitution violates Authentic (negative control = the "
             "recorded known findings). Keys.tla: key files, sessions, add / remove / open. Real side: the sealing primitive through a "
             "cfg-gated hook under EVERY single-bit flip and truncation for many message lengths, nonce draws, two-way interoperability "
             "with an independent implementation; marker-laden repositories: every file ever written scanned for plaintext, decoded "
             "independently, nonces collected; every stored file x fault grid with the affected reads classified (SealedTrace.tla: "
             "NoPlain, NonceFresh, Authentic, Detected); behaviours of Keys.tla replayed with scrypt key files (KeysTrace.tla: OnlyRight "
             "in both directions).",
        note="Two known findings (substitution of snapshot/index files, substitution of same-layout packs are not detected by reads; "
             "check --read-data detects both). Cryptographic strength of AES-CTR/Poly1305 and scrypt is assumed, not verified; nonce "
             "randomness is judged by distinctness and per-byte diversity.",
        technique="TLC model of sealed storage + adversary + readers; TLC trace validation of exhaustive primitive tampering, storage scans and tamper grids; replay of Keys.tla behaviours",
        design="4/C04"),
    "C05": dict(
        text="Check.tla: abstract repository (used data pack with an unused blob, tree pack, root-tree-only pack, unreferenced pack, "
             "index, snapshots) x every single-file damage kind; VerdictD (the algorithm of check --read-data) = clean implies "
             "RestorableD; a check that skips pack contents violates it (negative control). Real side: repositories produced by "
             "generated histories; for every stored file except config x {remove, truncate (structural + generic lengths), bit "
             "flips in each structural region, swap with sibling, extension, duplicated / dropped index entry} the real "
             "check --read-data and the real read-back of every snapshot run on the damaged copy; CheckTrace.tla evaluates Sound "
             "on every record, undamaged repositories included.",
        note="Single faults only (as the property states). 'Restores correctly' = ls + dump of every snapshot against recorded source "
             "content. Repositories are small (64-byte chunks, packs of 100-2000 bytes) so that every structural region is hit.",
        technique="TLC model of check's verdict vs restorability over all single damages + TLC validation of real check/read-back verdicts over a fault grid",
        design="4/C05"),
    "C14": dict(
        text="Restore.tla states Exact / ExtrasKept / ExtrasGone / Confined; MCRestore.tla enumerates the per-path decision of the "
             "merge-walk over every pre-existing entry kind x snapshot entry kind x (delete, verify). Real restores run into "
             "destinations derived from a correct copy by 14 mutation kinds (or empty / unrelated) under all 16 option combinations; "
             "RestoreTrace.tla evaluates the formulas on pre/post directory projections. Hostile trees (node names '..', '../x', "
             "absolute paths, 'a/../../up', '', '.') written with the harness's own pack writer are restored into jail/dest and "
             "everything outside dest must be unchanged.",
        note="Runs as root (ownership restore possible, mode-000 entries readable). Special files are not generated. One snapshot "
             "shape per run; the mutation x option grid is the quantifier covered.",
        technique="TLC enumeration of the restore decision table + TLC validation of pre/post directory states of real restores incl. jail",
        design="4/C14"),
    "C01": dict(
        text="Source trees are built on a real directory covering the input classes of the property (boundary sizes, zero / "
             "periodic / random content, a file equal to a directory's serialisation, arbitrary-byte names, symlinks incl. non-UTF-8 "
             "targets, hard links, empty and 12-deep directories, special mode bits, nanosecond / negative / post-2038 mtimes) and "
             "backed up through LocalSource under 8 configurations (v1/v2, compression levels, Rabin triples, fixed sizes down to 1 "
             "byte, pack sizes from 1 byte). RoundTripTrace.tla compares the projection of the source taken from the file system "
             "with restore-to-disk, ls + dump, ranged reads and requires a clean check. Packer.tla / Repo.tla give the design-level "
             "argument that no accepted input is dropped by the dedup filters and that a completed backup is readable.",
        note="Codec fidelity (zstd, AES, JSON escaping) is outside what the TLA+ model states: for it the evidence is the sampled "
             "conformance run. Ownership, xattrs and special files are not compared.",
        technique="TLC trace validation of source-vs-read-back projections for generated trees x configurations; TLC pipeline model",
        design="4/C01"),
    "C13": dict(
        text="Packer.tla (TLC): every interleaving of the two packer threads, their writer actors (bounded queues) and finalize is "
             "deadlock-free, terminates under weak fairness, drops nothing submitted and leaves no orphan pack. The same backup and "
             "backup+forget+repacking prune are repeated on the real code under seeded back-end delay patterns x pack sizes from one "
             "blob per pack upward x thread-pool sizes 1/2/8 under a watchdog; SchedTrace.tla checks that tree id and referenced "
             "blob set are identical in all runs, that no run hangs, no orphan pack is left and the result is readable with a clean check. "
             "Streamer.tla models TreeStreamerOnce (caller, loader threads, unbounded id queue, bounded tree queue, per-snapshot pending "
             "counters): over all forests TLC checks every tree delivered exactly once, counters exact, no deadlock and termination under "
             "weak fairness, and shows that a bounded id queue deadlocks on a wide directory (the wide-directory scenario runs it for real).",
        note="Perturbation is external (latency at back-end calls, pack boundaries, pool size); no scheduling hook inside the pipeline "
             "stages. Copy is exercised under C12. A hang is detected by a 60 s watchdog.",
        technique="TLC liveness/safety model of the packer pipeline + TLC validation of repeated real runs under seeded perturbations",
        design="4/C13"),
    "C07": dict(
        text="Packer.tla models the backup pipeline (three dedup filters per packer, writer actors, shared indexer) in all "
             "interleavings: with typed identity nothing submitted is dropped, no orphan packs, termination; with untyped identity "
             "a tree/data id collision loses a blob. Real pairs of consecutive backups related by edit scripts are run under two "
             "Rabin parameter sets and a fixed-size chunker; what the second backup uploads is read off the storage log with the "
             "independent decoder and DedupTrace.tla checks NoNewBlobs, ExactDelta for data and trees, SnapshotChunks, Shift and "
             "TypedBothKept on real collision scenarios (file = serialisation of a sibling directory).",
        note="Expected chunk ids come from the repository's own chunk iterator applied to the sources (its cut function is validated by "
             "C06). In-run duplicate blobs are tolerated per the statement (dedup is promised after the index is reloaded).",
        technique="TLC model of the packer pipeline + TLC trace validation of uploads decoded from the storage log against set equations",
        design="4/C07"),
    "C19": dict(
        text="Cache.tla models a client working through the cache, one working directly on the repository and planted cache "
             "entries; TLC proves AfterList and SameResults for all histories <= 5 operations over 3 files (and that a cache not "
             "cleaned on listing fails). Real histories alternate between a handle with a cache directory and one without on "
             "the same store, with truncated / extended / foreign files planted in the cache directory; CacheTrace.tla checks "
             "the cache directory listing after every cached command (AfterList) and equality with a twin run without cache.",
        note="Planted entries are of the kinds the property lists (stale, wrong size, foreign); a cache file of the right size with "
             "corrupted content is not covered. Tree packs in the cache are not cleaned by listings (only snapshot/index are "
             "claimed by the property).",
        technique="TLC cache/repository model + TLC validation of cache-directory listings and cached-vs-uncached twin histories",
        design="4/C19"),
    "C16": dict(
        text="HotCold.tla refines every store operation into its hot and cold halves with interruptions in between; TLC proves "
             "HotComplete and NoDataInHot in every state for the implemented orders and shows both swapped orders fail. Real "
             "histories (backup, forget, prune, config, repair-index, real restore to disk, check) run on a hot/cold pair of "
             "in-memory stores on one clock, the cold one rejecting reads without prior warm-up in two thirds of the runs and "
             "forgetting every warm-up at each command start and before each restore run (WarmUp.tla is the design model of that "
             "protocol: TLC checks WarmBeforeRead over all restore plans and shows a first-blob warm-up list fails); restores are "
             "repeated over the restored copy with every file touched and one file outdated in turn; "
             "HotColdTrace.tla checks HotComplete/NoDataInHot after every store operation, WarmBeforeRead at every cold read, "
             "equivalence with a twin run on a single store, and completeness after removing classes of hot files + repair.",
        note="Each store operation is atomic; interruption = stop between two operations of the combined log. check --read-data "
             "is excluded (unsupported on hot/cold by design, D2). Copy is not part of these histories.",
        technique="TLC refinement model of hot/cold sub-operations + TLC trace validation of the combined hot+cold operation log",
        design="4/C16"),
    "C10": dict(
        text="Repo.tla with two command processes (TLC, every interleaving of storage steps of 1 backup || 1 non-instant prune "
             "plus a trailing prune; and backup || backup) proves AllRecoverable in every state and AllReadable after a prune "
             "that overlapped with nothing, under assumption A2. On the real code every gate position k of command A (and sampled "
             "(k, j) pairs) is realised with a gating back end on one shared store, after pre-histories taken from Hist.tla; the "
             "merged operation log is validated by RepoTrace.tla at every step and the real check/restore after each command.",
        note="A2: no logical time passes inside a prune (ticks only between commands); keep-delete (1 h) far exceeds the backups' "
             "durations. The timing window described in DESIGN.md (plan timestamp taken after the reads) is outside A2 and is "
             "documented by MCRepoConcNoA2.cfg, not raised by the check.",
        technique="TLC model of two interleaved command processes + gated schedules replayed on the real code + TLC trace validation of the merged log",
        design="4/C10"),
    "C06": dict(
        text="Chunker.tla defines CutLen/Chunks; MCChunker.tla shows with TLC that the iterator's buffer algorithm refines it for "
             "every stream <= 7 bytes, hit set, (min,max) and read fragmentation (and that the pre-fix carry behaviour does not). "
             "Real chunk lists (cfg-gated iterator, 4 fragmentation/hint patterns, and full backups) for seeded streams x 10 "
             "parameter triples x 3 polynomials are validated by ChunkerTrace.tla: partition, bounds, every cut = CutLen over hit "
             "positions from a from-definition GF(2) reference, equality across fragmentations, locality, fixed-size cuts; "
             "TLC recomputes sampled fingerprints from Rabin.tla.",
        note="Hit positions come from the harness's bitwise GF(2) reference (tied to Rabin.tla on sampled windows only: a full "
             "stream in TLC would take minutes per KiB). Deviation D1 (window right after the minimum size) is accepted.",
        technique="TLC refinement check of the buffer algorithm + TLC trace validation of real chunk lists against the TLA+ cut function",
        design="4/C06"),
    "C18": dict(
        text="ConfigGrid.tla generates the option grid (every single ConfigOptions field x boundary/huge values, every pair in the "
             "chunker and pack-size groups); each point is applied to the real library at init and as a change, followed by a smoke "
             "run (backup, check --read-data, read back, prune plan) under catch_unwind; a prune-limit grid runs prune. "
             "ConfigTrace.tla evaluates Frame, NoDowngrade, Untouched, AcceptedWorks and NoPanic on the logged outcomes "
             "(stored configuration read back with the independent decoder).",
        note="Built with overflow checks (dev/test profile). The smoke source is one small tree; sequences of two changes are "
             "covered only through the two base repositories.",
        technique="TLC-generated option grid replayed on the real library + TLC evaluation of frame/acceptance formulas on the outcomes",
        design="4/C18"),
    "C20": dict(
        text="Backend.tla models a back end as an exact map with the directory back end's temporary-file + atomic-publish "
             "write; TLC shows ListedComplete in every state incl. crashes inside a write (and that the naive design violates "
             "it). Every call of seeded operation sequences on LocalBackend, OpenDAL(fs) and OpenDAL(memory) is an event "
             "validated by BackendTrace.tla against the map (full / ranged reads, listings with sizes, stray files ignored); "
             "a cfg-gated hook observes the pre-publish point and interrupts writes there.",
        note="Interruption = process stop at the hook point between sync_all and rename; fsync/rename durability of the OS "
             "is trusted. Out-of-range reads and removal of absent files are not constrained by the property.",
        technique="TLC map/publish model + TLC trace validation of real back-end call logs incl. pre-publish hook observations",
        design="4/C20"),
    "C17": dict(
        text="Index.tla defines the allowed answers (Answers / Listed / Total / Retains per index mode). MCIndex.tla "
             "enumerates every collection of <= 2 (quick) / 3 (thorough) pack listings with duplicates, both blob types, "
             "marked and empty packs and re-listed packs; each collection is built in the real in-memory index (cfg-gated "
             "constructor, all three modes) and as real index files opened through the public path; every query's answer is "
             "validated by TLC (IndexTrace.tla), plus large seeded random collections.",
        note="Mixed-type packs are out of scope (not produced by rustic, not named by the property). The ids-only mode is "
             "queried through the hook only (no public query API).",
        technique="TLC-enumerated configurations replayed into the real index + TLC validation of every query answer",
        design="4/C17"),
    "C08": dict(
        text="Every pack write and index write observed in real runs of backup, prune (fast and re-encoding repack), merge, "
             "rewrite and repair is decoded by an independent parser and checked, as step obligations of RepoTrace.tla, for "
             "PackSelfDescribing and PackIndexAgree. Index files are then removed (all / random subsets) and repair-index run: "
             "RepoTrace's Rebuild formula plus the real check/restore decide. Repo.tla with lost index files proves Rebuilt "
             "for all histories <= 4 commands.",
        note="The independent decoder shares the primitive crates (AES-CTR/Poly1305, SHA-256, zstd) with the implementation. "
             "Copy as a pack writer is covered under C12.",
        technique="independent format decoder feeding TLC trace validation + TLC model of index loss and repair",
        design="4/C08"),
    "C15": dict(
        text="Prog.tla enumerates all programs of <= 2 public operations (simulated up to 4) which are run on an append-only "
             "repository holding garbage and damage; every command is also run with its dry-run flag. RepoTrace.tla checks "
             "on the storage log: no remove/overwrite of snapshot, index or pack files while append-only, commands refused "
             "for append-only have issued no mutating operation, dry-run commands issue none at all. Repo.tla with "
             "AppendOnly proves the action property NoRemoval.",
        note="Key files are outside the statement (deviation D3). copy-into an append-only destination is exercised under C12.",
        technique="TLC-generated operation programs replayed on the real repository + TLC trace validation of the storage log",
        design="4/C15"),
    "C02": dict(
        text="Hist.tla enumerates every meaningful history of length 4/5 over backup, stale backup, forget, prune(instant?), tick "
             "(plus simulated length-7 histories that can reach Recover); each is executed on the real repository with seeded "
             "options. RepoTrace.tla validates the operation log: every visible snapshot Readable after every storage "
             "operation, pack removals honour mark time + keep-delete, a completed prune leaves no used blob only in a marked "
             "pack; after every command the real check must be clean and every snapshot must read back to its recorded "
             "content. Repo.tla (TLC, exhaustive small scope) establishes the same formulas for the design.",
        note="Bounded: 3 evolving source versions of <= 4 files, fixed 64-byte chunks, pack sizes 100..2000 bytes; prune options "
             "drawn from the seeded generator (all limit kinds, repack flags, keep-pack/keep-delete, instant). Logical time by "
             "shifting stored index times. Typed-id collisions are decided under C07/C01.",
        technique="TLC-generated histories replayed on the real repository + TLC trace validation of the storage log",
        design="4/C02"),
    "C03": dict(
        text="Repo.tla (TLC, exhaustive for 2 versions / 3 commands) shows the ordering design keeps every visible snapshot "
             "readable at every crash point of backup/forget/prune. The code is bound to it by trace validation: each "
             "storage operation of the command under test is an event, RepoTrace.tla evaluates Readable/Dangling after every "
             "event (= every crash point of the observed linearisation) and compares with the real read path run on that "
             "very store prefix; every single-operation failure position is re-executed on a copy of the pre-state. "
             "RepairIndex.tla is repair-index as a step machine over every small store / index state (duplicate, stale, marked "
             "entries; lost and damaged packs): NothingLost at every step and crash point, Rebuilt / Complete at the end; it found "
             "the defect repaired by b9e4409 (marked entry met first), whose history (interrupted prune, backup, repair-index / prune) "
             "is now part of every run; the pre-fix orders are negative controls.",
        note="Assumes atomic failure of a single write/remove and crash = stop between two storage operations on an atomic "
             "in-memory store (no torn writes). Commands under test: backup, forget, prune (all options except the excluded "
             "instant+early-delete-index), repair index/snapshots, config, key add, merge, rewrite. Copy is covered under C12.",
        technique="TLC model of the storage protocol with crash steps + TLC trace validation of real operation logs at every prefix + fault injection sweep",
        design="4/C03"),
    "C09": dict(
        text="TLC evaluates the retention function Forget!Keep (TLA+, with an integer civil/ISO calendar) on the complete "
             "logged input of every real KeepOptions::apply / grouped call and compares with the real output (trace "
             "validation, every record); MCForget proves on all timelines <= 4 over boundary instants that the operational "
             "rule equals the declarative reading of the statement, is monotone in each counter and that delete marks dominate.",
        note="Trusted: jiff's construction of an instant from civil fields + fixed offset (sampled dates are cross-checked "
             "against Calendar.tla); TLC. Bounded: seeded timelines of 1..40 snapshots (quick 600 cases, thorough 12000 + "
             "exhaustive grid <= 3 snapshots x rule x counter); delete-unchanged is modelled but left off.",
        technique="TLA+ functional spec + TLC trace validation of real apply() calls; exhaustive TLC model of the rule",
        design="4/C09"),
}

NA_REASON = "check not built yet in this round (design in DESIGN.md section 4); not claimed"


def commits():
    try:
        out = subprocess.run(["git", "-C", "/repo", "log", "--format=%h %s"], capture_output=True, text=True).stdout
    except OSError:
        return []
    return [l.split()[0] for l in out.splitlines() if l.split(" ", 1)[1].startswith("verif-hook:")]


m = {
    "version": 1,
    "setup_cmd": "bash bin/setup.sh",
    "hooks": {
        "guard": "rustic_core_verif",
        "enable": "harness/.cargo/config.toml passes --cfg rustic_core_verif to every crate of the harness build (path deps on /repo)",
        "baseline_off_cmd": "cd /repo && cargo test --workspace --no-fail-fast --offline",
        "source_commits": commits(),
        "add_only": True,
    },
    "engines": [
        {"name": "tlc+harness", "path": "bin/check.py",
         "serves_properties": sorted(CHECKS),
         "kind_free_text": "TLA+ specifications in spec/ checked by TLC (exhaustive small-scope models + trace validation of "
                           "ndjson logs recorded from the real library by the Rust harness in harness/, + replay of TLC "
                           "behaviours into the real library)"}
    ],
    "checks": [],
    "not_applicable": [],
    "notes": "All checks: python3 bin/check.py <id> --tier quick|thorough. Exit 0 held / 1 VIOLATION / 2 tool error. "
             "Known findings in known_findings.json.",
}
for p in props:
    pid = p["id"]
    if pid in CHECKS:
        c = CHECKS[pid]
        m["checks"].append({
            "property_id": pid,
            "quick_cmd": "python3 bin/check.py %s --tier quick" % pid,
            "thorough_cmd": "python3 bin/check.py %s --tier thorough" % pid,
            "evidence_file": "/verif/evidence/%s.json" % pid,
            "replay_cmd_template": "python3 bin/check.py %s --replay {path}" % pid,
            "engine": "tlc+harness",
            "level_claimed": {"category": c.get("category", "model_checking"), "text": c["text"],
                              "design_ref": "DESIGN.md " + c["design"]},
            "level_note": c["note"],
            "technique": c["technique"],
        })
    else:
        m["not_applicable"].append({"property_id": pid, "reason": NA_REASON})
json.dump(m, open(os.path.join(ROOT, "MANIFEST.json"), "w"), indent=1)
print("checks:", [c["property_id"] for c in m["checks"]])
