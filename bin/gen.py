"""Seeded generators of scenario programs for the repo driver (harness/src/drivers/repo.rs)."""
import random

POOL = ["d%d" % i for i in range(1, 10)]


def rand_files(rng, nfiles=None):
    files = {}
    n = nfiles or rng.randint(1, 4)
    names = ["a", "b", "x/c", "x/d", "x/y/e", "z/f"]
    for name in rng.sample(names, n):
        k = rng.choice([0, 1, 1, 2, 2, 3, 4])
        blobs = [rng.choice(POOL) for _ in range(k)]
        if rng.random() < 0.3:
            blobs.append("%s:%d" % (rng.choice(POOL), rng.randint(1, 63)))
        files[name] = blobs
    return files


def evolve(rng, files):
    """a later version of the same source: edits that keep some blobs shared"""
    f = {k: list(v) for k, v in files.items()}
    for _ in range(rng.randint(1, 3)):
        op = rng.choice(["mod", "add", "del", "append"])
        if op == "mod" and f:
            k = rng.choice(sorted(f))
            if f[k]:
                f[k][rng.randrange(len(f[k]))] = rng.choice(POOL)
            else:
                f[k] = [rng.choice(POOL)]
        elif op == "add":
            f.update(rand_files(rng, 1))
        elif op == "del" and len(f) > 1:
            del f[rng.choice(sorted(f))]
        elif op == "append" and f:
            f[rng.choice(sorted(f))].append(rng.choice(POOL))
    return f


PRUNE_LIMITS = ["0%", "5%", "50%", "99%", "unlimited", "0B", "100B", "1MiB"]


def prune_opts(rng, kd=3600, allow_instant=True, allow_early=False):
    o = {"keep_delete": rng.choice([0, kd]), "max_unused": rng.choice(PRUNE_LIMITS),
         "max_repack": rng.choice(["unlimited", "unlimited", "0%", "10%", "50%", "200B"])}
    if rng.random() < 0.3:
        o["keep_pack"] = rng.choice([0, kd])
    for flag in ("fast", "repack_all", "repack_uncompressed", "no_resize"):
        if rng.random() < 0.25:
            o[flag] = True
    if rng.random() < 0.15:
        o["cacheable_only"] = rng.choice([True, False])
    # early-delete-index alone (without instant-delete) is documented to have no effect - and is NOT the excluded combination
    if rng.random() < 0.2:
        o["early_delete_index"] = True
    if allow_instant and rng.random() < 0.3:
        o["instant"] = True
        o["early_delete_index"] = allow_early and rng.random() < 0.5
    return o


def rand_cfg(rng):
    cfg = {"chunk": 64, "pack": rng.choice([100, 200, 300, 600, 2000])}
    r = rng.random()
    if r < 0.2:
        cfg["version"] = 1
    elif r < 0.5:
        cfg["compression"] = rng.choice([-5, 0, 1, 3, 19])
    # a third of the scenarios write an index file after every few blobs: commands then produce several index files
    if rng.random() < 0.35:
        cfg["index_flush"] = rng.choice([1, 2, 3, 5])
    return cfg


def history(rng, length, kd=3600, state=None, allow_instant=True):
    """sequence of backup / forget / prune / tick steps; returns (steps, nsnaps)"""
    steps = []
    files = rand_files(rng)
    nsn = 0
    alive = []
    for _ in range(length):
        r = rng.random()
        if r < 0.45 or nsn == 0:
            files = evolve(rng, files) if nsn else files
            steps.append({"cmd": "backup", "files": files})
            alive.append(nsn)
            nsn += 1
        elif r < 0.65 and alive:
            k = rng.randint(1, len(alive))
            rm = rng.sample(alive, k)
            steps.append({"cmd": "forget", "snaps": rm})
            alive = [a for a in alive if a not in rm]
        elif r < 0.9:
            steps.append({"cmd": "prune", "opts": prune_opts(rng, kd, allow_instant)})
        else:
            steps.append({"cmd": "tick", "dt": rng.choice([kd + 7, kd // 2])})
    return steps, nsn, alive, files
