#!/usr/bin/env python3
"""Run the registered quick checks against the seeded changes under /verif/seeded.

For every seeded/<name>/ (or the ones named on the command line): apply patch.diff to /repo's working tree,
run the quick tier of each check listed in meta.json["checks"], undo the change (git checkout -- .), and
record exit code and VIOLATION lines under meta.json["detected_by"].  /repo must be clean before and is
clean afterwards.  Not a registered check: it changes /repo's working tree while it runs."""
import json, os, subprocess, sys, time
V = os.path.dirname(os.path.dirname(os.path.abspath(__file__)))
def sh(*a, **k): return subprocess.run(a, capture_output=True, text=True, **k)
def main():
    names = sys.argv[1:] or sorted(os.listdir(f"{V}/seeded"))
    tier = os.environ.get("TIER", "quick")
    if sh("git", "-C", "/repo", "status", "--porcelain").stdout.strip():
        print("refusing: /repo has local changes"); return 2
    missed = 0
    for n in names:
        d = f"{V}/seeded/{n}"
        if not os.path.exists(f"{d}/meta.json"): continue
        meta = json.load(open(f"{d}/meta.json"))
        r = sh("git", "-C", "/repo", "apply", f"{d}/patch.diff")
        if r.returncode: print(n, "patch does not apply:", r.stderr); missed += 1; continue
        try:
            for c in meta.get("checks", [meta["property"]]):
                t = time.time()
                r = sh("python3", f"{V}/bin/check.py", c, "--tier", tier, cwd=V)
                viol = [l for l in r.stdout.splitlines() if l.startswith("VIOLATION")]
                nviol = [l for l in r.stdout.splitlines() if "violation" in l.lower()][:6]
                meta.setdefault("detected_by", {})[f"{c} {tier}"] = {
                    "exit": r.returncode, "violation_lines": viol[:3], "summary": nviol, "seconds": round(time.time() - t)}
                ok = r.returncode == 1 and viol
                print(f"{n}: {c} {tier} exit={r.returncode} {'DETECTED' if ok else 'MISSED'} {viol[:1]}", flush=True)
                if not ok: missed += 1
        finally:
            sh("git", "-C", "/repo", "checkout", "--", ".")
        json.dump(meta, open(f"{d}/meta.json", "w"), indent=1)
    # the harness binary was built against the last changed tree: rebuild it against the clean one
    sys.path.insert(0, f"{V}/bin")
    import vlib
    vlib.build_harness()
    # evidence written while a change was applied must not stay: the caller refreshes it
    print("NOTE: evidence files of the checks run above now describe the changed tree; re-run those checks")
    return 1 if missed else 0
sys.exit(main())
