#!/usr/bin/env python3
"""Entry point of every registered check:  check.py <Cxx> [--tier quick|thorough] [--replay <file>]

exit 0: property held on everything explored (KNOWN-FINDING lines possible)
exit 1: at least one line 'VIOLATION property=<id> replay=<path>' was printed
exit 2: tool error / timeout (the run says nothing about the property)
"""
import argparse
import importlib
import os
import sys
import traceback

sys.path.insert(0, os.path.dirname(os.path.abspath(__file__)))
import vlib  # noqa: E402


def main():
    ap = argparse.ArgumentParser()
    ap.add_argument("pid")
    ap.add_argument("--tier", default=os.environ.get("VERIF_TIER", "quick"), choices=["quick", "thorough"])
    ap.add_argument("--replay")
    ap.add_argument("--no-build", action="store_true")
    a = ap.parse_args()
    seed = int(os.environ.get("VERIF_SEED", "1"))
    pid = a.pid.upper()
    if a.replay:
        # the replay file usually lives in out/<pid>/, which a new run clears: keep a copy elsewhere first
        import shutil
        keep = os.path.join(vlib.ROOT, "out", "_replay", pid)
        os.makedirs(keep, exist_ok=True)
        dst = os.path.join(keep, os.path.basename(a.replay))
        if os.path.abspath(a.replay) != dst:
            shutil.copy(a.replay, dst)
        a.replay = dst
    ctx = vlib.Ctx(pid, a.tier, seed)
    mod = importlib.import_module("checks." + pid.lower())
    rc = 0
    try:
        if not a.no_build:
            vlib.build_harness()
        if a.replay:
            mod.replay(ctx, a.replay)
        else:
            mod.run(ctx)
        rc = 1 if ctx.nviol else 0
    except vlib.ToolError as e:
        vlib.log("TOOL ERROR:", e)
        ctx.extra["tool_error"] = str(e)[:2000]
        rc = 1 if ctx.nviol else 2
    except Exception:  # noqa: BLE001
        traceback.print_exc()
        ctx.extra["tool_error"] = traceback.format_exc()[-2000:]
        rc = 1 if ctx.nviol else 2
    if not a.replay:
        ctx.write_evidence(getattr(mod, "LEVEL", "model_checking"))
    vlib.log("%s %s: exit %d, %d violation(s), %d known, %.0fs" % (pid, a.tier, rc, ctx.nviol, ctx.nknown, vlib.time.time() - ctx.t0))
    sys.exit(rc)


if __name__ == "__main__":
    main()
