"""The planning half of prune against PruneDecide.tla (used by the C02 check).

MC : MCPruneDecide (1 pack: all 73 728 configurations; thorough: 2 packs) - lemmas Safe, Timely, Thrifty, Accounted of
     the transcription of count_used_blobs / PackInfo::from_pack / decide_packs / decide_repack.
RP : configurations (TLC's own for one pack, seeded random ones for 2-5 packs in 1-3 index files) are run through the
     real planner (cfg-gated hook PrunePlan::verif_decide); PruneDecideTrace.tla compares every decision with Todo(c)
     and re-evaluates Safe / Timely on the REAL decisions.
"""
import json
import os
import random

import vlib

AGES = ["none", "old", "young"]


def rand_config(rng):
    n = rng.randint(2, 5)
    packs = []
    for _ in range(n):
        if rng.random() < 0.3:
            bl = ["t1"] * rng.randint(1, 2) if rng.random() < 0.7 else [rng.choice(["t1", "t2"]) for _ in range(rng.randint(1, 3))]
            tpe = "tree"
        else:
            bl = [rng.choice(["d1", "d2", "d3"]) for _ in range(rng.randint(1, 3))]
            tpe = "data"
        packs.append({"tpe": tpe, "blobs": bl, "mark": rng.random() < 0.4, "age": rng.choice(AGES)})
    blobs = sorted({b for p in packs for b in p["blobs"]})
    used = [b for b in blobs if rng.random() < 0.6]
    if rng.random() < 0.05:
        used.append("d9")          # needed but in no pack: the planner must refuse
    opt = {"keepPack": rng.random() < 0.5, "keepDelete": rng.random() < 0.5, "cacheableOnly": rng.random() < 0.3,
           "uncompressed": rng.random() < 0.3, "all": rng.random() < 0.3, "noResize": rng.random() < 0.5,
           "lim": rng.choice(["all", "none", "unusedok"])}
    nf = rng.randint(1, 3)
    files = sorted(rng.randint(1, nf) for _ in range(n))
    # file numbers must be contiguous from 1
    m = {f: i + 1 for i, f in enumerate(sorted(set(files)))}
    return {"packs": packs, "used": used, "opt": opt, "files": [m[f] for f in files]}


def run(ctx, pid="C02"):
    q = ctx.quick
    vlib.mc(ctx, "MCPruneDecide.tla", "MCPruneDecide1.cfg", workers=4, timeout=900)
    if not q:
        vlib.mc(ctx, "MCPruneDecide.tla", "MCPruneDecide2.cfg", workers=12, timeout=6 * 3600, heap="24g")
    r = vlib.tlc("MCPruneDecide.tla", "MCPruneDecideGen1.cfg", workers=1, timeout=1800, metadir=os.path.join(ctx.out, "pd-gen"), heap="8g")
    if r.error or r.violated:
        raise vlib.ToolError("MCPruneDecideGen1: %s" % (r.error or r.violated))
    rng = random.Random(ctx.seed * 613 + 2)
    ones = []
    for x in r.printed("REPLAY"):
        packs = [{"tpe": p["tpe"], "blobs": p["blobs"], "mark": p["mark"], "age": p["age"]} for p in x[1]]
        ones.append({"packs": packs, "used": sorted(x[2]["#set"]), "opt": x[3]})
    if len(ones) < 70000:
        raise vlib.ToolError("generator printed only %d one-pack configurations" % len(ones))
    confs = (rng.sample(ones, 4000) if q else ones) + [rand_config(rng) for _ in range(3000 if q else 150000)]
    cf = os.path.join(ctx.out, "planner-configs.ndjson")
    open(cf, "w").write("\n".join(json.dumps(c) for c in confs) + "\n")
    trace = os.path.join(ctx.out, "planner.ndjson")
    rc, out = vlib.vh(["prunedecide", "--configs", cf, "--out", trace], timeout=3600)
    if rc != 0:
        raise vlib.ToolError("prunedecide driver failed: " + out[-1500:])
    recs = [json.loads(l) for l in open(trace)]
    if any(x["e"] == "toolerr" for x in recs):
        raise vlib.ToolError("prunedecide: %s" % [x for x in recs if x["e"] == "toolerr"][:1])
    rv = vlib.tlc("PruneDecideTrace.tla", "PruneDecideTrace.cfg", workers=1, timeout=6 * 3600, env={"TRACE": trace},
                  metadir=os.path.join(ctx.out, "pd-tv"), heap="12g")
    if rv.error or rv.violated or rv.printed("TOOLERR"):
        open(os.path.join(ctx.out, "pd-tv.log"), "w").write(rv.out)
        raise vlib.ToolError("PruneDecideTrace failed: %s %s" % (rv.error or rv.violated, rv.printed("TOOLERR")[:1]))
    ctx.states += rv.distinct
    ctx.transitions += rv.generated
    ctx.traces += len(recs)
    nv = 0
    for nc in rv.printed("NONCONF"):
        rec = recs[nc[1] - 1]
        for it in nc[2]["#set"]:
            nv += 1
            if nv <= 10:
                ctx.violation({"id": "planner-%d" % nc[1], "formula": "Planner" + it[0], "what": "prune planner: %s for configuration %s: %s"
                               % (it[0], json.dumps(rec["c"])[:300], json.dumps(it)[:200]), "detail": it, "config": rec["c"], "files": rec["files"], "kind": "planner"})
    kinds = {}
    for x in recs:
        for t in x["real"]:
            kinds[t] = kinds.get(t, 0) + 1
    need = {"Keep", "Repack", "MarkDelete", "Delete", "KeepMarked", "KeepMarkedAndCorrect", "Recover", "error"}
    if not need <= set(kinds):
        raise vlib.ToolError("vacuity: decisions never taken: %s" % sorted(need - set(kinds)))
    # negative controls
    base = next(x for x in recs if "Recover" in x["real"])
    n1 = json.loads(json.dumps(base)); n1["real"] = ["Delete" if t == "Recover" else t for t in n1["real"]]
    b2 = next(x for x in recs if "Repack" in x["real"])
    n2 = json.loads(json.dumps(b2)); n2["real"] = ["Keep" if t == "Repack" else t for t in n2["real"]]
    nf = os.path.join(ctx.out, "planner-neg.ndjson")
    open(nf, "w").write(json.dumps(n1) + "\n" + json.dumps(n2) + "\n")
    rn = vlib.tlc("PruneDecideTrace.tla", "PruneDecideTrace.cfg", workers=1, timeout=600, env={"TRACE": nf}, metadir=os.path.join(ctx.out, "pd-neg"))
    flagged = {nc[1]: {it[0] for it in nc[2]["#set"]} for nc in rn.printed("NONCONF")}
    ctx.negative_control("Safe" in flagged.get(1, set()), "planner: a needed marked pack deleted instead of recovered")
    ctx.negative_control("Conform" in flagged.get(2, set()), "planner: a repack decision replaced by keep")
    ctx.extra.update({"planner_configurations": len(recs), "planner_decisions": kinds})


def replay(ctx, rec):
    cf = os.path.join(ctx.out, "replay-config.ndjson")
    c = dict(rec["config"]); c["files"] = rec.get("files", [1] * len(c["packs"]))
    open(cf, "w").write(json.dumps(c) + "\n")
    trace = os.path.join(ctx.out, "replay-planner.ndjson")
    vlib.vh(["prunedecide", "--configs", cf, "--out", trace], timeout=600)
    recs = [json.loads(l) for l in open(trace)]
    rv = vlib.tlc("PruneDecideTrace.tla", "PruneDecideTrace.cfg", workers=1, timeout=600, env={"TRACE": trace}, metadir=os.path.join(ctx.out, "pd-rp"))
    for nc in rv.printed("NONCONF"):
        for it in nc[2]["#set"]:
            ctx.violation({"id": "planner-replay", "formula": "Planner" + it[0], "what": "prune planner: %s" % json.dumps(it)[:300], "detail": it,
                           "config": recs[0]["c"], "files": recs[0]["files"], "kind": "planner"})
