"""Shared machinery of the rustic_core TLA+ verification checks.

- build_harness(): rebuild /verif/harness against /repo's working tree (hooks on)
- tlc(): run TLC on a module/config, parse totals, PrintT tuples (NONCONF / TOOLERR / REPLAY)
- Ctx: per-check context: output dir, violations + known-findings, evidence writer
Exit codes of a check: 0 held, 1 VIOLATION, 2 tool error / timeout.
"""
import json
import os
import re
import shutil
import subprocess
import sys
import time

ROOT = os.path.dirname(os.path.dirname(os.path.abspath(__file__)))
SPEC = os.path.join(ROOT, "spec")
HARNESS = os.path.join(ROOT, "harness")
VH = os.path.join(HARNESS, "target", "debug", "vh")
REPO = os.environ.get("VERIF_REPO", "/repo")
KNOWN = os.path.join(ROOT, "known_findings.json")


class ToolError(Exception):
    pass


def log(*a):
    print("[verif]", *a, file=sys.stderr, flush=True)


def sh(cmd, timeout, cwd=None, env=None, check=False):
    e = dict(os.environ)
    if env:
        e.update(env)
    try:
        p = subprocess.run(cmd, cwd=cwd, env=e, timeout=timeout, stdout=subprocess.PIPE,
                           stderr=subprocess.STDOUT, text=True, errors="replace")
    except subprocess.TimeoutExpired as ex:
        raise ToolError("timeout after %ss: %s" % (timeout, " ".join(cmd)[:200])) from ex
    if check and p.returncode != 0:
        raise ToolError("command failed (%d): %s\n%s" % (p.returncode, " ".join(cmd)[:200], p.stdout[-3000:]))
    return p.returncode, p.stdout


def build_harness():
    """cargo build of the harness; path deps on /repo mean the current working tree is compiled."""
    t0 = time.time()
    lock_src = os.path.join(REPO, "Cargo.lock")
    lock_dst = os.path.join(HARNESS, "Cargo.lock")
    if not os.path.exists(lock_dst):
        shutil.copy(lock_src, lock_dst)
    env = {"CARGO_NET_OFFLINE": "true"}
    rc, out = sh(["cargo", "build", "--offline"], 3000, cwd=HARNESS, env=env)
    if rc != 0:
        # a stale lock file can be the reason: refresh it once from the repository
        shutil.copy(lock_src, lock_dst)
        rc, out = sh(["cargo", "build", "--offline"], 3000, cwd=HARNESS, env=env)
    if rc != 0:
        raise ToolError("harness build failed:\n" + out[-4000:])
    log("harness built in %.0fs" % (time.time() - t0))
    return VH


def vh(args, timeout=600, env=None):
    """run the harness binary; returns (rc, stdout). A crash of the harness itself is a tool error."""
    rc, out = sh([VH] + [str(a) for a in args], timeout, cwd=ROOT, env=env)
    return rc, out


# ---------------------------------------------------------------- TLA value parser
_RE_NAME = re.compile(r"[A-Za-z_][A-Za-z0-9_]*")
_RE_INT = re.compile(r"-?\d+")
_RE_BOOL = re.compile(r"TRUE|FALSE")


class _P:
    def __init__(self, s):
        self.s = s
        self.i = 0

    def ws(self):
        while self.i < len(self.s) and self.s[self.i] in " \t\r\n":
            self.i += 1

    def peek(self, t):
        self.ws()
        return self.s.startswith(t, self.i)

    def eat(self, t):
        self.ws()
        if not self.s.startswith(t, self.i):
            raise ValueError("expected %r at %d: %r" % (t, self.i, self.s[self.i:self.i + 30]))
        self.i += len(t)

    def val(self):
        self.ws()
        s = self.s
        if self.peek("<<"):
            self.eat("<<")
            out = []
            while not self.peek(">>"):
                out.append(self.val())
                if self.peek(","):
                    self.eat(",")
            self.eat(">>")
            return out
        if self.peek("{"):
            self.eat("{")
            out = []
            while not self.peek("}"):
                out.append(self.val())
                if self.peek(","):
                    self.eat(",")
            self.eat("}")
            return {"#set": out}
        if self.peek("["):
            self.eat("[")
            rec = {}
            while not self.peek("]"):
                self.ws()
                m = _RE_NAME.match(s, self.i)
                if not m:
                    raise ValueError("field name at %d" % self.i)
                self.i = m.end()
                self.eat("|->")
                rec[m.group(0)] = self.val()
                if self.peek(","):
                    self.eat(",")
            self.eat("]")
            return rec
        if self.peek('"'):
            j = self.i + 1
            buf = []
            while s[j] != '"':
                if s[j] == "\\":
                    j += 1
                buf.append(s[j])
                j += 1
            self.i = j + 1
            return "".join(buf)
        m = _RE_INT.match(s, self.i)
        if m:
            self.i = m.end()
            return int(m.group(0))
        m = _RE_BOOL.match(s, self.i)
        if m:
            self.i = m.end()
            return m.group(0) == "TRUE"
        m = _RE_NAME.match(s, self.i)
        if m:
            self.i = m.end()
            return m.group(0)
        raise ValueError("cannot parse at %d: %r" % (self.i, s[self.i:self.i + 40]))


def parse_printed(out, tag):
    """all tuples <<"tag", ...>> printed by PrintT in TLC output (possibly multi-line)"""
    res = []
    for m in re.finditer(r'<<\s*"%s"' % re.escape(tag), out):
        p = _P(out)
        p.i = m.start()
        try:
            res.append(p.val())
        except (ValueError, IndexError):
            res.append([tag, "unparsable", out[m.start():m.start() + 200]])
    return res


class TLCResult:
    def __init__(self, rc, out, wall, simulate=False):
        self.rc = rc
        self.out = out
        self.wall = wall
        m = re.search(r"(\d[\d,]*) states generated, (\d[\d,]*) distinct states found", out)
        self.generated = int(m.group(1).replace(",", "")) if m else 0
        self.distinct = int(m.group(2).replace(",", "")) if m else 0
        m = re.search(r"depth of the complete state graph search is (\d+)", out)
        self.depth = int(m.group(1)) if m else 0
        self.completed = "Model checking completed. No error has been found." in out or (
            simulate and "Error:" not in out and rc == 0)
        if simulate and not self.generated:
            m = re.search(r"The number of states generated: (\d+)", out)
            self.generated = self.distinct = int(m.group(1)) if m else 0
        m = re.search(r"Invariant (\S+) is violated", out)
        self.violated = m.group(1) if m else None
        if not self.violated:
            m = re.search(r"(Temporal properties were violated|Deadlock reached|Action property \S+ is violated)", out)
            self.violated = m.group(1) if m else None
        self.error = None
        if not self.completed and not self.violated:
            m = re.search(r"Error: (.*)", out)
            self.error = m.group(1) if m else "TLC did not complete (rc=%d)" % rc

    def printed(self, tag):
        return parse_printed(self.out, tag)

    def coverage(self):
        """per-action distinct state counts from -coverage output: {action: (generated, distinct)}"""
        cov = {}
        for m in re.finditer(r"<(\w+) line \d+, col \d+ to line \d+, col \d+ of module (\w+)>: (\d+):(\d+)", self.out):
            cov[m.group(1)] = (int(m.group(4)), int(m.group(3)))
        return cov

    def trace_states(self):
        """the counterexample states printed by TLC (list of text blocks)"""
        return re.findall(r"State \d+:.*?(?=\nState \d+:|\n\n|\Z)", self.out, flags=re.S)


def tlc(module, cfg, workers=1, timeout=600, env=None, heap="4g", simulate=None, depth=None,
        metadir=None, coverage=False, seed=None, deque=False, extra=None):
    """run TLC in /verif/spec. module, cfg: file names relative to spec/."""
    os.makedirs(metadir, exist_ok=True)
    jopts = "-Xss1g -Xmx%s" % heap
    if deque:
        jopts += " -Dtlc2.tool.queue.IStateQueue=StateDeque"
    e = {"JAVA_TOOL_OPTIONS": jopts}
    if env:
        e.update(env)
    cmd = ["tlc", "-workers", str(workers), "-metadir", metadir, "-cleanup", "-noGenerateSpecTE",
           "-config", cfg]
    if coverage:
        cmd += ["-coverage", "1"]
    if simulate:
        cmd += ["-simulate", "num=%d" % simulate]
        if depth:
            cmd += ["-depth", str(depth)]
    if seed is not None:
        cmd += ["-seed", str(seed)]
    if extra:
        cmd += extra
    cmd.append(module)
    t0 = time.time()
    rc, out = sh(cmd, timeout, cwd=SPEC, env=e)
    out = "\n".join(l for l in out.splitlines()
                    if not re.match(r"^(Parsing file|Semantic processing|Linting of module|Picked up JAVA)", l))
    shutil.rmtree(metadir, ignore_errors=True)
    return TLCResult(rc, out, time.time() - t0, simulate=bool(simulate))


def mc(ctx, module, cfg, workers=8, timeout=900, must_cover=(), **kw):
    """exhaustive / simulated model-checking run that must succeed on the design level.
    A failure here is independent of the code: it is reported as a tool error."""
    r = tlc(module, cfg, workers=workers, timeout=timeout, metadir=os.path.join(ctx.out, "mc-" + cfg),
            coverage=bool(must_cover), **kw)
    ctx.states += r.distinct
    ctx.transitions += r.generated
    ctx.mc_runs.append({"module": module, "cfg": cfg, "distinct": r.distinct, "generated": r.generated,
                        "depth": r.depth, "wall_s": round(r.wall, 1)})
    if r.violated or r.error:
        open(os.path.join(ctx.out, "mc-%s.log" % cfg), "w").write(r.out)
        raise ToolError("model %s/%s: %s (log in out/%s/mc-%s.log)" % (module, cfg, r.violated or r.error, ctx.pid, cfg))
    if must_cover:
        cov = r.coverage()
        for a in must_cover:
            if cov.get(a, (0, 0))[0] == 0:
                raise ToolError("vacuity: action %s of %s never taken" % (a, module))
        ctx.mc_runs[-1]["actions"] = {a: cov[a][0] for a in cov}
    return r


def apalache_inductive(ctx, module, cinit="ConstInit", inv="IndInv", init="Init", indinit="IndInit", subst=None, timeout=900, neg=False):
    """inductive-invariant check with Apalache (spec/apalache/<module>.tla): base case (length 0 from Init) and step
    (length 1 from IndInit).  subst: textual substitutions applied to a scratch copy (negative controls).
    Returns (base_ok, step_ok)."""
    src = os.path.join(SPEC, "apalache", module + ".tla")
    work = os.path.join(ctx.out, "apalache-" + module + ("-neg" if subst else ""))
    shutil.rmtree(work, ignore_errors=True)
    os.makedirs(work)
    text = open(src).read()
    for a, b in (subst or {}).items():
        if a not in text:
            raise ToolError("apalache substitution target missing: " + a)
        text = text.replace(a, b)
    open(os.path.join(work, module + ".tla"), "w").write(text)
    res = []
    for i, length in ((init, 0), (indinit, 1)):
        rc, out = sh(["apalache-mc", "check", "--cinit=" + cinit, "--init=" + i, "--inv=" + inv, "--length=%d" % length,
                      "--out-dir=" + os.path.join(work, "out"), module + ".tla"], timeout, cwd=work)
        if "The outcome is: NoError" in out:
            res.append(True)
        elif "violated" in out or "Found 1 error" in out:
            res.append(False)
        else:
            raise ToolError("apalache %s (%s, length %d): %s" % (module, i, length, out[-600:]))
    shutil.rmtree(work, ignore_errors=True)
    ctx.mc_runs.append({"module": "apalache/" + module + ".tla", "cfg": "inductive" + (" (negative control)" if neg else ""),
                        "base": res[0], "step": res[1]})
    return tuple(res)


# ---------------------------------------------------------------- known findings
def load_known():
    if not os.path.exists(KNOWN):
        return []
    return json.load(open(KNOWN)).get("findings", [])


def _match_one(pat, val):
    if isinstance(pat, dict) and "regex" in pat:
        return isinstance(val, str) and re.search(pat["regex"], val) is not None
    if isinstance(pat, dict) and "in" in pat:
        return val in pat["in"]
    if isinstance(pat, dict) and "range" in pat:
        return isinstance(val, (int, float)) and pat["range"][0] <= val <= pat["range"][1]
    return pat == val


def match_known(pid, rec):
    for f in load_known():
        if f.get("property") != pid or f.get("status") != "known":
            continue
        if all(_match_one(p, rec.get(k)) for k, p in f.get("match", {}).items()):
            return f
    return None


# ---------------------------------------------------------------- context
class Ctx:
    def __init__(self, pid, tier, seed):
        self.pid = pid
        self.tier = tier
        self.seed = seed
        self.out = os.path.join(ROOT, "out", pid)
        shutil.rmtree(self.out, ignore_errors=True)
        os.makedirs(self.out, exist_ok=True)
        self.t0 = time.time()
        self.states = 0
        self.transitions = 0
        self.traces = 0
        self.mc_runs = []
        self.samples = []
        self.extra = {}
        self.assumptions = []
        self.nviol = 0
        self.nknown = 0
        self.known_printed = set()
        self.neg_controls = {"run": 0, "rejected": 0}

    @property
    def quick(self):
        return self.tier == "quick"

    def sample(self, s):
        if len(self.samples) < 6:
            self.samples.append(s)

    def violation(self, rec):
        """rec: dict describing the failing scenario (self-contained, used as replay file)"""
        rec = dict(rec)
        rec["property"] = self.pid
        k = match_known(self.pid, rec)
        if k is not None:
            self.nknown += 1
            key = k.get("id", k.get("what"))
            if key not in self.known_printed:
                self.known_printed.add(key)
                print("KNOWN-FINDING: property=%s %s" % (self.pid, k["what"]), flush=True)
            return False
        self.nviol += 1
        path = os.path.join(self.out, "violation-%d.json" % self.nviol)
        json.dump(rec, open(path, "w"), indent=1, default=str)
        if self.nviol <= 20:
            print("VIOLATION property=%s replay=%s" % (self.pid, path), flush=True)
            log("violation:", json.dumps({k2: v for k2, v in rec.items() if k2 in ("what", "id", "where", "detail")}, default=str)[:600])
        return True

    def negative_control(self, rejected, what):
        self.neg_controls["run"] += 1
        if rejected:
            self.neg_controls["rejected"] += 1
        else:
            raise ToolError("negative control accepted (the check would be vacuous): " + what)

    def write_evidence(self, level="model_checking"):
        cov = {
            "states": max(self.states, 0),
            "transitions": max(self.transitions, 0),
            "traces_validated_against_impl": self.traces,
            "samples": self.samples or ["(no sample recorded)"],
            "model_runs": self.mc_runs,
            "negative_controls": self.neg_controls,
            "known_findings_matched": self.nknown,
        }
        cov.update(self.extra)
        ev = {
            "property_id": self.pid,
            "tier": self.tier,
            "seed": self.seed,
            "level": level,
            "coverage": cov,
            "assumptions": self.assumptions,
            "wall_s": round(time.time() - self.t0, 1),
            "violations": self.nviol,
        }
        os.makedirs(os.path.join(ROOT, "evidence"), exist_ok=True)
        json.dump(ev, open(os.path.join(ROOT, "evidence", self.pid + ".json"), "w"), indent=1, default=str)
